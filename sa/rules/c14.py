"""C14 - buffered readers (DESIGN.md section 3, C14).

Declined as a whole (history x chunking equivalence with a flat cursor is
value-level).  Decided with E4 (sa/linexpr.py):
R1 `_buffer_len == len(_buffer)` is preserved by every acyclic path of every
method of both readers; R2 (sync) the source is read only in one place, never
for more than the remaining budget, and the budget is decreased by what was
obtained; R3 a delimiter is skipped only after it was verified, and delimiter
lengths are confined to [1, chunk_size]; R4 (async) tell()/eof are functions of
the cursor fields, `_consumed` grows by the length of every chunk handed out;
R5 (sync) size normalisation.  R6-R8 use a ghost "stream offset of _buffer[0]"
(class _StreamModel): R6 every `.find(delimiter, ...)` on the buffer / on a
fragment cut from it starts at or after the cursor; R7 (async, shared with C13
as its R5) after a failed search of the buffered data an early hand-out stays
at least len(delimiter) - 1 bytes short of the end of the searched range (the
end of the buffer and, for `.find(delimiter, start, end)`, the end bound:
bytes.find needs the whole match inside [start, end)); R8 (async generators)
every yield hands out exactly the bytes between the previous cursor position
and the cursor at the yield, and the cursor keeps its stream position in
between; R9 (sync) the same conservation for the synchronous reader, where
bytes leave through return values, backlog appends and verified delimiter
skips: at every exit, loop head and call of a method that moves the buffer the
cursor stands exactly behind the last byte handed out -- in particular a
buffer that is REPLACED by the next data of the stream is re-based together
with `_buffer_pos` (reset on the same path in any order, or provably 0 / the
old buffer provably drained and the cursor reset); R10 (sync, shared with C13
as its R6) the synchronous analogue of R7: in the read-until loop, on a path
that has not fetched new data from the source since the loop head, buffered
bytes that are handed out (returned / appended to a sink, by the method itself
or by a reader method it delegates to, followed for two levels with the
caller's path facts) after a failed delimiter search end at least
len(delimiter) - 1 bytes before the end of the searched range.
R7 also covers coroutines of the asynchronous reader that search the buffer
themselves and serve a capped read straight from it (decided like R10).
R11 (async, shared with C13 as its R9) every chunk of the normalising source
iterator that is followed by another one is at least as long as the widest
look-ahead `item[:k]` of a delimiter search over self._source can be
(k = len(delimiter) - 1 <= chunk_size - 1 by the delimiter-length guard).
R12 (sync) per-method contract size >= 0 ==> len(result) <= size, proved for
every method with a `size` parameter from the contracts of its callees
(frozen table of assumed, loop-carried contracts: _CAP_ASSUMED).
R13 0 <= _buffer_pos <= _buffer_len on every acyclic path of every method that
stores one of the three fields, for BOTH readers; in the asynchronous reader
(loop invariants of R8's model, parameterless helpers executed in place) a
PUBLIC method that replaces / shrinks the buffer on a path that leaves the
cursor alone, where the bound could only follow from the entry state and does
not, is a violation (exhaust() emptying the buffer: tell() past the end).
R15 (sync) the constructor, evaluated with the length parameter bound to 0, 1
and 5, stores exactly that value as the initial budget: a default for "no
length" chosen by truthiness (`max_stream_len or BIG`) is a violation.

Clauses added after the auto-mutation sweep (first-order mutants sa-am...):
R1 also: the cached length is STORED after the buffer on the path (a buffer
store without a later length store is a violation even when the difference
involves a parameter), a provably non-zero difference is a violation; a chunk
parameter (<x>, <x>_len) that the method splices into the buffer is left out
only when it is provably empty.  R2 also: the gate returns without asking the
source only when min(size, budget) <= 0; after a source call it returns only
when the call served everything still wanted or returned the empty chunk; an
empty chunk leaves the budget at 0.  R4 also: eof evaluated on the four cells
{exhausted} x {drained} is the conjunction.  R6 also: a search result passed
on as a buffer position is translated by the offset of the searched fragment.
R7 / R10 also (frozen idiom: bytes.find returns -1 or a position >= start):
more data is fetched only after every search of the buffered data made on the
path has provably failed.  R8 also: when the iteration ends after a successful
search the cursor stands at the match.  R10 also: a look-ahead chunk handed to
a reader method stays the next data of the stream (the callee, followed two
levels with the caller's facts, does not read the source before placing it),
and buffered bytes up to the end of the buffer are handed on while such a chunk
is pending only after the chunk border was searched (or len(delimiter) <= 1).
R16 peek(): window [cursor, cursor + n), n by the size partition; short only
at the end of the stream.  R17 None never meets `<` / arithmetic.  R18
collecting loops: countdown used up at every exit, running total == collected,
a non-empty backlog is part of the result.
R19 (async) who-may-use: the one-shot iteration guard is tested / set by
__aiter__ alone and no other method iterates `self` (pipe / exhaust / read* are
repeatable and work after a started iteration).
Reading through refactorings (second preserving wave): a READ-ONLY VALUE HELPER of the reader -- a private synchronous method that
stores no attribute (transitively), never reads the source, is made of local assignments / if / return / raise and calls only
len / min / max, number-valued bytes methods and other such helpers -- is executed in place, once per way through it that
returns, in front of the statement that calls it (_inline_helpers; the returned value is the value of the call, its path facts are
the caller's): R6-R10 (stream model: parameters stand for the regions / source chunks / delimiter they are handed), R11 (a
look-ahead `item[:k]` inside a helper that is handed the item and the delimiter) and the other path rules that go through
_run_steps (values only) judge `self._find_on_boundary(delimiter, delimiter_len_1, next_chunk)` like the inline search it
replaces; such a helper, when all its callers take a `delimiter`, is judged in their contexts only.  R14 reads an optional
parameter that no call in the package passes as its default (`chunk_size or self._chunk_size` under `chunk_size=None`).
Not decided: readlines(hint) for hint == 0 (limit vs "no limit" is a convention
of the reference cursor, not of the arithmetic).
"""

from __future__ import annotations

import ast

from .. import flow
from ..cfg import cfg_of
from ..linexpr import Env, Lin, NONE, Seq, atom_text, fresh, local_edges, loop_heads, paths_from, run_steps, segments
from ..model import AnchorError, Func, UnknownIdiom, dotted, short, unparse
from .c07_helpers import Verdicts, require_attrs
from .common import strip_await, walk_self

SYNC = 'falcon.util.reader.BufferedReader'
ASYNC = 'falcon.asgi.reader.BufferedReader'
BUF, BLEN, BPOS = 'self._buffer', 'self._buffer_len', 'self._buffer_pos'
BUDGET, SOURCE_FN, CHUNK = 'self._max_bytes_remaining', 'self._read_func', 'self._chunk_size'
DELIM = 'delimiter'          # public keyword parameter of read_until / pipe_until / delimit


def _expr(text):
    return ast.parse(text, mode='eval').body


def _stores(f):
    """self attributes stored (assigned / augmented) directly in f."""
    out = set()
    for n in walk_self(f.node):
        if isinstance(n, ast.Attribute) and isinstance(n.ctx, (ast.Store, ast.Del)) and dotted(n) and dotted(n).startswith('self.'):
            out.add(dotted(n))
    return out


_NORMALISED = {}


def _without_method_aliases(p, rd, f):
    """f itself when it holds no bound method of the reader in a local; otherwise a copy of f (same qualified name, same source
    positions) in which every read of such a local is `self.<method>` and the binding statement is `pass`.  Sound because the local is
    bound by exactly one plain assignment, never stored otherwise, and no method of the class ever stores `self.<method>`."""
    if f.nested or any(isinstance(x, (ast.FunctionDef, ast.AsyncFunctionDef, ast.Lambda, ast.ClassDef)) for x in ast.walk(f.node) if x is not f.node):
        return f
    aliases = rd.method_aliases(f)
    if not aliases:
        return f
    key = (id(p), f.qual)
    hit = _NORMALISED.get(key)
    if hit is not None and hit[0] is f.node:
        return hit[1]
    import copy

    class T(ast.NodeTransformer):
        def visit_Assign(self, n):
            if len(n.targets) == 1 and isinstance(n.targets[0], ast.Name) and n.targets[0].id in aliases:
                return ast.copy_location(ast.Pass(), n)
            return self.generic_visit(n)

        def visit_Name(self, n):
            if isinstance(n.ctx, ast.Load) and n.id in aliases:
                return ast.copy_location(ast.Attribute(value=ast.copy_location(ast.Name(id='self', ctx=ast.Load()), n), attr=aliases[n.id], ctx=ast.Load()), n)
            return n

    node = ast.fix_missing_locations(T().visit(copy.deepcopy(f.node)))
    g = Func(node, f.qual, f.module, f.cls, f.parent)
    _NORMALISED[key] = (f.node, g)
    return g


class Reader:
    def __init__(self, p, qual):
        self.p = p
        self.qual = qual
        self.cls = p.cls(qual)
        require_attrs(p, qual, [BUF, BLEN, BPOS, CHUNK])
        self.methods = dict(self.cls.methods)
        # a local bound once to a bound method of the reader itself (`finalize = self._finalize_read_until` hoisted out of a loop) IS that
        # method: every rule of this module reads a copy of such a method in which the alias is written out (`self.<m>`)
        for n, f in list(self.methods.items()):
            self.methods[n] = _without_method_aliases(p, self, f)
        self.__dict__.pop('_method_aliases', None)
        self._writes = {}
        changed = True
        direct = {n: _stores(f) for n, f in self.methods.items()}
        self._writes = {n: set(s) for n, s in direct.items()}
        while changed:      # close over self.m() calls
            changed = False
            for n, f in self.methods.items():
                for c in walk_self(f.node):
                    if isinstance(c, ast.Call) and isinstance(c.func, ast.Attribute) and dotted(c.func.value) == 'self' and c.func.attr in self._writes:
                        add = self._writes[c.func.attr] - self._writes[n]
                        if add:
                            self._writes[n] |= add
                            changed = True

    def writes(self, name):
        return self._writes.get(name)

    def mentions(self, name):
        """dotted attribute chains that occur in the body of method `name` (cached)"""
        c = self.__dict__.setdefault('_mentions', {})
        if name not in c:
            c[name] = {dotted(n) for n in walk_self(self.methods[name].node) if isinstance(n, ast.Attribute) and dotted(n)}
        return c[name]

    def len_pairs(self, f):
        """[(x, x_len)] parameter pairs following the cached-length naming convention."""
        ps = f.params()
        return [(a, a + '_len') for a in ps if a + '_len' in ps]

    def ctor_only(self):
        """self attributes that are stored by the constructor and by no other method of the class: constant for the
        life of the object, so a local bound to one of them IS that attribute wherever the local is read."""
        c = self.__dict__.get('_ctor_only')
        if c is None:
            init = self.methods.get('__init__')
            later = set()
            for n, f in self.methods.items():
                if n != '__init__':
                    later |= _stores(f)
            c = self.__dict__['_ctor_only'] = (_stores(init) if init is not None else set()) - later
        return c

    def method_aliases(self, f):
        """{local name: method name} for the locals of method f that are bound by ONE statement `<local> = self.<method>` (a bound
        method of the reader's own class looked up once, e.g. in front of a loop) and never stored otherwise: calling the local IS
        calling self.<method>."""
        c = self.__dict__.setdefault('_method_aliases', {})
        if f.qual in c:
            return c[f.qual]
        cand, stores = {}, {}
        params = set(f.params())
        for n in walk_self(f.node):
            if isinstance(n, ast.Name) and isinstance(n.ctx, (ast.Store, ast.Del)):
                stores[n.id] = stores.get(n.id, 0) + 1
            elif isinstance(n, ast.ExceptHandler) and n.name:
                stores[n.name] = stores.get(n.name, 0) + 2
            if isinstance(n, ast.Assign) and len(n.targets) == 1 and isinstance(n.targets[0], ast.Name) \
                    and isinstance(n.value, ast.Attribute) and dotted(n.value.value) == 'self' and n.value.attr in self.methods \
                    and ('self.' + n.value.attr) not in self.all_stores():
                cand[n.targets[0].id] = n.value.attr
        for n in ast.walk(f.node):
            if isinstance(n, (ast.Nonlocal, ast.Global)):
                for x in n.names:
                    stores[x] = stores.get(x, 0) + 2
        c[f.qual] = {k: a for k, a in cand.items() if stores.get(k) == 1 and k not in params}
        return c[f.qual]

    def all_stores(self):
        c = self.__dict__.get('_all_stores')
        if c is None:
            c = self.__dict__['_all_stores'] = set().union(*[_stores(g) for g in self.methods.values()]) if self.methods else set()
        return c

    def called_method(self, f, call):
        """Name of the reader method `call` (inside method f) invokes: `self.<m>(...)`, or `<alias>(...)` with a method alias of f."""
        fn = call.func
        if isinstance(fn, ast.Attribute) and dotted(fn.value) == 'self' and fn.attr in self.methods:
            return fn.attr
        if isinstance(fn, ast.Name) and f is not None:
            return self.method_aliases(f).get(fn.id)
        return None

    def field_aliases(self, f):
        """{local name: 'self.<attr>'} for the locals of method f that are bound by ONE statement `<local> = self.<attr>`
        with <attr> a constructor-only field (k1-c14-2: `read_func = self._read_func` looked up once in front of the
        short-read loop, `chunk_size = self._chunk_size` hoisted out of the pipe loop).  Any other store of the name
        (parameter, loop / with / except / walrus target, augmented assignment, del, a nested def declaring it nonlocal)
        disqualifies it."""
        fields = self.ctor_only()
        cand, stores = {}, {}
        params = set(f.params())
        for n in walk_self(f.node):
            if isinstance(n, ast.Name) and isinstance(n.ctx, (ast.Store, ast.Del)):
                stores[n.id] = stores.get(n.id, 0) + 1
            elif isinstance(n, ast.ExceptHandler) and n.name:
                stores[n.name] = stores.get(n.name, 0) + 2
            if isinstance(n, ast.Assign) and len(n.targets) == 1 and isinstance(n.targets[0], ast.Name) \
                    and isinstance(n.value, ast.Attribute) and dotted(n.value) in fields:
                cand[n.targets[0].id] = dotted(n.value)
        for n in ast.walk(f.node):
            if isinstance(n, (ast.Nonlocal, ast.Global)):
                for x in n.names:
                    stores[x] = stores.get(x, 0) + 2
        return {k: a for k, a in cand.items() if stores.get(k) == 1 and k not in params}


# ---------------------------------------------------------------------------
# R1 cached-length invariant
# ---------------------------------------------------------------------------

class _MemoEnv(Env):
    """Env whose bounded proof search remembers the sub-goals it has already tried.  `_le0` is a pure function of (facts, kinds,
    goal, depth): the memo is dropped whenever a fact / kind is added, so every answer is the one linexpr.Env gives -- only faster
    (the plain search revisits `goal - f1 - f2` and `goal - f2 - f1` separately: cubic in the number of facts)."""

    def fork(self):
        e = Env.fork(self)
        e.__class__ = _MemoEnv
        return e

    def _call(self, e):
        hit = self.ghost.get('inlined')
        if hit and id(e) in hit:        # a read-only value helper whose body was executed in front of this statement (_inline_helpers)
            return hit[id(e)][0]
        return Env._call(self, e)

    def _le0(self, d, depth=3):
        if d.is_const:
            return d.c <= 0
        if depth <= 0:
            return False
        top = not self.__dict__.get('_busy')
        memo = self.__dict__.get('_memo')
        if top:             # (facts and kinds do not change while one proof runs)
            stamp = (len(self.facts), len(self.kind), sum(1 for k in self.kind.values() if k == 'nat'))
            if memo is None or memo[0] != stamp:
                memo = self.__dict__['_memo'] = (stamp, {})
            self.__dict__['_busy'] = True
        try:
            key = (frozenset(d.t.items()), d.c, depth)
            r = memo[1].get(key)
            if r is None:
                r = memo[1][key] = Env._le0(self, d, depth)
            return r
        finally:
            if top:
                self.__dict__['_busy'] = False


def _start_env(rd, f, on_call, assume_inv=True):
    env = _MemoEnv(on_call)
    env.kind[('v', BUF)] = 'seq'
    blen, bpos = env.declare(BLEN, 'int'), env.declare(BPOS, 'int')
    if assume_inv:
        env.add_eq(blen, Lin.atom(('len', ('v', BUF))))
        env.add_le(0, bpos)
        env.add_le(bpos, blen)
    for x, xl in rd.len_pairs(f):
        env.vars[xl] = Lin.atom(('len', ('v', x)))      # the declared convention, checked at every call site
        env.kind[('len', ('v', x))] = 'nat'             # (a number: `if <x>_len:` reads as `<x>_len != 0`)
    return env


def _int_names(f):
    """Parameters annotated exactly `int` and locals that are counters (assigned an integer constant / advanced by `+=` / `-=`):
    numbers, so that `if not x:` reads as `x == 0`."""
    out = set()
    a = f.node.args
    for x in a.posonlyargs + a.args + a.kwonlyargs:
        if x.annotation is not None and unparse(x.annotation) == 'int':
            out.add(x.arg)
    for n in walk_self(f.node):
        sp = _step_of(n)
        if sp is None:
            continue
        step = n.value if isinstance(n, ast.AugAssign) else n.value.right
        if any(isinstance(y, (ast.Name, ast.Attribute, ast.Call)) for y in ast.walk(step)):
            cands = [m for m in walk_self(f.node) if isinstance(m, ast.Assign) and _step_of(m) is None and any(isinstance(t, ast.Name) and t.id == sp[0] for t in m.targets)]
            if cands and all(isinstance(m.value, ast.Constant) and isinstance(m.value.value, int) and not isinstance(m.value.value, bool) for m in cands):
                out.add(sp[0])
    return out


def _inv_holds(env):
    cur = env.eval(_expr(BLEN))
    ln = env.length(env.eval(_expr(BUF)), BUF)
    if not isinstance(cur, Lin):
        return False, None
    return env.prove_eq(cur, ln), (cur - ln)


def _r1_method(run, v, rd, f):
    p = run.project
    cfg = cfg_of(f, p)
    run.use_cfg(cfg)
    what = '%s == len(%s) is preserved' % (BLEN.split('.')[1], BUF.split('.')[1])
    kind = 'cached length'

    def check(env, at, wit=None):
        ok, diff = _inv_holds(env)
        last = env.ghost.get('last', f.name)
        if not ok and diff is not None and diff.tainted():
            v.unknown('%s: %s' % (f.qual, '; '.join(env.notes[-2:])))
            return
        params = set(f.params())
        if not ok and diff is not None and any((a[0] == 'v' and a[1] in params) or (a[0] == 'len' and a[1][0] == 'v' and a[1][1] in params) for a in diff.atoms()):
            # the verdict hinges on a relation between parameters that no declared convention (<x>_len) supplies -- unless the difference is
            # provably non-zero under the path facts, or the buffer was stored and the cached length simply was NOT stored after it on this
            # path (the two fields move together: equality could only be a coincidence between the cursor and the length of an argument)
            if not (env.prove_lt(diff, 0) or env.prove_lt(0, diff) or env.ghost.get('len_behind')):
                v.unknown('%s: cached length depends on an undeclared relation between parameters (%r)' % (f.qual, diff))
                return
        v.note(f, kind, what, ok, last, '%s: %s != len(%s) %s (difference %r)' % (f.name, BLEN, BUF, at, diff), wit,
               'a read/peek after this point slices the buffer with a stale length: bytes are skipped or returned twice')

    def on_call(env, call):
        fn = call.func
        if isinstance(fn, ast.Attribute) and dotted(fn.value) == 'self' and fn.attr in rd.methods:
            callee = rd.methods[fn.attr]
            args = [env.eval(a) for a in call.args if not isinstance(a, ast.Starred)]
            kw = {k.arg: env.eval(k.value) for k in call.keywords if k.arg}
            w = rd.writes(fn.attr) or set()
            touches = bool({BUF, BLEN, BPOS} & (w | rd.mentions(fn.attr)))
            if touches:
                check(env, 'when %s() is called' % fn.attr)
            # cached-length parameter pairs must be passed consistently
            ps = [a for a in callee.params() if a != 'self']
            bound = dict(zip(ps, args))
            bound.update(kw)
            for x, xl in rd.len_pairs(callee):
                if x in bound and xl in bound:
                    ok = isinstance(bound[xl], Lin) and env.prove_eq(bound[xl], env.length(bound[x], x))
                elif x not in bound and xl not in bound:
                    ok = True
                else:
                    ok = False
                v.note(f, 'length argument of %s' % fn.attr, 'the %s argument passed to %s() is the length of %s' % (xl, fn.attr, x), ok, call,
                       rw='the callee splices a chunk into the buffer with a wrong cached length')
            hv = [a for a in (BUF, BLEN, BPOS) if a in w]
            if hv:
                env.havoc(hv, 'after %s' % fn.attr)
                nb = env.vars[BUF].lone() if BUF in env.vars else None
                if BUF in hv and nb is not None:
                    env.kind[nb] = 'seq'
                # the callee preserves the invariant (its own obligation)
                env.add_eq(env.eval(_expr(BLEN)), env.length(env.eval(_expr(BUF)), BUF))
                env.add_le(0, env.eval(_expr(BPOS)))
                env.add_le(env.eval(_expr(BPOS)), env.eval(_expr(BLEN)))
            return Lin.atom(fresh('result of ' + short(call, 30)))
        return None

    def on_node(env, n, label):
        if label == 'exc':
            return
        if n.kind == 'stmt' and any(isinstance(x, (ast.Yield, ast.YieldFrom)) for x in n.walk()):
            check(env, 'at `%s`' % short(n.ast, 40))
        if n.kind == 'stmt' and isinstance(n.ast, (ast.Assign, ast.AugAssign, ast.AnnAssign)):
            tg = n.ast.targets if isinstance(n.ast, ast.Assign) else [n.ast.target]
            if any(dotted(t) in (BUF, BLEN) for t in tg):
                env.ghost['last'] = n.ast
            st = {dotted(x) for t in tg for x in ast.walk(t) if isinstance(x, ast.Attribute) and isinstance(x.ctx, ast.Store)}
            if BLEN in st:
                env.ghost['len_behind'] = False
            elif BUF in st:
                env.ghost['len_behind'] = True          # the buffer is stored; the cached length has not been stored since
                val = getattr(n.ast, 'value', None)
                used = {x.id for x in ast.walk(val) if isinstance(x, ast.Name)} if val is not None else set()
                env.ghost['spliced'] = env.ghost.get('spliced', frozenset()) | (used & spliceable)

    # a chunk handed over together with its cached length (<x>, <x>_len) that the method puts into the buffer on some path is PENDING
    # stream data: a path that ends without storing it into the buffer must have shown it to be empty (len <= 0), or its bytes are lost
    spliceable = set()
    for x, _xl in rd.len_pairs(f):
        for s_ in walk_self(f.node):
            if isinstance(s_, (ast.Assign, ast.AugAssign, ast.AnnAssign)) and getattr(s_, 'value', None) is not None \
                    and any(dotted(t) == BUF for t in (s_.targets if isinstance(s_, ast.Assign) else [s_.target])) \
                    and any(isinstance(y, ast.Name) and y.id == x for y in ast.walk(s_.value)):
                spliceable.add(x)
    if spliceable and loop_heads(cfg):
        v.unknown('%s: a pending chunk parameter (%s) in a method with loops is not followed' % (f.qual, ', '.join(sorted(spliceable))))

    for start, steps, end in segments(cfg):
        if end == cfg.xexit:
            continue
        env = _start_env(rd, f, on_call, assume_inv=not (f.name == '__init__' and start == cfg.entry))
        wit = flow.describe_path(cfg, [s[0] for s in steps])
        for e in run_steps(env, cfg, steps, on_node):
            if any(k == 'raise' for k, _v, _n in e.log):
                continue
            check(e, 'at the end of the path', wit)
            if end == cfg.exit and start == cfg.entry:
                for x in sorted(spliceable - e.ghost.get('spliced', frozenset())):
                    v.note(f, 'pending chunk %s' % x, 'a chunk handed over to be spliced into the buffer (%s with its cached length %s_len) is left out only when it is empty'
                           % (x, x), e.prove_le(Lin.atom(('len', ('v', x))), 0), '%s not stored into the buffer' % x,
                           '%s: the path ends without storing %s into the buffer although len(%s) may be positive' % (f.name, x, x), wit,
                           'BufferedReader(BytesIO(b"xyz").read, 3, 1): read_until(b"a", 1) then read() -> b"z" instead of b"yz" (a 1-byte look-ahead chunk is dropped)')


def r1_cached_length(run):
    v = Verdicts(run)
    run.assume('C14 R1: class invariant 0 <= _buffer_pos <= _buffer_len is assumed (side condition of len(x[p:]) = len(x) - p); '
               'parameters named <x>_len next to <x> are cached lengths (checked at every call site)')
    for qual in (SYNC, ASYNC):
        rd = Reader(run.project, qual)
        pair_callees = {n for n, f in rd.methods.items() if rd.len_pairs(f)}
        n = 0
        for name, f in sorted(rd.methods.items()):
            calls = {c.func.attr for c in walk_self(f.node) if isinstance(c, ast.Call) and isinstance(c.func, ast.Attribute) and dotted(c.func.value) == 'self'}
            if {BUF, BLEN} & _stores(f) or calls & pair_callees:
                _r1_method(run, v, rd, f)
                n += 1
        if n < 3:
            raise AnchorError('%s: fewer than 3 methods write the buffer' % qual)
    v.flush()


# ---------------------------------------------------------------------------
# R2 budget of the synchronous reader
# ---------------------------------------------------------------------------

def r2_budget(run):
    p = run.project
    rd = Reader(p, SYNC)
    require_attrs(p, SYNC, [BUDGET, SOURCE_FN])
    v = Verdicts(run)
    users = {}
    for name, f in sorted(rd.methods.items()):
        if name == '__init__':
            continue
        for n in walk_self(f.node):
            if isinstance(n, ast.Attribute) and dotted(n) == SOURCE_FN and isinstance(n.ctx, ast.Load):
                users.setdefault(name, []).append(n)
    if not users:
        raise AnchorError('%s: %s is never used' % (SYNC, SOURCE_FN))
    gate = max(users, key=lambda k: len(users[k]))
    for name, nodes in users.items():
        for n in nodes:
            v.note(rd.methods[name], 'single reader @%s' % name, 'the source callable is used in one method only (%s)' % gate, name == gate, n,
                   rw='a read that bypasses the budget takes bytes beyond the declared maximum length')
    f = rd.methods[gate]
    cfg = cfg_of(f, p)
    run.use_cfg(cfg)

    # a local bound once to the (constructor-only) source callable is the source callable
    src_names = {k for k, a in rd.field_aliases(f).items() if a == SOURCE_FN} if SOURCE_FN in rd.ctor_only() else set()
    if src_names:
        funcs = {id(c.func) for c in walk_self(f.node) if isinstance(c, ast.Call)}
        for n in walk_self(f.node):
            if isinstance(n, ast.Name) and n.id in src_names and isinstance(n.ctx, ast.Load) and id(n) not in funcs:
                raise UnknownIdiom('%s: the local `%s` (= %s) is used other than by calling it' % (f.qual, n.id, SOURCE_FN))

    def is_src(c):
        return isinstance(c, ast.Call) and (dotted(c.func) == SOURCE_FN or (isinstance(c.func, ast.Name) and c.func.id in src_names))

    call_nodes = {}
    for n in cfg.live_nodes():
        cs = [c for c in n.calls() if is_src(c)]
        if cs:
            if len(cs) > 1 or len(cs[0].args) != 1 or cs[0].keywords:
                raise UnknownIdiom('%s: unexpected shape of the source call %s' % (f.qual, n.text()))
            call_nodes[n.id] = cs[0]
    cuts = set(call_nodes)
    ordinal = {nid: '#%d %s' % (i + 1, unparse(call_nodes[nid])) for i, nid in enumerate(sorted(cuts, key=lambda i: cfg.node(i).lineno))}

    def on_call(env, call):
        if is_src(call):
            r = fresh('chunk')
            env.kind[r] = 'seq'
            env.ghost['got'] = env.ghost.get('got', ()) + (r,)
            env.eval(call.args[0])
            return Lin.atom(r)
        if isinstance(call.func, ast.Attribute) and dotted(call.func.value) == 'self':
            env.havoc([BUDGET], 'after ' + short(call, 30))
        return None

    # "wanted": what the gate still has to deliver.  At entry it is min(<size parameter>, budget); the argument of every source call is
    # the amount still wanted (first call: the clamped size; later calls: the previous amount minus what the previous call delivered --
    # checked, UnknownIdiom otherwise).  On that basis the gate may come back (a) WITHOUT asking the source only when nothing is wanted
    # (wanted <= 0), and (b) after a source call only when that call served the whole amount or returned the empty chunk (end of stream);
    # (c) an empty chunk is the end of the stream for good: the budget is 0 afterwards (read_until & co. detect EOF through it).
    gps = [a for a in f.params() if a != 'self']
    bexpr = _expr(BUDGET)
    for start in [cfg.entry] + sorted(cuts):
        for steps, end in paths_from(cfg, start, cuts, local_edges(cfg)):
            env = Env(on_call)
            rem0 = env.declare(BUDGET, 'int')
            want0 = env.minmax('min', [env.var(gps[0]), rem0]) if len(gps) == 1 else None
            asked = env.eval(call_nodes[start].args[0]) if start != cfg.entry else None
            if start != cfg.entry:      # inductive hypothesis: this call respected the budget
                env.add_le(env.eval(call_nodes[start].args[0]), rem0)
            wit = flow.describe_path(cfg, [s[0] for s in steps])
            for e in run_steps(env, cfg, steps):
                rem = e.eval(bexpr)
                got1 = e.ghost.get('got', ())
                glen = Lin.atom(('len', got1[0])) if len(got1) == 1 else None
                rets = [n for k, _v, n in e.log if k == 'return']
                if end in cuts and (want0 is not None or start != cfg.entry):
                    nxt = e.eval(call_nodes[end].args[0])
                    exp = want0 if start == cfg.entry else (asked - glen if isinstance(asked, Lin) and glen is not None else None)
                    if not (isinstance(nxt, Lin) and exp is not None and e.prove_eq(nxt, exp)):
                        v.unknown('%s: the amount asked from the source at %s (%r) is not read as the amount still wanted (%r)' % (f.qual, ordinal[end], nxt, exp))
                elif end == cfg.exit and rets and not any(k == 'raise' for k, _v, _n in e.log):
                    if start == cfg.entry:
                        if want0 is None:
                            v.unknown('%s: expected one size parameter' % f.qual)
                        else:
                            v.note(f, 'no read only when nothing is wanted', 'the gate returns without asking the source only when min(size, budget) <= 0', e.prove_le(want0, 0),
                                   rets[-1], 'returns without a source call although %r may be positive' % (want0,), wit,
                                   'BufferedReader(BytesIO(b"a").read, 1): read() -> b"" (a request for exactly one byte never reaches the source)')
                    elif glen is not None and isinstance(asked, Lin):
                        eof = e.prove_eq(glen, 0)
                        v.note(f, 'served or EOF @%s' % ordinal[start], 'after a source call the gate returns only when the call delivered everything still wanted or '
                               'the empty chunk (end of stream); otherwise it asks again', eof or e.prove_le(asked, glen), rets[-1],
                               'returns although %r byte(s) may still be wanted and the source is not known to be at its end' % (asked - glen,), wit,
                               'a source with short reads (1-byte chunks), data b"aa": read() -> b"a" (the result depends on the chunking)')
                        if eof:
                            v.note(f, 'EOF marked @%s' % ordinal[start], 'an empty chunk from the source ends the stream for good: the budget is 0 afterwards', isinstance(rem, Lin)
                                   and e.prove_eq(rem, 0), rets[-1], 'the source returned the empty chunk but the budget is left at %r' % (rem,), wit,
                                   'a delimited sub-reader (its maximum length is only an upper bound) whose data ends: read_until() without a match polls the '
                                   'exhausted source forever; a kept sub-reader returns the parent\'s later data')
                if end in cuts:
                    arg = e.eval(call_nodes[end].args[0])
                    ok = isinstance(arg, Lin) and isinstance(rem, Lin) and e.prove_le(arg, rem)
                    v.note(f, 'clamped @%s' % ordinal[end], 'the size requested from the source never exceeds the remaining budget', ok,
                           call_nodes[end], 'requested %r with a remaining budget of %r' % (arg, rem), wit,
                           'max_stream_len 3 over a 10-byte source: read(10) asks the source for more than 3 bytes')
                if start != cfg.entry:
                    got = e.ghost.get('got', ())
                    ok = isinstance(rem, Lin) and len(got) == 1 and (e.prove_eq(rem, rem0 - Lin.atom(('len', got[0]))) or e.prove_eq(rem, 0))
                    v.note(f, 'deducted @%s' % ordinal[start], 'after each source call the budget decreases by len(chunk), or is zeroed at EOF', ok,
                           call_nodes[start], 'budget %r after a call that returned %s' % (rem, 'one chunk' if len(got) == 1 else '%d chunks' % len(got)), wit,
                           'a short read from the source: later reads are allowed to exceed the declared maximum length')
    v.flush()


# ---------------------------------------------------------------------------
# R3 delimiter consumption
# ---------------------------------------------------------------------------

def _raises(cfg, p, f, nid, label, cls_tail):
    """Does the out-edge `label` of test node nid lead straight to `raise <cls_tail>(...)`?"""
    for (y, l) in cfg.succ[nid]:
        if l != label:
            continue
        n = cfg.node(y)
        while n.kind == 'join' and len(cfg.succ[n.id]) == 1:
            n = cfg.node(cfg.succ[n.id][0][0])
        if n.kind == 'stmt' and isinstance(n.ast, ast.Raise) and n.ast.exc is not None:
            e = n.ast.exc.func if isinstance(n.ast.exc, ast.Call) else n.ast.exc
            q = p.resolve_expr(f.module, e, f) or ''
            return q.endswith(cls_tail)
    return False


def _raise_arm(cfg, p, f, nid, label, cls_tail):
    """The out-edge `label` of test node nid leads to `raise <cls_tail>(...)` through simple statements only (no branch):
    (raise node, [statement nodes in between]); None otherwise."""
    for (y, l) in cfg.succ[nid]:
        if l != label:
            continue
        n, between, seen = cfg.node(y), [], set()
        while n.id not in seen:
            seen.add(n.id)
            if n.kind == 'stmt' and isinstance(n.ast, ast.Raise):
                return (n, between) if _raise_class(p, f, n.ast).endswith(cls_tail) else None
            nxt = [b for (b, l2) in cfg.succ[n.id] if l2 != 'exc']
            if n.kind not in ('join', 'stmt') or len(nxt) != 1:
                return None
            if n.kind == 'stmt':
                between.append(n)
            n = cfg.node(nxt[0])
    return None


def _delimiter_question(test):
    """(operand, raises_when) for a test that asks "are these bytes the delimiter?": `X == delimiter`, `X != delimiter`
    (either order), `X.startswith(delimiter)`, under any number of `not`; raises_when is the truth value of the test for
    which X is NOT the delimiter.  None for any other test."""
    neg = False
    while isinstance(test, ast.UnaryOp) and isinstance(test.op, ast.Not):
        test, neg = test.operand, not neg
    t = strip_await(test)
    if isinstance(t, ast.Compare) and len(t.ops) == 1 and isinstance(t.ops[0], (ast.Eq, ast.NotEq)):
        sides = [strip_await(t.left), strip_await(t.comparators[0])]
        names = [dotted(x) for x in sides]
        if names.count(DELIM) == 1:
            return sides[1 - names.index(DELIM)], isinstance(t.ops[0], ast.NotEq) != neg
    if isinstance(t, ast.Call) and isinstance(t.func, ast.Attribute) and t.func.attr == 'startswith' and len(t.args) == 1 and not t.keywords \
            and dotted(t.args[0]) == DELIM:
        return strip_await(t.func.value), neg
    return None


# reader methods whose result is a look at the stream that does NOT move the reference cursor, although they store the
# position fields (re-basing the buffer): one line of reason each
_NON_CONSUMING = {
    'peek': 'the documented look-ahead: returns the window at the cursor (R16) and keeps the stream position of the cursor (R9 / R13)',
}


def _arm_values(env, caller, expr):
    """Values an argument may take, looking through one `name = a if c else b` binding of the caller."""
    if isinstance(expr, ast.Name):
        asg = [s for s in walk_self(caller.node) if isinstance(s, ast.Assign) and any(isinstance(t, ast.Name) and t.id == expr.id for t in s.targets)]
        if len(asg) == 1 and isinstance(asg[0].value, ast.IfExp):
            return [env.eval(asg[0].value.body), env.eval(asg[0].value.orelse)]
    if isinstance(expr, ast.IfExp):
        return [env.eval(expr.body), env.eval(expr.orelse)]
    return [env.eval(expr)]


def _delim_params(rd, run):
    """{(method name, param)}: parameters that always carry len(delimiter) or 0."""
    out = set()
    dl = Lin.atom(('len', ('v', DELIM)))
    for name, g in rd.methods.items():
        for q in [a for a in g.params() if a not in ('self', DELIM)]:
            sites, good = 0, True
            for cname, caller in rd.methods.items():
                if DELIM not in caller.params():
                    continue
                for c in walk_self(caller.node):
                    if not (isinstance(c, ast.Call) and isinstance(c.func, ast.Attribute) and dotted(c.func.value) == 'self' and c.func.attr == name):
                        continue
                    ps = [a for a in g.params() if a != 'self']
                    arg = next((k.value for k in c.keywords if k.arg == q), None)
                    if arg is None and q in ps and ps.index(q) < len(c.args):
                        arg = c.args[ps.index(q)]
                    if arg is None:
                        good = False
                        continue
                    sites += 1
                    env = Env()
                    for s in walk_self(caller.node):    # straight-line prelude bindings of the caller (no branches needed)
                        if isinstance(s, ast.Assign) and len(s.targets) == 1 and isinstance(s.targets[0], ast.Name) and not isinstance(s.value, ast.IfExp) \
                                and s in caller.node.body:
                            env.exec(s)
                    vals = _arm_values(env, caller, arg)
                    good = good and all(isinstance(x, Lin) and (x == dl or x == Lin.const(0)) for x in vals) and any(x == dl for x in vals)
            if sites and good:
                out.add((name, q))
    return out


def r3_delimiter(run):
    p = run.project
    v = Verdicts(run)
    n_sites = 0
    for qual in (SYNC, ASYNC):
        rd = Reader(p, qual)
        dparams = _delim_params(rd, run)
        dl = Lin.atom(('len', ('v', DELIM)))
        guarded = 0
        for name, f in sorted(rd.methods.items()):
            if DELIM not in f.params():
                continue
            cfg = cfg_of(f, p)
            advances = [n for n in cfg.live_nodes() if n.kind == 'stmt' and isinstance(n.ast, (ast.AugAssign, ast.Assign))
                        and any(dotted(t) == BPOS for t in (n.ast.targets if isinstance(n.ast, ast.Assign) else [n.ast.target]))]
            has_len_guard = any(isinstance(n.ast, ast.Raise) and _raise_class(p, f, n.ast).endswith('builtins.ValueError') for n in cfg.live_nodes() if n.kind == 'stmt')
            has_delim_raise = any(isinstance(n.ast, ast.Raise) and _raise_class(p, f, n.ast).endswith('DelimiterError') for n in cfg.live_nodes() if n.kind == 'stmt')
            if not advances and not has_len_guard and not has_delim_raise:
                continue
            run.use_cfg(cfg)
            len_params = {q for (m, q) in dparams if m == name}

            def is_delim_len(x):
                return isinstance(x, Lin) and (x == dl or (x.lone() is not None and x.lone()[0] == 'v' and x.lone()[1] in len_params))

            moving = {m for m in rd.methods if m not in _NON_CONSUMING and {BPOS, BUF, BLEN} & (rd.writes(m) or set())}

            def consuming_call(c):
                c = strip_await(c)
                return c if isinstance(c, ast.Call) and isinstance(c.func, ast.Attribute) and dotted(c.func.value) == 'self' and c.func.attr in moving else None

            def tick(env, key, val=None):
                g = env.ghost
                g['clock'] = g.get('clock', 0) + 1
                if key == 'move':
                    g['moves'] = g.get('moves', ()) + (g['clock'],)
                else:
                    g['reads'] = {**g.get('reads', {}), key: (val, g['clock'])}

            def provenance(env, operand, f=f):
                """(consuming call | None, clock of that call) for the bytes `operand` that are compared with the delimiter,
                evaluated where the comparison is evaluated; 'unknown' when it is not decided."""
                while isinstance(operand, ast.Subscript):       # a slice of what was fetched
                    operand = strip_await(operand.value)
                call, at = consuming_call(operand), None
                if call is None and isinstance(operand, ast.Name):
                    val = env.eval(operand)
                    hit = env.ghost.get('reads', {}).get(val.lone()) if isinstance(val, Lin) else None
                    if hit is not None:
                        call, at = hit
                    elif isinstance(val, Lin) and val.lone() == ('v', operand.id) and operand.id not in f.params():
                        # bound in front of this segment (a loop in between): decided by the bindings of the local
                        rhs = [consuming_call(x.value) for x in walk_self(f.node) if isinstance(x, (ast.Assign, ast.AnnAssign)) and getattr(x, 'value', None) is not None
                               and any(isinstance(t, ast.Name) and t.id == operand.id for t in (x.targets if isinstance(x, ast.Assign) else [x.target]))]
                        if rhs and all(rhs):
                            call, at = rhs[0], -1
                        elif any(rhs):
                            v.unknown('%s: `%s` compared with the delimiter is bound to a consuming read on some paths only' % (f.qual, operand.id))
                            return 'unknown'
                elif call is not None:
                    at = env.ghost.get('clock', 0) + 1          # evaluated by this very test / binding
                return call, at

            def failure_verdict(env, question, arm, call, at, f=f):
                """Clause: DelimiterError leaves the cursor where it was -- the bytes compared with the delimiter were looked at, not taken."""
                if call is not None:
                    undo = [m for m in env.ghost.get('moves', ()) if at >= 0 and m > at] or [
                        b for b in arm[1] if any(isinstance(x, ast.Attribute) and isinstance(x.ctx, ast.Store) and dotted(x) in (BPOS, BUF, BLEN) for x in b.walk())
                        or any(consuming_call(c) for c in b.calls())]
                    if undo or at == -1 and any(isinstance(x, ast.Attribute) and isinstance(x.ctx, ast.Store) and dotted(x) in (BPOS, BUF, BLEN) for x in walk_self(f.node)):
                        v.unknown('%s: the bytes compared with the delimiter come from the consuming `%s` and the cursor is moved again before '
                                  '`%s`: whether the read is undone is not decided' % (f.qual, short(call, 40), short(arm[0].ast, 40)))
                        return
                v.note(f, 'failed check consumes nothing @%s' % short(question, 60),
                       'the bytes compared with the delimiter are looked at, not taken: on the path to `raise DelimiterError` no consuming read of this method '
                       'has produced the compared bytes (the cursor is where it was when the check began)', call is None, question,
                       '`%s` has already moved the cursor over the compared bytes when the comparison fails and DelimiterError is raised'
                       % (short(call, 50) if call is not None else ''), env.ghost.get('wit'),
                       'BufferedReader(BytesIO(b"a" * 300 + b"XYZ" + b"--tail").read, 400, 2): read_until(b"--", 257, consume_delimiter=True) raises DelimiterError '
                       'having swallowed 2 ordinary bytes; the next read() starts 2 bytes late')

            def failure_arm(env, n, f=f, cfg=cfg):
                q = _delimiter_question(n.ast)
                if q is None:
                    return
                operand, raises_when = q
                arm = _raise_arm(cfg, p, f, n.id, 'T' if raises_when else 'F', 'DelimiterError')
                if arm is None:
                    return
                pr = provenance(env, operand)
                if pr != 'unknown':
                    failure_verdict(env, n.ast, arm, pr[0], pr[1])

            # --- the verification bound ONCE to a boolean local (k4-c13-2: `delimiter_follows = self.peek(n) == delimiter` in one arm,
            #     `delimiter_follows = self._buffer_pos == delimiter_pos` in the other, then the guard clause `if not delimiter_follows:
            #     raise DelimiterError`).  The local stands for the comparison as it was evaluated at the binding on THIS path: what it
            #     compared (peek amount / consuming read / cursor position) is recorded there, and the branch on the local is read as the
            #     branch on that comparison.  Any other store to the name ends it; a cursor move between binding and branch is not decided.
            def flag_binding(env, n):
                a = n.ast
                if isinstance(a, ast.Assign) and len(a.targets) == 1 and isinstance(a.targets[0], ast.Name):
                    name, value = a.targets[0].id, a.value
                elif isinstance(a, ast.AnnAssign) and isinstance(a.target, ast.Name) and a.value is not None:
                    name, value = a.target.id, a.value
                else:
                    return None
                value = strip_await(value)
                while isinstance(value, ast.IfExp):             # `flag = (peek(n) == d) if pos < 0 else (cursor == pos)`: the arm of this path
                    d = env.decide(value.test)
                    if d is None:
                        break
                    value = strip_await(value.body if d else value.orelse)
                clock = env.ghost.get('clock', 0)
                q = _delimiter_question(value)
                if q is not None:
                    operand, not_delim_when = q
                    base = operand
                    while isinstance(base, ast.Subscript):
                        base = strip_await(base.value)
                    pr = provenance(env, operand)
                    amt = None
                    if consuming_call(base) is None:            # (a consuming read is not evaluated twice; it verifies nothing that is still in front of the cursor)
                        val = env.eval(operand)
                        amt = env.ghost.get('peeks', {}).get(val.lone()) if isinstance(val, Lin) else None
                    return name, {'kind': 'delim', 'neg_when': not_delim_when, 'amt': amt, 'prov': pr, 'value': value, 'clock': clock}
                t, neg = value, False
                while isinstance(t, ast.UnaryOp) and isinstance(t.op, ast.Not):
                    t, neg = t.operand, not neg
                if isinstance(t, ast.Compare) and len(t.ops) == 1 and isinstance(t.ops[0], (ast.Eq, ast.NotEq)) \
                        and BPOS in [dotted(strip_await(x)) for x in (t.left, t.comparators[0])]:
                    return name, {'kind': 'pos', 'neg_when': isinstance(t.ops[0], ast.NotEq) != neg, 'value': value, 'clock': clock}
                mentions = any(dotted(x) in (DELIM, BPOS) for x in ast.walk(value) if isinstance(x, (ast.Name, ast.Attribute))) or any(
                    isinstance(c, ast.Call) and isinstance(c.func, ast.Attribute) and c.func.attr in _NON_CONSUMING for c in ast.walk(value))
                if mentions and any(isinstance(x, (ast.Compare, ast.BoolOp, ast.IfExp)) or isinstance(x, ast.Call) and isinstance(x.func, ast.Attribute)
                                    and x.func.attr in ('startswith', 'endswith') for x in ast.walk(value)):
                    return name, {'kind': 'unread', 'value': value, 'clock': clock}
                return None

            def track_flags(env, n, label):
                flags = env.ghost.get('flags', {})
                stored = {x.id for x in n.walk() if isinstance(x, ast.Name) and isinstance(x.ctx, (ast.Store, ast.Del))}
                if n.kind == 'handler' and getattr(n.ast, 'name', None):
                    stored.add(n.ast.name)
                if stored & set(flags):
                    flags = {k: w for k, w in flags.items() if k not in stored}
                if n.kind == 'stmt' and label != 'exc':
                    b = flag_binding(env, n)
                    if b is not None:
                        flags = {**flags, b[0]: b[1]}
                env.ghost['flags'] = flags

            def flag_question(env, n, f=f):
                """(record, truth value of the test for which the recorded comparison says "not the delimiter" / "not at the position") for
                a test that is a flag local under any number of `not`; None otherwise."""
                t, neg = n.ast, False
                while isinstance(t, ast.UnaryOp) and isinstance(t.op, ast.Not):
                    t, neg = t.operand, not neg
                if not isinstance(t, ast.Name):
                    return None
                w = env.ghost.get('flags', {}).get(t.id)
                if w is None:
                    bound_to_check = any(
                        isinstance(x, (ast.Assign, ast.AnnAssign)) and getattr(x, 'value', None) is not None
                        and any(isinstance(y, ast.Name) and y.id == t.id for y in (x.targets if isinstance(x, ast.Assign) else [x.target]))
                        and any(_delimiter_question(y) is not None or isinstance(y, ast.Compare) and BPOS in [dotted(strip_await(z)) for z in [y.left] + y.comparators]
                                for y in ast.walk(x.value)) for x in walk_self(f.node))
                    val = env.eval(t)
                    if bound_to_check and isinstance(val, Lin) and val.lone() == ('v', t.id) \
                            and any(_raises(cfg, p, f, n.id, l, 'DelimiterError') for l in ('T', 'F')):
                        v.unknown('%s: `%s` decides `raise DelimiterError` but is not bound on this path segment (bound in front of a loop?)' % (f.qual, t.id))
                    return None
                if w['kind'] == 'unread':
                    if any(_raises(cfg, p, f, n.id, l, 'DelimiterError') for l in ('T', 'F')):
                        v.unknown('%s: `%s = %s` decides `raise DelimiterError`; the verification it stands for is not read' % (f.qual, t.id, short(w['value'], 60)))
                    return None
                return w, w['neg_when'] != neg

            def flag_stale(env, w, name, f=f):
                if any(m > w['clock'] for m in env.ghost.get('moves', ())):
                    v.unknown('%s: the cursor / buffer is stored between `%s = %s` and the branch on it: whether the verification still holds is not decided'
                              % (f.qual, name, short(w['value'], 60)))
                    return True
                return False

            def flag_failure_arm(env, n, f=f, cfg=cfg):
                fq = flag_question(env, n)
                if fq is None or fq[0]['kind'] != 'delim':
                    return
                w, raises_when = fq
                arm = _raise_arm(cfg, p, f, n.id, 'T' if raises_when else 'F', 'DelimiterError')
                if arm is None or w['prov'] == 'unknown':
                    return
                failure_verdict(env, w['value'], arm, w['prov'][0], w['prov'][1])

            def on_node(env, n, label):
                if n.kind == 'test' and label in ('T', 'F'):
                    failure_arm(env, n)
                    flag_failure_arm(env, n)
                track_flags(env, n, label)
                if n.kind == 'stmt' and label != 'exc' and any(isinstance(x, ast.Attribute) and isinstance(x.ctx, ast.Store) and dotted(x) in (BPOS, BUF, BLEN) for x in n.walk()):
                    tick(env, 'move')
                if n.kind == 'test' and label in ('T', 'F'):
                    other = 'F' if label == 'T' else 'T'
                    if _raises(cfg, p, f, n.id, other, 'DelimiterError'):
                        q = _delimiter_question(n.ast)
                        if q is not None and q[1] == (other == 'T'):        # ... and it is the "not the delimiter" outcome that raises
                            val = env.eval(q[0])       # peek(n) directly or through a temporary (peek(n).startswith(delimiter): at most n bytes, so equal)
                            amt = env.ghost.get('peeks', {}).get(val.lone()) if isinstance(val, Lin) else None
                            if amt is not None:
                                env.ghost['peeked'] = env.ghost.get('peeked', ()) + (amt,)
                        elif q is None and flag_question(env, n) is not None:
                            w, neg_truth = flag_question(env, n)
                            name = next(x.id for x in ast.walk(n.ast) if isinstance(x, ast.Name))
                            if neg_truth == (other == 'T') and not flag_stale(env, w, name):    # the "not the delimiter" value of the local raises
                                if w['kind'] == 'pos':
                                    env.ghost['pos_checked'] = True
                                elif w['amt'] is not None:
                                    env.ghost['peeked'] = env.ghost.get('peeked', ()) + (w['amt'],)
                        elif q is None:
                            t, neg = n.ast, False
                            while isinstance(t, ast.UnaryOp) and isinstance(t.op, ast.Not):
                                t, neg = t.operand, not neg
                            if isinstance(t, ast.Compare) and len(t.ops) == 1 and isinstance(t.ops[0], (ast.Eq, ast.NotEq)) \
                                    and BPOS in [dotted(strip_await(x)) for x in (t.left, t.comparators[0])] \
                                    and (isinstance(t.ops[0], ast.NotEq) != neg) == (other == 'T'):
                                env.ghost['pos_checked'] = True
                if n in advances and label != 'exc':
                    if isinstance(n.ast, ast.AugAssign) and isinstance(n.ast.op, ast.Add):
                        amount = env.eval(n.ast.value)
                    else:
                        new = env.eval(n.ast.value)
                        amount = new - env.eval(_expr(BPOS)) if isinstance(new, Lin) else None
                    if is_delim_len(amount):
                        ok = env.ghost.get('pos_checked', False) or any(isinstance(x, Lin) and x == amount for x in env.ghost.get('peeked', ()))
                        env.ghost['sites'] = env.ghost.get('sites', ()) + ((n.ast, ok),)

            def on_call(env, call):
                fn = call.func
                if isinstance(fn, ast.Attribute) and fn.attr == 'peek' and dotted(fn.value) == 'self' and len(call.args) == 1 and not call.keywords:
                    a = fresh('peek')
                    env.ghost['peeks'] = {**env.ghost.get('peeks', {}), a: env.eval(call.args[0])}
                    return Lin.atom(a)
                if consuming_call(call) is not None:
                    for x in list(call.args) + [k.value for k in call.keywords]:
                        env.eval(x.value if isinstance(x, ast.Starred) else x)
                    a = fresh('taken by %s()' % fn.attr)
                    tick(env, 'move')
                    tick(env, a, call)
                    return Lin.atom(a)
                return None

            for start, steps, end in segments(cfg):
                env = Env(on_call)
                env.kind[('v', DELIM)] = 'seq'
                env.ghost['wit'] = flow.describe_path(cfg, [s[0] for s in steps])
                for e in run_steps(env, cfg, steps, on_node):
                    for (node, ok) in e.ghost.get('sites', ()):
                        v.note(f, 'verified @%s' % unparse(node), 'the cursor skips a delimiter only after the bytes at the cursor were compared with it '
                               '(peek-compare or position equality, DelimiterError otherwise)', ok, node,
                               witness=flow.describe_path(cfg, [s[0] for s in steps]),
                               rw='read_until(b"--", consume_delimiter=True) with a size cap that ends before the delimiter: two payload bytes are silently skipped')
                        n_sites += 1
                    if has_len_guard and start == cfg.entry and not any(k == 'raise' for k, _v, _n in e.log):
                        ok = e.prove_le(1, dl) and e.prove_le(dl, e.var(CHUNK))
                        v.note(f, 'delimiter length', 'past the ValueError guard the delimiter length lies in [1, chunk_size]', ok, 'delimiter length guard',
                               'len(delimiter) is not confined to [1, chunk_size] on a path that continues',
                               flow.describe_path(cfg, [s[0] for s in steps]),
                               'an empty delimiter (or one longer than a chunk) is searched for: endless loop / missed boundary match')
                        guarded += 1
        if not guarded:
            raise AnchorError('%s: no method rejects delimiter lengths outside [1, chunk_size]' % qual)
    if n_sites == 0:
        raise AnchorError('no delimiter-consuming cursor advance found')
    v.flush()


def _raise_class(p, f, r):
    if r.exc is None:
        return ''
    e = r.exc.func if isinstance(r.exc, ast.Call) else r.exc
    return p.resolve_expr(f.module, e, f) or ''


# ---------------------------------------------------------------------------
# R4 tell()/eof of the asynchronous reader
# ---------------------------------------------------------------------------

def r4_position(run):
    p = run.project
    rd = Reader(p, ASYNC)
    CONS, EXH = 'self._consumed', 'self._exhausted'
    require_attrs(p, ASYNC, [CONS, EXH, 'self._source'])
    v = Verdicts(run)

    def attrs(f):
        return {dotted(n) for n in walk_self(f.node) if isinstance(n, ast.Attribute) and dotted(n) and dotted(n).startswith('self.')}

    tell = p.func(ASYNC + '.tell')
    cfg = cfg_of(tell, p)
    run.use_cfg(cfg)
    for steps, end in paths_from(cfg, cfg.entry, loop_heads(cfg), local_edges(cfg)):
        env = Env()
        for e in run_steps(env, cfg, steps):
            rv = [val for k, val, _n in e.log if k == 'return']
            want = e.var(CONS) - (e.var(BLEN) - e.var(BPOS))
            ok = bool(rv) and isinstance(rv[-1], Lin) and e.same(rv[-1], want)
            v.note(tell, 'tell', 'tell() is consumed - (buffer_len - buffer_pos)', ok, [n for k, _v, n in e.log if k == 'return'][-1] if rv else 'tell',
                   'tell() returns %r' % (rv[-1] if rv else None,), rw='tell() disagrees with the number of bytes handed to the application')
    eof = p.func(ASYNC + '.eof')
    run.use(eof)
    run_ok = attrs(eof) == {EXH, BLEN, BPOS}
    v.note(eof, 'eof', 'eof is expressed through _exhausted, _buffer_len and _buffer_pos only', run_ok, eof.node.body[-1],
           rw='eof is reported while unread bytes remain in the buffer (or never reported)')
    # eof as a truth function of the two presence facts it is built from, {source exhausted} x {buffer drained}: it is their conjunction
    # (the cursor is at the end of the stream iff nothing is buffered behind it AND nothing more will come)
    ecfg = cfg_of(eof, p)
    run.use_cfg(ecfg)
    for exh in (True, False):
        for drained in (True, False):
            cell = '%s, %s' % ('source exhausted' if exh else 'source not exhausted', 'buffer drained' if drained else 'unread bytes buffered')
            for steps, _end in paths_from(ecfg, ecfg.entry, loop_heads(ecfg), local_edges(ecfg)):
                env = Env()
                bl, bp = env.declare(BLEN, 'int'), env.declare(BPOS, 'int')
                env.add_le(0, bp)
                env.add_le(bp, bl)
                env.truth[('v', EXH)] = exh
                if not (env.add_eq(bl, bp) if drained else env.add_le(bp + Lin.const(1), bl)):
                    continue
                for e in run_steps(env, ecfg, steps):
                    for k, _val, node in e.log:
                        if k != 'return' or node.value is None:
                            continue
                        d = e.decide(node.value)
                        if d is None:
                            v.unknown('%s: `%s` is not decided for [%s]' % (eof.qual, short(node.value, 60), cell))
                            continue
                        v.note(eof, 'eof truth table', 'eof is True exactly when the source is exhausted and the buffer is drained (evaluated on the four cells)',
                               d == (exh and drained), node, 'for [%s] eof is %s' % (cell, d), rw='a fresh reader over non-empty data reports eof; an exhausted '
                               'reader that still holds peeked bytes reports eof')
    # the normalising source iterator
    init = p.func(ASYNC + '.__init__')
    srcs = [strip_await(s.value) for s in walk_self(init.node) if isinstance(s, ast.Assign) and any(dotted(t) == 'self._source' for t in s.targets)]
    norm = None
    for s in srcs:
        if isinstance(s, ast.Call) and isinstance(s.func, ast.Attribute) and dotted(s.func.value) == 'self' and s.func.attr in rd.methods:
            norm = rd.methods[s.func.attr]
    if norm is None:
        raise AnchorError('%s.__init__: self._source is not built by a method of the reader' % ASYNC)
    for name, f in sorted(rd.methods.items()):
        for n in walk_self(f.node):
            if isinstance(n, ast.Attribute) and dotted(n) == CONS and isinstance(n.ctx, ast.Store):
                v.note(f, 'owner @%s' % name, '_consumed is written only by the constructor and the source iterator', f is norm or name == '__init__', n,
                       rw='tell() drifts from the bytes actually delivered')
    cfg = cfg_of(norm, p)
    run.use_cfg(cfg)
    seqs = {x.value.id for x in walk_self(norm.node) if isinstance(x, ast.Yield) and isinstance(x.value, ast.Name)}
    seqs |= {x.target.id for x in walk_self(norm.node) if isinstance(x, (ast.For, ast.AsyncFor)) and isinstance(x.target, ast.Name)}
    for start, steps, end in segments(cfg):
        env = Env()
        c0 = env.declare(CONS, 'int')
        _mark_items(env, seqs)
        for e in run_steps(env, cfg, steps, lambda en, _n, _l: _mark_items(en, seqs)):
            out, last = Lin.const(0), None
            for k, val, node in e.log:
                if k == 'yield':
                    out = out + e.length(val, short(node, 30))
                    last = node
            d = e.eval(_expr(CONS)) - c0
            if isinstance(d, Lin) and not e.prove_eq(d, out) and (d - out).tainted():
                v.unknown('%s: %s' % (norm.qual, '; '.join(e.notes[-2:]) or 'length of a yielded value not modelled'))
                continue
            v.note(norm, 'consumed', '_consumed grows by exactly the length of every chunk the source iterator yields', isinstance(d, Lin) and e.prove_eq(d, out),
                   last if last is not None else norm.name, '_consumed grows by %r while %r bytes are yielded' % (d, out),
                   flow.describe_path(cfg, [s[0] for s in steps]), 'tell() lags behind / runs ahead of the bytes returned by read()')
    v.flush()


# ---------------------------------------------------------------------------
# R5 size normalisation of the synchronous reader (sign/partition analysis, as C07 R2)
# ---------------------------------------------------------------------------

def r5_normalize(run):
    from .c07 import CELLS
    p = run.project
    Reader(p, SYNC)
    require_attrs(p, SYNC, [BUDGET])
    f = p.func(SYNC + '._normalize_size')
    ps = [a for a in f.params() if a != 'self']
    if len(ps) != 1:
        raise UnknownIdiom('%s: expected one size parameter' % f.qual)
    cfg = cfg_of(f, p)
    run.use_cfg(cfg)
    if loop_heads(cfg):
        raise UnknownIdiom('%s: loops are not expected' % f.qual)
    run.assume('C14 R5: on entry 0 <= _buffer_pos <= _buffer_len and _max_bytes_remaining >= 0, so the readable amount is non-negative')
    pending = []
    for cname, cset in CELLS:
        bad, n = {}, 0
        for steps, end in paths_from(cfg, cfg.entry, (), local_edges(cfg)):
            env = Env()
            avail = env.declare(BUDGET, 'nat') + env.declare(BLEN, 'int') - env.declare(BPOS, 'int')
            env.add_le(env.var(BPOS), env.var(BLEN))
            env.add_le(0, env.var(BPOS))
            sz = env.var(ps[0])
            if cname != 'is None':
                env.is_none[sz.lone()] = False
            if not cset(env, sz, avail):
                continue
            for e in run_steps(env, cfg, steps):
                for k, r, node in e.log:
                    if k != 'return':
                        continue
                    n += 1
                    if isinstance(r, Lin) and not (r.lone() is not None and e.is_none.get(r.lone())) and e.prove_le(0, r) and e.prove_le(r, avail):
                        continue
                    if not isinstance(r, Lin) or (r.lone() is not None and e.is_none.get(r.lone())) or e.prove_lt(r, 0) or e.prove_lt(avail, r):
                        bad['%s [%s %s]' % (unparse(node), ps[0], cname)] = (node, r)
                    else:
                        pending.append('%s: cannot bound %r for %s %s' % (f.qual, r, ps[0], cname))
        for cons, (node, r) in sorted(bad.items()):
            run.fail('for %s %s the normalised size is %r, outside [0, readable amount]: the cursor moves backwards / past the data' % (ps[0], cname, r),
                     f, cons, where=f.loc(node),
                     runtime_witness='BufferedReader(BytesIO(b"abcdefgh").read, 8, 4): read(3) -> b"abc", read(-2) -> b"", read() -> b"bcdefgh" (b"bc" returned twice)')
        if not bad:
            run.ok('for %s %s the normalised size lies in [0, readable amount] (%d return(s))' % (ps[0], cname, n), f.loc(), '%s [%s]' % (f.name, cname))
    if pending:
        raise UnknownIdiom('; '.join(pending[:3]))


# ---------------------------------------------------------------------------
# R6-R8 stream-position model of the buffer
#
# Ghost quantity `base`: the stream offset of _buffer[0].  The cursor is the
# absolute position base + _buffer_pos.  Buffer stores move the base:
#   _buffer += x / _buffer = _buffer + x        base unchanged (positions stable)
#   _buffer = _buffer[k:] (+ x)                 base += k
#   _buffer = <value not derived from it>       base += len(old buffer)   (the next chunk of the stream)
# A value derived from the buffer (`self._buffer`, a slice of it, a local
# bound to either, a concatenation) is a list of pieces with ABSOLUTE bounds,
# so it stays meaningful after the buffer was trimmed / extended / replaced.
# ---------------------------------------------------------------------------

SOURCE_IT = 'self._source'
_SEARCH_FAMILY = {'index', 'rfind', 'rindex', 'partition', 'rpartition', 'split', 'rsplit', 'count'}
_E_BUF, _E_BLEN, _E_BPOS = _expr(BUF), _expr(BLEN), _expr(BPOS)
_PURE_CALLS = ('len', 'min', 'max')
_INT_METHODS = ('find', 'rfind', 'index', 'rindex', 'count', 'startswith', 'endswith')      # results are numbers / truth values

# candidate loop invariants (Houdini: assumed at every loop head, dropped until inductive)
_CANDIDATES = {
    'cursor at 0': lambda e: (e.eval(_E_BPOS), Lin.const(0)),
    'buffer drained': lambda e: (e.eval(_E_BPOS), e.eval(_E_BLEN)),
}


def _mentions_buffer(e, regions):
    for x in ast.walk(e):
        if isinstance(x, ast.Attribute) and dotted(x) == BUF:
            return True
        if isinstance(x, ast.Name) and x.id in regions:
            return True
    return False


def _is_negative(env, r):
    """Is the integer r < 0 on this path (r <= -1, or r <= 0 together with r != 0)?"""
    if env.prove_le(r, -1):
        return True
    return env.prove_le(r, 0) and any(n == r or n == -r for n in env.neq)


def _prove_le(env, a, b, depth=3):
    """a <= b, where b may contain an opaque +min(x, y) (bound evaluated before the deciding guard): a <= min(x, y) iff a <= x and a <= y."""
    if env.prove_le(a, b):
        return True
    if depth > 0:
        for at, k in b.t.items():
            if at[0] == 'min' and k == 1:
                rest = b - Lin.atom(at)
                return all(_prove_le(env, a, rest + x, depth - 1) for x in at[1])
    return False


def _inlinable(callee, call):
    """A parameterless straight-line helper (e.g. _trim_buffer) is executed in place."""
    if call.args or call.keywords or callee.is_async or [a for a in callee.params() if a != 'self']:
        return False
    for s in callee.node.body:
        if isinstance(s, ast.Expr) and isinstance(s.value, ast.Constant):
            continue
        if isinstance(s, (ast.Assign, ast.AugAssign, ast.AnnAssign, ast.Pass)) or (isinstance(s, ast.Return) and s.value is None):
            if any(isinstance(x, (ast.Yield, ast.YieldFrom, ast.Await)) for x in ast.walk(s)):
                return False
            continue
        return False
    return True


def _fork_ifexps(env, node):
    """The states in which every conditional expression `a if c else b` of a statement / test has a decided
    condition (conditions without calls only), so that both arms are followed as separate path states."""
    envs, n = [env], 0
    for x in walk_self(node):
        if not isinstance(x, ast.IfExp) or any(isinstance(c, (ast.Call, ast.Await, ast.Yield, ast.YieldFrom, ast.NamedExpr)) for c in ast.walk(x.test)):
            continue
        n += 1
        if n > 3:
            break
        nxt = []
        for e in envs:
            if e.decide(x.test) is not None:
                nxt.append(e)
            else:
                nxt += e.assume(x.test, True) + e.assume(x.test, False)
        envs = nxt
    return envs


# context managers whose __enter__ hands back the object itself: `with <ctor>(...) as name:` binds like `name = <ctor>(...)`
_ENTER_RETURNS_SELF = {
    'io.BytesIO': 'io.IOBase.__enter__ returns self (after checking that the object is not closed)',
    'io.StringIO': 'io.IOBase.__enter__ returns self',
}


def _bind_with(env, cfg, stmt):
    """`with <ctor>(...) as name:` (k1-c14-3: the scratch io.BytesIO() of a large read written as a with-block, the
    `return name.getvalue()` inside it) reads as `name = <ctor>(...)` for the constructors of _ENTER_RETURNS_SELF;
    what any other context manager's __enter__ returns is a fresh unknown.  (Leaving the block is not modelled.)"""
    for it in stmt.items:
        ce = it.context_expr
        val = env.eval(ce)
        if it.optional_vars is None:
            continue
        q = None
        if isinstance(ce, ast.Call) and isinstance(ce.func, (ast.Name, ast.Attribute)) and cfg.project is not None:
            q = cfg.project.resolve_expr(cfg.func.module, ce.func, cfg.func)
        if q not in _ENTER_RETURNS_SELF or isinstance(stmt, ast.AsyncWith):
            val = Lin.atom(fresh('entered:' + short(ce, 30)))
        env.assign(it.optional_vars, val)


# ---------------------------------------------------------------------------
# read-only value helpers of the reader, executed in place (k2-c14-2: the search across the chunk border of the synchronous
# _read_until moved into `self._find_on_boundary(delimiter, delimiter_len_1, next_chunk)`, which returns the match position
# in buffer coordinates or -1)
# ---------------------------------------------------------------------------
_HELPER_NO = (ast.Yield, ast.YieldFrom, ast.Await, ast.Lambda, ast.ListComp, ast.SetComp, ast.DictComp, ast.GeneratorExp, ast.NamedExpr,
              ast.Starred, ast.Global, ast.Nonlocal, ast.FunctionDef, ast.AsyncFunctionDef, ast.ClassDef)
_HELPER_MAX_PATHS = 16


def _value_helper(rd, call, stack=(), f=None):
    """The callee when `call` is `self.<m>(...)` of a READ-ONLY VALUE HELPER of reader `rd`: a plain synchronous method that stores no
    attribute of the reader (transitively), never reads the source, consists of assignments to locals / if / return / raise only, calls
    nothing but len / min / max, the number-valued str / bytes methods (find, startswith, ...) and other such helpers, and is called with
    call-free arguments that fit its signature.  Such a call reads the state of the reader at the point of the call and returns a value:
    its body, executed in front of the calling statement once per way through it, is its summary."""
    name = rd.called_method(f, call)         # (f: the method the call stands in -- a local bound once to self.<m> is that method)
    if name is None or name == '__init__':
        return None
    g = rd.methods[name]
    if g.qual in stack or len(stack) >= 2:
        return None
    if any(isinstance(c, ast.Call) and not (isinstance(c.func, ast.Name) and c.func.id in _PURE_CALLS) for a in list(call.args) + [k.value for k in call.keywords]
           for c in ast.walk(a)):
        return None
    bound = _bind_call(g, call)
    if bound is None or set(bound) != {a for a in g.params() if a != 'self'}:
        return None
    ck = rd.__dict__.setdefault('_value_helpers', {})
    if g.qual not in ck:
        ck[g.qual] = _is_value_helper(rd, g, stack)
    return g if ck[g.qual] else None


def _is_value_helper(rd, g, stack):
    if g.is_async or g.decorators or rd.writes(g.name) or g.node.args.vararg or g.node.args.kwarg:
        return False
    n_ret = 0

    def stmts_ok(body):
        nonlocal n_ret
        for st in body:
            if isinstance(st, ast.Expr) and isinstance(st.value, ast.Constant):
                continue
            if isinstance(st, ast.If):
                if not (stmts_ok(st.body) and stmts_ok(st.orelse)):
                    return False
            elif isinstance(st, (ast.Assign, ast.AnnAssign, ast.AugAssign)):
                tg = st.targets if isinstance(st, ast.Assign) else [st.target]
                if not all(isinstance(t, ast.Name) or (isinstance(t, ast.Tuple) and all(isinstance(x, ast.Name) for x in t.elts)) for t in tg):
                    return False
            elif isinstance(st, ast.Return):
                if st.value is None:
                    return False
                n_ret += 1
            elif not isinstance(st, (ast.Pass, ast.Raise)):
                return False
        return True

    if not stmts_ok(g.node.body) or not n_ret:
        return False
    for x in walk_self(g.node):
        if x is g.node:
            continue
        if isinstance(x, _HELPER_NO):
            return False
        if isinstance(x, ast.Attribute) and dotted(x) in (SOURCE_FN, SOURCE_IT):
            return False
        if isinstance(x, ast.Call):
            if isinstance(x.func, ast.Name) and x.func.id in _PURE_CALLS:
                continue
            if isinstance(x.func, ast.Attribute) and dotted(x.func.value) != 'self' and x.func.attr in _INT_METHODS:
                continue
            if _value_helper(rd, x, stack + (g.qual,), g) is None:
                return False
    return True


def _context_helpers(rd):
    """{name: [(calling method, call)]} for the private read-only value helpers of rd whose every mention in the class is a call
    `self.<name>(...)` that _value_helper accepts, made from another method: what they search / compute is judged where they are
    called (executed in place with the caller's path facts), not for unconstrained parameters."""
    c = rd.__dict__.get('_context_helpers')
    if c is not None:
        return c
    uses, bad = {}, set()
    for mn, f in rd.methods.items():
        calls = {id(x.func): x for x in walk_self(f.node) if isinstance(x, ast.Call)}
        aliases = rd.method_aliases(f)
        alias_rhs = {id(n.value) for n in walk_self(f.node) if isinstance(n, ast.Assign) and len(n.targets) == 1 and isinstance(n.targets[0], ast.Name)
                     and n.targets[0].id in aliases}
        for x in walk_self(f.node):
            name = None
            if isinstance(x, ast.Attribute) and dotted(x.value) == 'self' and x.attr in rd.methods:
                if id(x) in alias_rhs:
                    continue                            # `<alias> = self.<m>`: the uses of the alias are judged below
                name = x.attr
            elif isinstance(x, ast.Name) and isinstance(x.ctx, ast.Load) and x.id in aliases:
                name = aliases[x.id]
            if name is None or not name.startswith('_') or name.startswith('__'):
                continue
            call = calls.get(id(x))
            if call is None or mn == name or _value_helper(rd, call, (), f) is None:
                bad.add(name)
            else:
                uses.setdefault(name, []).append((f, call))
    c = rd.__dict__['_context_helpers'] = {k: v for k, v in uses.items() if k not in bad}
    return c


def _call_searches(rd, call, dnames=(DELIM,), depth=0, f=None):
    """`call` (inside method f) is a delimiter search `<x>.find(delimiter, ...)`, or a call of a context helper that is handed the delimiter
    and searches for that parameter (two levels)."""
    fn = call.func
    if isinstance(fn, ast.Attribute) and fn.attr == 'find' and call.args and isinstance(call.args[0], ast.Name) and call.args[0].id in dnames:
        return True
    name = rd.called_method(f, call)
    if depth >= 2 or name is None or name not in _context_helpers(rd):
        return False
    g = rd.methods[name]
    dps = {nm for nm, x in (_bind_call(g, call) or {}).items() if isinstance(x, ast.Name) and x.id in dnames}
    return bool(dps) and any(isinstance(c, ast.Call) and _call_searches(rd, c, dps, depth + 1, g) for c in walk_self(g.node))


def _searches(rd, f):
    """Method f looks for its `delimiter` itself or through a read-only value helper it hands the delimiter to."""
    return any(isinstance(c, ast.Call) and _call_searches(rd, c, f=f) for c in walk_self(f.node))


def _judged_in_context(rd, f):
    """f is a context helper all of whose callers take a `delimiter` themselves (and so are subjects of the search rules)."""
    us = _context_helpers(rd).get(f.name)
    return bool(us) and all(DELIM in g.params() for g, _c in us)


class _PlainHelperModel:
    """The rules that keep no name-keyed bookkeeping of their own: a read-only value helper that reads the buffer, searches, or is handed
    the delimiter is executed in place (values and path facts only; the rule's own node hook is not run inside it)."""

    def wants_helper(self, env, call, callee):
        if any(isinstance(x, ast.Attribute) and dotted(x) == BUF for x in walk_self(callee.node)):
            return True
        if any(isinstance(x, ast.Call) and isinstance(x.func, ast.Attribute) and x.func.attr == 'find' for x in walk_self(callee.node)):
            return True
        for a in list(call.args) + [k.value for k in call.keywords]:
            val = env.eval(a) if isinstance(a, (ast.Name, ast.Attribute)) else None
            if isinstance(val, Lin) and val.lone() == ('v', DELIM):
                return True
        return False

    def enter_helper(self, caller_env, env, bound, callee=None, call=None):
        return None

    def leave_helper(self, env, saved):
        pass

    def pieces(self, env, e):
        return None


_PLAIN_MODEL = _PlainHelperModel()


def _reader_of(cfg):
    """The Reader of the class a CFG's function belongs to (the two buffered readers only)."""
    f, p = cfg.func, cfg.project
    if p is None or f.cls is None or f.cls.qual not in (SYNC, ASYNC):
        return None
    key = (id(p), f.cls.qual)
    hit = _READER_CACHE.get(key)
    if hit is None or hit[0] is not p:
        hit = _READER_CACHE[key] = (p, Reader(p, f.cls.qual))
    return hit[1]


_READER_CACHE = {}


def _inline_helpers(env, cfg, n, on_node, model):
    """The states in front of CFG node n in which every call of a read-only value helper the model wants to look into (model.wants_helper)
    has been executed: one state per feasible way through the helper that RETURNS, the returned value remembered for the call
    (ghost['inlined'], read by _MemoEnv._call and by the model's pieces()).  A way on which the helper raises leaves the calling
    statement through its exceptional edge: it does not continue the path under analysis."""
    rd = _reader_of(cfg)
    if rd is None:
        return [env]
    envs = [env]
    for c in n.walk():
        if not isinstance(c, ast.Call):
            continue
        stack = env.ghost.get('inline_stack', ())
        g = _value_helper(rd, c, stack, cfg.func)
        if g is None:
            continue
        envs = [e2 for e in envs for e2 in (_run_helper(e, cfg, c, g, on_node, model, stack) if model.wants_helper(e, c, g) else [e])]
    return envs


def _run_helper(env, cfg, call, g, on_node, model, stack):
    gcfg = cfg_of(g, cfg.project)
    try:
        paths = list(paths_from(gcfg, gcfg.entry, (), local_edges(gcfg), limit=_HELPER_MAX_PATHS))
    except UnknownIdiom:
        return [env]                    # too many ways through it: not looked into (the call is an opaque method call, as before)
    bound = _bind_call(g, call)
    vals = {nm: env.eval(x) for nm, x in bound.items()}             # arguments (and constant defaults) in the caller's scope
    caller_locals = {k: v for k, v in env.vars.items() if k != 'self' and not k.startswith('self.')}

    def hook(e, nd, label):
        if nd.kind == 'stmt' and isinstance(nd.ast, ast.Return) and label != 'exc':
            e.ghost['returned_pieces'] = model.pieces(e, nd.ast.value)      # (a return of the helper is not a hand-out of the method)
        elif on_node is not None and model is not _PLAIN_MODEL:
            on_node(e, nd, label)

    outs = []
    for steps, end in paths:
        if end != gcfg.exit:
            continue
        e = env.fork()
        if type(e) is Env:
            e.__class__ = _MemoEnv
        for k in caller_locals:
            del e.vars[k]
        e.vars.update(vals)
        n0 = len(e.log)
        saved = model.enter_helper(env, e, bound, g, call)
        e.ghost['inline_stack'] = stack + (g.qual,)
        for e2 in _run_steps(e, gcfg, steps, hook):
            new = e2.log[n0:]
            if any(k == 'raise' for k, _v, _n in new):
                continue
            rets = [v for k, v, _n in new if k == 'return']
            del e2.log[n0:]
            for k in [k for k in e2.vars if k != 'self' and not k.startswith('self.')]:
                del e2.vars[k]
            e2.vars.update(caller_locals)
            model.leave_helper(e2, saved)
            e2.ghost['inline_stack'] = stack
            inl = dict(e2.ghost.get('inlined') or {})
            inl[id(call)] = (rets[-1] if rets else NONE, e2.ghost.pop('returned_pieces', None))
            e2.ghost['inlined'] = inl
            outs.append(e2)
    return outs


def _run_steps(env, cfg, steps, on_node=None):
    """linexpr.run_steps, except that an undecided conditional expression forks the path state, that a
    with-statement binds its targets (_bind_with) and that a read-only value helper of the reader is executed in place when
    the model driving the path asks for it (_inline_helpers)."""
    envs = [env]
    model = getattr(on_node, '__self__', None)
    if not hasattr(model, 'wants_helper'):
        model = env.ghost.get('helper_model') or _PLAIN_MODEL
    for (nid, label) in steps:
        n = cfg.node(nid)
        if model is not None and n.kind in ('stmt', 'test') and label != 'exc' and any(isinstance(x, ast.Call) for x in n.walk()):
            envs = [e2 for e in envs for e2 in _inline_helpers(e, cfg, n, on_node, model)]
        if n.kind in ('stmt', 'test') and label != 'exc' and any(isinstance(x, ast.IfExp) for x in n.walk()):
            envs = [e2 for e in envs for e2 in _fork_ifexps(e, n.ast)]
        envs = [e2 for e in envs for e2 in run_steps(e, cfg, [(nid, label)], on_node)]
        if n.kind == 'with' and label != 'exc' and isinstance(n.stmt, (ast.With, ast.AsyncWith)):
            for e in envs:
                _bind_with(e, cfg, n.stmt)
        if not envs:
            break
    return envs


_SINKS = ('append', 'write')             # <container>.append(x) / <file>.write(x): x is handed out (joined into the result / piped)


_PRELUDE_CACHE = {}


def _stable_prelude(rd, f, loop_stmt):
    key = (id(rd.p), rd.qual, f.qual, id(loop_stmt))
    hit = _PRELUDE_CACHE.get(key)
    if hit is None or hit[0] is not loop_stmt:
        hit = _PRELUDE_CACHE[key] = (loop_stmt, _stable_prelude_uncached(rd, f, loop_stmt))
    return hit[1]


def _stable_prelude_uncached(rd, f, loop_stmt):
    """What the top-level statements of f in front of `loop_stmt` establish for every head of that loop:
    ('assign', stmt) for `x = <expr>` where x is stored exactly once in f, and ('guard', stmt) for `if <test>: raise ...`
    (the test is false behind it) -- <expr> / <test> built from constants, parameters that are never stored, earlier such
    locals, attributes that only the constructor stores, arithmetic / comparisons / conditional expressions and len/min/max."""
    if any(isinstance(x, (ast.Global, ast.Nonlocal)) for x in ast.walk(f.node)):
        return []
    body = f.node.body
    idx = next((i for i, st in enumerate(body) if any(x is loop_stmt for x in ast.walk(st))), None)
    if idx is None:
        return []
    stores = {}
    for x in walk_self(f.node):
        if isinstance(x, ast.Name) and isinstance(x.ctx, (ast.Store, ast.Del)):
            stores[x.id] = stores.get(x.id, 0) + 1
        elif isinstance(x, ast.ExceptHandler) and x.name:
            stores[x.name] = stores.get(x.name, 0) + 1
    stable = {a for a in f.params() if a != 'self' and not stores.get(a)}
    ctor_only = {}

    def attr_ok(d):
        if d not in ctor_only:
            ctor_only[d] = all(d not in _stores(g) for n, g in rd.methods.items() if n != '__init__')
        return ctor_only[d]

    def ok(e):
        if isinstance(e, ast.Constant):
            return True
        if isinstance(e, ast.Name):
            return isinstance(e.ctx, ast.Load) and e.id in stable
        if isinstance(e, ast.Attribute):
            d = dotted(e)
            return d is not None and d.startswith('self.') and d.count('.') == 1 and attr_ok(d)
        if isinstance(e, ast.BinOp):
            return isinstance(e.op, (ast.Add, ast.Sub, ast.Mult)) and ok(e.left) and ok(e.right)
        if isinstance(e, ast.UnaryOp):
            return isinstance(e.op, (ast.USub, ast.UAdd, ast.Not)) and ok(e.operand)
        if isinstance(e, ast.IfExp):
            return ok(e.test) and ok(e.body) and ok(e.orelse)
        if isinstance(e, ast.BoolOp):
            return all(ok(x) for x in e.values)
        if isinstance(e, ast.Compare):
            return all(isinstance(o, (ast.Lt, ast.LtE, ast.Gt, ast.GtE, ast.Eq, ast.NotEq)) for o in e.ops) and ok(e.left) and all(ok(x) for x in e.comparators)
        if isinstance(e, ast.Call):
            return isinstance(e.func, ast.Name) and e.func.id in _PURE_CALLS and not stores.get(e.func.id) and e.func.id not in f.params() \
                and not e.keywords and all(ok(a) for a in e.args)
        return False

    out = []
    for st in body[:idx]:
        tgt = None
        if isinstance(st, ast.Assign) and len(st.targets) == 1 and isinstance(st.targets[0], ast.Name):
            tgt = st.targets[0].id
        elif isinstance(st, ast.AnnAssign) and st.value is not None and isinstance(st.target, ast.Name):
            tgt = st.target.id
        if tgt is not None and stores.get(tgt) == 1 and tgt not in f.params() and ok(st.value):
            out.append(('assign', st))
            stable.add(tgt)
        elif isinstance(st, ast.If) and not st.orelse and len(st.body) == 1 and isinstance(st.body[0], ast.Raise) and ok(st.test):
            out.append(('guard', st))
    return out


class _StreamModel:
    """Abstract execution of every acyclic segment of one reader method with the ghost stream offset.
    mode: 'R6' search starts, 'R7' early hand-out keeps a delimiter tail, 'R8' conservation of the cursor
    (generators), 'R9' conservation of the cursor (synchronous reader: returns, backlog appends, buffer replacement),
    'R10' early hand-out of the synchronous read-until loop keeps a delimiter tail (callees followed, see delegate)."""

    def __init__(self, run, v, rd, f, mode, len_params=()):
        self.run, self.v, self.rd, self.f, self.mode = run, v, rd, f, mode
        self.cfg = cfg_of(f, run.project)
        run.use_cfg(self.cfg)
        self.dl = Lin.atom(('len', ('v', DELIM)))
        self.quiet = True
        self.wit = None
        self.invariants = {}
        self.len_params = set(len_params)       # parameters of f that always carry len(delimiter) or 0 (R3's _delim_params)
        # methods through which new stream data enters (they call the source callable); none in the asynchronous reader
        self.src_methods = {n for n, g in rd.methods.items() if n != '__init__' and any(
            isinstance(x, ast.Attribute) and isinstance(x.ctx, ast.Load) and (dotted(x) == SOURCE_FN or (mode == 'R10' and dotted(x) == SOURCE_IT))
            for x in walk_self(g.node))}
        # R10: obligations met inside a callee are reported at the delegating call of the method under analysis
        self.depth, self.report_f, self.top, self.stack, self.subs = 0, f, None, (f.qual,), {}

    # ------------------------------------------------------------------ state
    def start_env(self, start):
        env = _start_env(self.rd, self.f, self.on_call)
        env.kind[('v', DELIM)] = 'seq'
        for nm in _int_names(self.f):
            env.kind.setdefault(('v', nm), 'int')
        base = Lin.atom(('v', '<stream offset of _buffer[0]>'))
        env.ghost.update(base=base, prev=base + env.var(BPOS), regions={}, srcnames=frozenset(), finds=(), lost=None, last=None, replaced=(), open=())
        for c in sorted(self.invariants.get(start, ())):
            a, b = _CANDIDATES[c](env)
            env.add_eq(a, b)
        return env

    def start_envs(self, start):
        """start_env; for R10 also what the straight-line prelude of the method establishes for every later loop head."""
        envs = [self.start_env(start)]
        if self.mode != 'R10' or start == self.cfg.entry:
            return envs
        for kind, st in _stable_prelude(self.rd, self.f, self.cfg.node(start).stmt):
            if kind == 'assign':
                for e in envs:
                    e.exec(st)
            else:
                envs = [e2 for e in envs for e2 in e.assume(st.test, False)]
        return envs

    def lose(self, env, why, confused=True):
        g = env.ghost
        g['confused'] = g.get('confused') or (why if confused else None)
        g['base'] = Lin.atom(fresh('stream offset'))
        g['regions'] = {}
        g['finds'] = ()
        g['open'] = ()
        g['lost'] = g['lost'] or why
        bp = env.eval(_E_BPOS)
        g['prev'] = g['base'] + bp if isinstance(bp, Lin) else g['base']

    def unknown(self, text):
        if not self.quiet:
            self.v.unknown('%s: %s' % (self.f.qual, text))

    def cursor(self, env):
        bp = env.eval(_E_BPOS)
        if not isinstance(bp, Lin):
            self.unknown('%s is not a number on some path' % BPOS)
            return None
        return env.ghost['base'] + bp

    def buffer_end(self, env):
        return env.ghost['base'] + env.length(env.eval(_E_BUF), BUF)

    # ------------------------------------------------ read-only value helpers executed in place (_inline_helpers)
    def wants_helper(self, env, call, callee):
        """Look into a read-only value helper when it is handed one of the values this model tracks (buffered bytes, a chunk fetched from
        the source, the delimiter) or reads the buffer itself; any other helper's result is just a number (a fresh symbol, as before)."""
        if {BUF, BLEN, BPOS} & self.rd.mentions(callee.name):
            return True
        for a in list(call.args) + [k.value for k in call.keywords]:
            if any(p[0] in ('buf', 'src', 'opaque') for p in self.pieces(env, a)):
                return True
            val = env.eval(a) if isinstance(a, (ast.Name, ast.Attribute)) else None
            if isinstance(val, Lin) and val.lone() == ('v', DELIM):
                return True
        return False

    def enter_helper(self, caller_env, env, bound, callee=None, call=None):
        """The name-keyed bookkeeping (regions of the buffer / source chunks held in locals, remembered comparison flags) changes scope:
        a parameter stands for what its argument is made of."""
        g = env.ghost
        saved = (g.get('regions'), g.get('srcnames'), g.get('conds'), g.get('helper_model'))
        regs, src = {}, set()
        for nm, x in bound.items():
            ps = self.pieces(caller_env, x)
            if any(p[0] in ('buf', 'opaque') for p in ps):
                regs[nm] = tuple(ps)
            elif len(ps) == 1 and ps[0][0] == 'src' and isinstance(x, ast.Name):
                src.add(nm)
        g.update(regions=regs, srcnames=frozenset(src), conds={}, helper_model=self)
        return saved

    def leave_helper(self, env, saved):
        g = env.ghost
        g['regions'], g['srcnames'] = saved[0], saved[1]
        for k, v in (('conds', saved[2]), ('helper_model', saved[3])):
            if v is None:
                g.pop(k, None)
            else:
                g[k] = v
        rp = g.get('returned_pieces')
        if rp is not None and any(p[0] == 'src' or (p[0] == 'other' and len(p) > 1) for p in rp):
            g['returned_pieces'] = [('opaque', 'bytes of a source chunk returned by a helper')]     # (named after the helper's parameter: not followed)

    # ----------------------------------------------------------------- values
    def pieces(self, env, e):
        """What an expression is made of: ('buf', abs_lo, abs_hi, exact) | ('src', name) | ('const', n) | ('other',) | ('opaque', text)."""
        g = env.ghost
        if isinstance(e, ast.Call) and g.get('inlined') and id(e) in g['inlined'] and g['inlined'][id(e)][1] is not None:
            return list(g['inlined'][id(e)][1])                  # what the value returned by a helper executed in place is made of
        if isinstance(e, (ast.Name, ast.Attribute)):
            if dotted(e) == BUF:
                return [('buf', g['base'], self.buffer_end(env), True)]
            if isinstance(e, ast.Name):
                if e.id in g['regions']:
                    return list(g['regions'][e.id])
                return [('src', e.id)] if e.id in g['srcnames'] else [('other',)]
        if isinstance(e, ast.Constant) and isinstance(e.value, (bytes, str)):
            return [('const', len(e.value))]
        if self.src_methods and isinstance(e, ast.Call) and isinstance(e.func, ast.Attribute) and dotted(e.func.value) == 'self' \
                and e.func.attr in self.src_methods:
            return [('src', None)]                              # the next bytes of the stream, straight from the source
        if isinstance(e, ast.Call) and ((isinstance(e.func, ast.Attribute) and e.func.attr in _INT_METHODS)
                                        or (isinstance(e.func, ast.Name) and e.func.id in _PURE_CALLS)):
            return [('other',)]                                 # a number / truth value, not bytes
        if isinstance(e, ast.IfExp):
            d = env.decide(e.test)                              # (_run_steps forks the path state on undecided conditions)
            if d is not None:
                return self.pieces(env, e.body if d else e.orelse)
        if isinstance(e, ast.BinOp) and isinstance(e.op, ast.Add):
            return self.pieces(env, e.left) + self.pieces(env, e.right)
        if isinstance(e, ast.Subscript) and isinstance(e.slice, ast.Slice):
            inner = self.pieces(env, e.value)
            if not any(p[0] in ('buf', 'opaque') for p in inner):
                if len(inner) == 1 and inner[0][0] == 'src' and e.slice.lower is None and e.slice.step is None and e.slice.upper is not None:
                    k = env.eval(e.slice.upper)
                    if isinstance(k, Lin):
                        return [('other', 'head', inner[0][1], k)]       # the first k bytes of a chunk fetched from the source (a border look-ahead)
                return [('other',)]
            if any(p[0] == 'opaque' for p in inner):
                return [('opaque', unparse(e))]
            s = e.slice
            if s.step is not None or len(inner) != 1 or not inner[0][3]:
                # somewhere inside the pieces: still not before their start, exact bounds not tracked
                return [(p[0], p[1], p[2], False) if p[0] == 'buf' else p for p in inner]
            _k, lo0, hi0, _x = inner[0]
            bounds = []
            for x in (s.lower, s.upper):
                if x is None:
                    bounds.append(None)
                    continue
                if any(isinstance(c, ast.Call) and not (isinstance(c.func, ast.Name) and c.func.id in _PURE_CALLS) for c in ast.walk(x)):
                    return [('opaque', unparse(e))]
                val = env.eval(x)
                if not isinstance(val, Lin) or (val.is_const and val.c < 0):
                    return [('opaque', unparse(e))]
                bounds.append(val)
            return [('buf', lo0 + bounds[0] if bounds[0] is not None else lo0, lo0 + bounds[1] if bounds[1] is not None else hi0, True)]
        if _mentions_buffer(e, g['regions']):
            return [('opaque', unparse(e))]
        return [('other',)]

    # ------------------------------------------------------------- statements
    def pre_stmt(self, env, s):
        g = env.ghost
        ys = [x for x in walk_self(s) if isinstance(x, (ast.Yield, ast.YieldFrom))]
        if ys:
            self.on_yield(env, s, ys)
        if self.mode == 'R9' and isinstance(s, ast.Return) and s.value is not None and self.f.name != 'peek':
            # (peek() is the one public operation that returns buffered bytes without consuming them)
            ps = self.pieces(env, s.value)
            if any(p[0] in ('buf', 'src', 'opaque') for p in ps):
                self.hand_out(env, ps, s)
        if self.mode == 'R10' and isinstance(s, ast.Return) and s.value is not None and self.f.name != 'peek':
            self.tail_check(env, self.pieces(env, s.value), s)
        if self.mode == 'R10' and isinstance(s, (ast.Assign, ast.AugAssign, ast.AnnAssign)):
            # `flag = a < b`: remembered (as linear forms over path-start values) so that a later `if flag:` yields the branch fact
            conds = dict(g.get('conds', {}))
            for x in ast.walk(s):
                if isinstance(x, ast.Name) and isinstance(x.ctx, ast.Store):
                    conds.pop(x.id, None)
            c = s.value if isinstance(s, (ast.Assign, ast.AnnAssign)) else None
            tg = (s.targets if isinstance(s, ast.Assign) else [s.target]) if c is not None else []
            if len(tg) == 1 and isinstance(tg[0], ast.Name) and isinstance(c, ast.Compare) and len(c.ops) == 1 \
                    and isinstance(c.ops[0], (ast.Lt, ast.LtE, ast.Gt, ast.GtE)) \
                    and not any(isinstance(y, ast.Call) and not (isinstance(y.func, ast.Name) and y.func.id in _PURE_CALLS) for y in ast.walk(c)):
                a, b = env.eval(c.left), env.eval(c.comparators[0])
                if isinstance(a, Lin) and isinstance(b, Lin):
                    if isinstance(c.ops[0], (ast.Gt, ast.GtE)):
                        a, b = b, a
                    conds[tg[0].id] = (a, isinstance(c.ops[0], (ast.Lt, ast.Gt)), b)        # a < b (strict) or a <= b
            g['conds'] = conds
        if not isinstance(s, (ast.Assign, ast.AugAssign, ast.AnnAssign)) or (isinstance(s, ast.AnnAssign) and s.value is None):
            return
        for t in (s.targets if isinstance(s, ast.Assign) else [s.target]):
            d = dotted(t) if isinstance(t, (ast.Name, ast.Attribute)) else None
            if d == BUF:
                self.on_buffer_store(env, s)
                g['last'] = s
            elif d == BPOS:
                if self.mode == 'R9':
                    self.on_cursor_store(env, s)
                g['last'] = s
            elif isinstance(t, ast.Name):
                ps = self.pieces(env, s.value)
                if isinstance(s, ast.AugAssign):
                    ps = self.pieces(env, t) + ps if isinstance(s.op, ast.Add) else ([('opaque', unparse(s))] if _mentions_buffer(s, g['regions']) else [('other',)])
                regs = dict(g['regions'])
                if any(p[0] in ('buf', 'opaque') for p in ps):
                    regs[t.id] = tuple(ps)
                else:
                    regs.pop(t.id, None)
                g['regions'] = regs
                g['srcnames'] = (g['srcnames'] | {t.id}) if (len(ps) == 1 and ps[0][0] == 'src') else (g['srcnames'] - {t.id})
            elif isinstance(t, (ast.Tuple, ast.List)):
                if any(isinstance(x, ast.Attribute) and dotted(x) in (BUF, BLEN, BPOS) for x in ast.walk(t)):
                    self.lose(env, 'unpacking assignment to a buffer field `%s` not understood' % short(s, 60))
                names = {x.id for x in ast.walk(t) if isinstance(x, ast.Name)}
                g['regions'] = {k: r for k, r in g['regions'].items() if k not in names}
                g['srcnames'] = g['srcnames'] - names

    def on_buffer_store(self, env, s):
        g = env.ghost
        base, end = g['base'], self.buffer_end(env)
        ps = self.pieces(env, s.value)
        kinds = [p[0] for p in ps]
        if g.get('pending') and any(isinstance(x, ast.Name) and x.id in g['pending'] for x in ast.walk(s.value)):
            g['pending'] = frozenset()                          # the chunk handed over by the caller is placed in the buffer
        if g.get('fetch') is not None and any(p[0] == 'src' for p in ps):
            g['fetch'] = None                                   # (R10) the fetched chunk is placed in the buffer: the border is inside the buffer now
        if self.mode == 'R9':                                   # a fetched chunk is placed once: afterwards its name is ordinary data
            g['srcnames'] = g['srcnames'] - {p[1] for p in ps if p[0] == 'src'}
        if isinstance(s, ast.AugAssign):
            if not isinstance(s.op, ast.Add) or 'buf' in kinds or 'opaque' in kinds:
                self.lose(env, 'buffer update `%s` not understood' % short(s, 60))
            return                                              # append: positions are stable
        if 'opaque' in kinds:
            self.lose(env, 'buffer update `%s` not understood' % short(s, 60))
        elif 'buf' not in kinds:
            g['base'] = end                                     # replaced by data that follows the old buffer in the stream
            g['replaced'] = g['replaced'] + (s,)
        elif kinds[0] == 'buf' and ps[0][3] and 'buf' not in kinds[1:] and env.prove_eq(ps[0][2], end):
            g['base'] = ps[0][1]                                # trimmed (and possibly extended)
        else:
            self.lose(env, 'buffer update `%s` not understood' % short(s, 60))

    # ------------------------------------------------- R9: hand-outs and commit points of the synchronous reader
    def is_delim_len(self, x):
        return isinstance(x, Lin) and (x == self.dl or (x.lone() is not None and x.lone()[0] == 'v' and x.lone()[1] in self.len_params))

    def on_cursor_store(self, env, s):
        """A cursor advance by a delimiter length (verified by R3) moves over bytes that are deliberately not returned."""
        if any(isinstance(c, ast.Call) and not (isinstance(c.func, ast.Name) and c.func.id in _PURE_CALLS) for c in ast.walk(s.value)):
            return
        old = env.eval(_E_BPOS)
        if isinstance(s, ast.AugAssign):
            amount = env.eval(s.value) if isinstance(s.op, ast.Add) else None
        else:
            new = env.eval(s.value)
            amount = new - old if isinstance(new, Lin) and isinstance(old, Lin) else None
        if isinstance(old, Lin) and self.is_delim_len(amount):
            g = env.ghost
            self.commit(env, 'when the delimiter is skipped')  # the skipped bytes are the ones directly behind the last hand-out
            if not g['lost']:
                g['prev'] = g['base'] + old + amount
                g['replaced'] = ()

    def hand_out(self, env, ps, s):
        """The bytes `ps` leave the reader (returned, appended to the backlog, piped, or skipped as a delimiter):
        they must start where the previous hand-out ended."""
        g = env.ghost
        if any(p[0] in ('opaque', 'other') or (p[0] == 'const' and p[1]) or (p[0] == 'buf' and not p[3]) for p in ps):
            self.lose(env, '`%s`: the bytes handed out are not a tracked region of the buffer / fresh data of the source' % short(s, 60))
        if g['lost']:
            self.unknown(g['lost'])
            return
        for p in ps:
            if p[0] == 'const':
                continue
            if p[0] == 'buf':
                lo, hi = p[1], p[2]
            else:                                               # straight from the source: everything buffered must be out already
                n = Lin.atom(fresh('len(source data)'))
                env.add_le(0, n)
                lo = self.buffer_end(env)
                hi = lo + n
                g['base'] = g['base'] + n
                if p[1]:
                    g['srcnames'] = g['srcnames'] - {p[1]}
            ok = env.prove_eq(g['prev'], lo)
            if not self.quiet:
                if not ok and (lo - g['prev']).tainted():
                    self.unknown('; '.join(env.notes[-2:]))
                else:
                    self.v.note(self.f, 'contiguous @%s' % unparse(s),
                                'bytes handed out (returned, appended to the backlog, or skipped as a verified delimiter) start exactly where the previous hand-out ended',
                                ok, s, 'the bytes handed out start %r byte(s) from the end of the previous hand-out / the cursor at entry (not provably 0)' % (lo - g['prev'],),
                                self.wit, 'buffered bytes are returned twice or skipped by the synchronous reader')
            g['prev'] = hi

    def commit(self, env, at, call=None):
        """A point where other code looks at the cursor (end of the path, loop head, call of a method that moves the
        buffer): the cursor must stand exactly behind the last byte handed out."""
        g = env.ghost
        if self.quiet:
            return
        if g['lost']:
            self.unknown(g['lost'])
            return
        cur = self.cursor(env)
        if cur is None:
            return
        d = cur - g['prev']
        ok = env.prove_eq(g['prev'], cur)
        if not ok and d.tainted():
            self.unknown('; '.join(env.notes[-2:]))
            return
        if not ok and call is not None and any(p[0] == 'buf' and env.prove_eq(p[1], g['prev']) for r in g['regions'].values() for p in r):
            self.unknown('buffered bytes held in a local are still to be handed out when `%s` moves the buffer: not modelled' % short(call, 50))
            return
        rw = ('BufferedReader(BytesIO(b"ab--cd-e--fgh").read, 13, 4): read(3), read_until(b"--", 1), read(1) -> b"-" instead of b"c" '
              '(buffered bytes are skipped, or returned twice, by the next read)')
        reps = []
        for r in g['replaced']:
            if not any(r is x for x in reps):
                reps.append(r)
        for r in reps:
            self.v.note(self.f, 'replaced @%s' % unparse(r),
                        'when the buffer is replaced by the next data of the stream the cursor is re-based with it (reset, or already 0 / at the end of the drained buffer)',
                        ok, r, 'after `%s` the cursor stands %r byte(s) behind the last byte handed out %s (not provably 0): %s keeps a value that belongs to the old buffer'
                        % (short(r, 50), d, at, BPOS), self.wit, rw)
        self.v.note(self.f, 'cursor between hand-outs', 'between hand-outs the cursor keeps its stream position: it stands exactly behind the last byte handed out '
                    'at every exit, loop head and call of a method that moves the buffer', ok or bool(reps), g['last'] if g['last'] is not None else self.f.name,
                    '%s the cursor is %r byte(s) from the end of the last hand-out (not provably 0)' % (at, d), self.wit, rw)

    # ------------------------------------------------- R10: early hand-outs of the synchronous read-until loop
    def vouching(self, env):
        """Failed searches of the buffer as it is now: [(result, absolute start, absolute upper bounds)]."""
        bufval = env.eval(_E_BUF)
        return [(R, st, ends) for (R, bv, st, ends) in env.ghost['finds'] if self._same(bv, bufval) and _is_negative(env, R)]

    def tail_check(self, env, ps, s):
        """Bytes `ps` leave the reader (returned / appended to a sink).  When no new data was fetched on this path and a search of
        the buffer has failed, the buffered part must end len(delimiter) - 1 bytes before the end of the searched range."""
        g = env.ghost
        if self.quiet or g.get('fetched') or g['lost'] or not any(p[0] in ('buf', 'opaque') for p in ps):
            return
        live = self.vouching(env)
        if not live:
            return
        bufs = [p for p in ps if p[0] == 'buf']
        if any(p[0] == 'opaque' for p in ps) or any(not p[3] for p in bufs):
            self.unknown('`%s`: the bytes handed out after a failed delimiter search are not a tracked region of the buffer' % short(s, 60))
            return
        top = self.top if self.top is not None else s
        for (_k, lo, hi, _x) in bufs:
            for (R, st, ends) in live:
                if not env.prove_le(st, lo):        # a search that started behind the first byte handed out does not vouch for it
                    continue
                need = hi + self.dl - Lin.const(1)
                short_of = [] if env.prove_le(hi, lo) else [e for e in ends if not (_prove_le(env, need, e) or env._le0(need - e, 4))]
                if short_of and any(env._le0(Lin.const(1) - fct) for fct in env.facts):
                    continue                        # the path facts contradict each other: not a feasible path
                msg = '%r byte(s) lie between the end of the bytes handed out%s and the end of the searched range; not provably >= len(delimiter) - 1' % (
                    (short_of[-1] - hi) if short_of else 0, '' if self.depth == 0 else ' (`%s` in %s())' % (short(s, 50), self.f.name))
                self.v.note(self.report_f, 'delimiter tail kept @%s' % unparse(top),
                            'when the delimiter was not found in the buffered data and no new data is fetched, the bytes handed out (by the method or the '
                            'reader methods it delegates to) stay at least len(delimiter) - 1 bytes short of the end of the searched range',
                            not short_of, top, msg, self.wit,
                            'BufferedReader(BytesIO(b"aaaaaa---bbb").read, 12, 8): read_until(b"---", 7) -> b"aaaaaa-" instead of b"aaaaaa": the head of a delimiter that '
                            'straddles the end of the buffered data is handed out as content (multipart: two parts merged / "body part is too large" at the limit)')

    def delegate(self, env, call, callee):
        """A reader method that moves the buffer is called: follow it (two levels) with the caller's path facts and the actual
        arguments, so that what it hands out is checked against the searches made so far (its own searches included)."""
        g = env.ghost
        # a chunk fetched from the source that is still held in a local and is handed to the callee to be placed in the buffer: PENDING
        pend = set()
        if self.depth == 0 and g.get('fetched') and not g['lost']:
            b0 = _bind_call(callee, call)
            pend = {k for k, x in (b0 or {}).items() if isinstance(x, ast.Name) and x.id in g['srcnames'] and (x in call.args or any(x is kw.value for kw in call.keywords))}
        pending = bool(pend) or bool(g.get('pending'))
        if (g.get('fetched') and not pending) or g['lost'] or callee.name == 'peek' or not ({BUF, BPOS} & (self.rd.writes(callee.name) or set())):
            return
        if self.depth >= 2 or callee.qual in self.stack or any(isinstance(x, (ast.Yield, ast.YieldFrom)) for x in walk_self(callee.node)):
            if self.vouching(env):
                self.unknown('`%s`: a hand-out more than two calls away from the search is not followed' % short(call, 50))
            return
        a = callee.node.args
        if a.vararg or a.kwarg or any(isinstance(x, ast.Starred) for x in call.args) or any(k.arg is None for k in call.keywords):
            if self.vouching(env):
                self.unknown('`%s`: argument passing not understood' % short(call, 50))
            return
        e0 = env.fork()
        names = [x.arg for x in a.posonlyargs + a.args]
        if names and names[0] == 'self':
            names = names[1:]
        defaults = dict(zip(names[len(names) - len(a.defaults):], a.defaults)) if a.defaults else {}
        defaults.update({x.arg: d for x, d in zip(a.kwonlyargs, a.kw_defaults) if d is not None})
        names += [x.arg for x in a.kwonlyargs]
        bound = {}
        for nm, x in zip(names, call.args):
            bound[nm] = e0.eval(x)
        for k in call.keywords:
            bound[k.arg] = e0.eval(k.value)
        if len(call.args) > len(names) or any(k not in names for k in bound):
            raise UnknownIdiom('%s: arguments of `%s` do not fit %s()' % (self.f.qual, short(call, 50), callee.name))
        sub = self.subs.get(callee.qual)
        if sub is None:
            sub = self.subs[callee.qual] = _StreamModel(self.run, self.v, self.rd, callee, 'R10')
            sub.depth, sub.report_f, sub.stack, sub.subs = self.depth + 1, self.report_f, self.stack + (callee.qual,), self.subs
        sub.quiet, sub.wit, sub.top = False, self.wit, self.top if self.top is not None else call
        ce = e0.fork()
        ce.on_call = sub.on_call
        ce.vars = {k: val for k, val in e0.vars.items() if k.startswith('self.')}
        for nm in names:
            if nm in bound:
                ce.vars[nm] = bound[nm]
            elif nm in defaults:
                ce.vars[nm] = ce.eval(defaults[nm])
            else:
                raise UnknownIdiom('%s: `%s` leaves parameter %s of %s() unbound' % (self.f.qual, short(call, 50), nm, callee.name))
        ce.ghost.update(regions={}, srcnames=frozenset())
        if pend:
            ce.ghost['pending'] = frozenset(pend)
        ce.log = []
        ccfg, heads, edge_ok = sub.cfg, set(loop_heads(sub.cfg)), local_edges(sub.cfg)

        def done(e):
            return bool(e.ghost['lost'] or (e.ghost.get('fetched') and not e.ghost.get('pending')) or any(k == 'raise' for k, _v, _n in e.log))

        def walk(nid, envs, seen):
            for (y, l) in ccfg.succ[nid]:
                if not edge_ok(nid, y, l):
                    continue
                nxt = [e2 for e in envs for e2 in _run_steps(e.fork(), ccfg, [(nid, l)], sub.on_node)]
                nxt = [e for e in nxt if not done(e)]       # nothing is decided behind a fetch / a callee that moved the buffer
                if not nxt or y in (ccfg.exit, ccfg.xexit) or not ccfg.succ[y]:
                    continue
                if y in heads or y in seen:
                    if any(sub.vouching(e) for e in nxt):
                        sub.unknown('a loop of %s() is entered after a failed delimiter search: hand-outs in it are not followed' % callee.name)
                    continue
                walk(y, nxt, seen | {y})

        walk(ccfg.entry, [ce], {ccfg.entry})
        if pend:
            self.v.note(self.report_f, 'pending chunk in order @%s' % unparse(call), self._PENDING_WHAT, True, call)

    _PENDING_WHAT = ('a chunk fetched from the source that is handed to a reader method to be placed in the buffer stays the NEXT data of the stream: the callee (followed '
                     'two levels with the caller\'s path facts) does not read the source again before it has stored the chunk')

    def on_node(self, env, n, label):
        if label == 'exc':
            return
        if n.kind == 'stmt':
            self.pre_stmt(env, n.ast)
        elif n.kind == 'test' and label in ('T', 'F') and self.mode == 'R10':
            t, truth = n.ast, label == 'T'
            while isinstance(t, ast.UnaryOp) and isinstance(t.op, ast.Not):
                t, truth = t.operand, not truth
            c = env.ghost.get('conds', {}).get(t.id) if isinstance(t, ast.Name) else None
            if c is not None:
                a, strict, b = c
                if truth:
                    env.add_le(a + Lin.const(1 if strict else 0), b)
                else:
                    env.add_le(b + Lin.const(0 if strict else 1), a)
        elif n.kind == 'iter' and label == 'next':
            g = env.ghost
            names = {x.id for x in ast.walk(n.stmt.target) if isinstance(x, ast.Name)}
            g['regions'] = {k: r for k, r in g['regions'].items() if k not in names}
            g['srcnames'] = g['srcnames'] - names
            if dotted(strip_await(n.stmt.iter)) == SOURCE_IT:
                self.fetch_check(env)
            if isinstance(n.stmt.target, ast.Name) and dotted(strip_await(n.stmt.iter)) == SOURCE_IT:
                g['srcnames'] = g['srcnames'] | {n.stmt.target.id}

    # ------------------------------------------------------------------ calls
    def on_call(self, env, call):
        fn = call.func
        if self.mode == 'R9':
            argp = [self.pieces(env, a) for a in list(call.args) + [k.value for k in call.keywords] if not isinstance(a, ast.Starred)]
            if isinstance(fn, ast.Attribute) and fn.attr in _SINKS and dotted(fn.value) != 'self' and len(argp) == 1 and not call.keywords:
                if any(p[0] in ('buf', 'src', 'opaque') for p in argp[0]):
                    self.hand_out(env, argp[0], call)
            elif any(p[0] in ('buf', 'opaque') for ps in argp for p in ps):
                self.lose(env, 'buffered bytes are passed to `%s`: whether that hands them out is not modelled' % short(call, 50))
        if self.mode == 'R10' and isinstance(fn, ast.Attribute) and fn.attr in _SINKS and dotted(fn.value) != 'self' and len(call.args) == 1 and not call.keywords:
            sp = self.pieces(env, call.args[0])
            self.tail_check(env, sp, call)
            ft = env.ghost.get('fetch')
            if ft is not None and any(p[0] == 'buf' and (not p[3] or env.prove_eq(p[2], ft[0])) for p in sp):
                self.border_check(env, call)
        if not isinstance(fn, ast.Attribute):
            return None
        recv_self = dotted(fn.value) == 'self'
        if self.mode == 'R10' and recv_self and fn.attr in self.rd.methods:
            if fn.attr in self.src_methods:
                self.fetch_check(env)
                if env.ghost.get('pending') and self.depth and not self.quiet:
                    self.v.note(self.report_f, 'pending chunk in order @%s' % unparse(self.top), self._PENDING_WHAT, False, self.top,
                                '`%s` in %s() may read the source while the chunk handed over by the caller has not been placed in the buffer: the data read now '
                                'ends up in front of it' % (short(call, 50), self.f.name), self.wit,
                                'BufferedReader over b"aab\\naaaa\\nb", chunk_size 5: readlines() -> [b"aab\\n", b"aa", b"aa\\n", b"b"] (a read_until that believes it has '
                                'enough data finalises early and the final read goes to the source past the look-ahead chunk)')
                    env.ghost['pending'] = frozenset()
                env.ghost['fetched'] = True                    # new data: what follows is justified otherwise (end of stream, border search)
                if self.depth == 0 and not env.ghost['lost']:
                    cur0 = self.cursor(env)
                    env.ghost['fetch'] = None if cur0 is None else (self.buffer_end(env), cur0)
                    env.ghost['border'] = ()
            elif not self.quiet:
                if any(isinstance(a, ast.Name) and a.id in env.ghost['srcnames'] for a in list(call.args) + [k.value for k in call.keywords]):
                    self.border_check(env, call)
                self.delegate(env, call, self.rd.methods[fn.attr])
        if not recv_self and call.args and isinstance(call.args[0], (ast.Name, ast.Attribute)):
            a0 = env.eval(call.args[0])
            if isinstance(a0, Lin) and a0.lone() == ('v', DELIM):
                if fn.attr == 'find':
                    return self.on_find(env, call)
                if fn.attr in _SEARCH_FAMILY:
                    raise UnknownIdiom('%s: delimiter search through .%s() is not modelled (%s)' % (self.f.qual, fn.attr, short(call, 60)))
        if recv_self and fn.attr in self.rd.methods:
            callee = self.rd.methods[fn.attr]
            if self.mode == 'R6' and not self.quiet:
                self.position_args(env, call, callee)
            if _inlinable(callee, call):
                for s in callee.node.body:
                    if isinstance(s, ast.Expr) and isinstance(s.value, ast.Constant):
                        continue
                    self.pre_stmt(env, s)
                    env.exec(s)
                return NONE
            for a in list(call.args) + [k.value for k in call.keywords]:
                env.eval(a.value if isinstance(a, ast.Starred) else a)
            hv = [a for a in (BUF, BLEN, BPOS) if a in (self.rd.writes(fn.attr) or set())]
            if hv:
                was_lost = env.ghost['lost']
                if self.mode == 'R9':
                    self.commit(env, 'when %s() is called' % fn.attr, call)
                if self.mode == 'R10' and not self.quiet and not was_lost:
                    # the cursor has already moved over bytes a local still holds: they are handed out (or skipped) whatever the callee does
                    cur = self.cursor(env)
                    for nm_, reg in sorted(env.ghost['regions'].items()):
                        if cur is not None and len(reg) == 1 and reg[0][0] == 'buf' and reg[0][3] and env.prove_eq(reg[0][2], cur):
                            self.tail_check(env, list(reg), call)
                env.havoc(hv, 'after %s' % fn.attr)
                nb = env.vars[BUF].lone() if BUF in env.vars and isinstance(env.vars[BUF], Lin) else None
                if BUF in hv and nb is not None:
                    env.kind[nb] = 'seq'
                for a in (BLEN, BPOS):
                    if a in hv and env.vars[a].lone() is not None:
                        env.kind[env.vars[a].lone()] = 'int'
                        env.ghost['fieldsyms'] = env.ghost.get('fieldsyms', frozenset()) | {env.vars[a].lone()}
                env.add_eq(env.eval(_E_BLEN), env.length(env.eval(_E_BUF), BUF))     # class invariant, the callee's own obligation (R1)
                env.add_le(0, env.eval(_E_BPOS))
                env.add_le(env.eval(_E_BPOS), env.eval(_E_BLEN))
                self.lose(env, 'the buffer is changed inside %s()' % fn.attr, confused=False)
                if self.mode == 'R9':       # the callee accounts for what it hands out (its own obligation): start afresh behind it
                    env.ghost['lost'] = was_lost
                    env.ghost['replaced'] = ()
            return Lin.atom(fresh('result of ' + short(call, 30)))
        return None

    def on_find(self, env, call):
        g = env.ghost
        r = fresh('find')
        env.kind[r] = 'int'
        R = Lin.atom(r)
        env.add_le(-1, R)
        extra = [env.eval(a.value if isinstance(a, ast.Starred) else a) for a in call.args[1:]] + [env.eval(k.value) for k in call.keywords]
        recv = call.func.value
        cur = self.cursor(env)
        starts, covered = [], None            # covered: (absolute start, absolute upper bounds) of the range a failed search vouches for

        def understood(x):                    # a start / end argument: a non-negative offset built from tracked quantities
            return isinstance(x, Lin) and not (x.is_const and x.c < 0) and not any(
                a[0] in ('sym', 't') and a not in g.get('fieldsyms', ()) for a in x.atoms())

        if call.keywords or len(extra) > 2:
            self.unknown('arguments of `%s` not understood' % short(call, 60))
            return R
        if dotted(recv) == BUF:
            if extra and (not isinstance(extra[0], Lin) or (extra[0].is_const and extra[0].c < 0)):
                self.unknown('start argument of `%s` not understood' % short(call, 60))
                return R
            starts = [g['base'] + extra[0] if extra else g['base']]
            origin, ends = g['base'], [self.buffer_end(env)]
            org0, st0, involved = origin, starts[0], True
        else:
            ps = self.pieces(env, recv)
            if any(p[0] == 'opaque' for p in ps):
                self.unknown('delimiter searched in `%s`, whose relation to the buffer is not understood' % short(recv, 60))
                return R
            starts = [p[1] for p in ps if p[0] == 'buf']
            origin, ends = None, None
            if len(ps) == 1 and ps[0][0] == 'buf' and ps[0][3]:
                origin, ends = ps[0][1], [ps[0][2]]
                if extra and isinstance(extra[0], Lin) and not (extra[0].is_const and extra[0].c < 0):
                    starts = [origin + extra[0]]                # a start argument counts from the first byte of the slice
            # the result counts from the first byte of the searched value: known when that is a tracked piece of the buffer
            org0 = ps[0][1] if ps and ps[0][0] == 'buf' and ps[0][3] else None
            st0 = None if org0 is None else (org0 + extra[0] if extra and isinstance(extra[0], Lin) and not (extra[0].is_const and extra[0].c < 0) else org0)
            involved = any(p[0] == 'buf' for p in ps)
            if self.mode == 'R10' and self.depth == 0 and g.get('fetch') is not None and len(ps) == 2 and ps[0][0] == 'buf' and ps[0][3] \
                    and ps[1][0] == 'other' and len(ps[1]) == 4 and ps[1][1] == 'head' and ps[1][2] in g['srcnames'] and not extra:
                # <tail of the buffer> + <first k bytes of the chunk just fetched>: a search across the chunk border
                g['border'] = g.get('border', ()) + ((R, ps[0][1], ps[0][2], ps[1][3]),)
        if ends is not None:
            # bytes.find(sub, start, end): the WHOLE match lies in [start, end) -- a failed search says nothing
            # about a delimiter that starts before `end` and ends behind it
            if len(extra) == 2:
                if not understood(extra[1]) or not understood(extra[0]):
                    self.unknown('end bound of `%s` not understood' % short(call, 60))
                    return R
                ends = ends + [origin + extra[1]]
            if not extra or understood(extra[0]):
                covered = (origin + extra[0] if extra else origin, tuple(ends))
        if covered is not None:
            if self.mode == 'R10':      # the same search of the same (immutable) bytes has the same result
                for (R0, bv, st, es) in g['finds']:
                    if self._same(bv, env.eval(_E_BUF)) and st == covered[0] and tuple(es) == tuple(covered[1]):
                        return R0
            g['finds'] = g['finds'] + ((R, env.eval(_E_BUF), covered[0], covered[1]),)
        if involved:      # a search of buffered data whose outcome the code has to act on: (result, call, stream offset the result counts from, start)
            g['open'] = g['open'] + ((R, call, org0, st0),)
        if self.mode == 'R6' and not self.quiet and cur is not None:
            for st in starts:
                ok = env.prove_le(cur, st)
                if not ok and ((st - cur).tainted() or g.get('confused')):
                    self.unknown(g.get('confused') or '; '.join(env.notes[-2:]))
                    continue
                self.v.note(self.f, 'search @%s' % unparse(call), 'every search for the delimiter starts at or after the cursor (consumed bytes are never searched again)',
                            ok, call, 'the searched data starts %r byte(s) from the cursor, which is not provably >= 0' % (st - cur,), self.wit,
                            'BufferedReader(BytesIO(b"-------").read, 7, 3): read(2), read_until(b"---", 2), read() -> b"----" instead of b"---" '
                            '(a delimiter is "found" in front of the cursor and the cursor moves backwards)')
        return R

    # ------------------------------------------------- outcome of a delimiter search (frozen idiom table: bytes.find / str.find return -1
    # for "not found" and the index of the match, >= start, otherwise; .index/.rfind/... are rejected as unknown idioms in on_call)
    def fetch_check(self, env):
        """New data is about to be fetched from the source: every search of buffered data made on this path must have provably
        failed (result < 0) -- a guard that sends a possible match (result 0 or 1) down the "not found" road lets the reader run
        through a delimiter.  Decided in the method under analysis itself (not in followed callees)."""
        g = env.ghost
        if self.quiet or self.depth or self.mode not in ('R7', 'R10'):
            return
        for (R, call0, org0, st0) in g['open']:
            failed = _is_negative(env, R)
            if not failed:
                # is "result >= 0" (then, by the convention of bytes.find, result >= start) compatible with the path facts at all?
                e2 = env.fork()
                if not e2.add_le(0, R) or (org0 is not None and st0 is not None and not e2.add_le(st0 - org0, R)) or any(e2.prove_eq(n_, 0) for n_ in e2.neq):
                    failed = True
            self.v.note(self.f, 'search resolved @%s' % unparse(call0),
                        'more data is fetched from the source only after every delimiter search of the buffered data made on the way has provably failed '
                        '(bytes.find: -1 is "not found", every result >= 0 is a match position)', failed, call0,
                        'the source is asked for more data although the result of `%s` may be >= 0 on this path (a match at that position is treated as '
                        '"not found")' % short(call0, 60), self.wit,
                        'data b"a|b|c", peek(1) then read_until(b"|") -> b"a|b|c" instead of b"a" (asgi); BufferedReader(BytesIO(b"|ab").read, 3): '
                        'read_until(b"|") -> b"|ab" instead of b"" (sync): the reader runs through a delimiter it has found')
        g['open'] = ()

    def border_check(self, env, node):
        """(R10, the method under analysis) buffered bytes up to the end of the buffer -- or the chunk fetched behind them -- are handed on
        while that chunk is still held in a local: a delimiter of 2+ bytes may straddle the border, so a search of
        <last len(delimiter) - 1 buffered bytes (not in front of the cursor)> + <first len(delimiter) - 1 bytes of the chunk> must have
        failed on this path, unless len(delimiter) <= 1 is a path fact or nothing was buffered when the chunk was fetched."""
        g = env.ghost
        ft = g.get('fetch')
        if self.quiet or self.depth or self.mode != 'R10' or ft is None or g['lost']:
            return
        end_f, cur_f = ft
        if env.prove_le(end_f, cur_f):
            return
        ok = env.prove_le(self.dl, 1)
        why = 'no search across the chunk border was made on this path and len(delimiter) <= 1 is not a path fact'
        for (R, lo, hi, k) in g.get('border', ()):
            if ok:
                break
            v0 = lo - g['base']
            cands = [cur_f - g['base'], end_f - g['base'] - self.dl + Lin.const(1)]
            parts = list(v0.lone()[1]) if v0.lone() is not None and v0.lone()[0] == 'max' else [v0]
            covers = env.prove_eq(hi, end_f) and all(any(env.prove_le(x, c) for c in cands) for x in parts) and env.prove_le(self.dl - Lin.const(1), k)
            if covers and _is_negative(env, R):
                ok = True
            else:
                why = 'the border search on this path %s' % ('may have found a match' if covers else 'does not cover the last / first len(delimiter) - 1 bytes around the border')
        self.v.note(self.f, 'border searched @%s' % unparse(node),
                    'buffered bytes up to the end of the buffer (or the look-ahead chunk behind them) are handed on only after the chunk border was searched for a '
                    'straddling delimiter, or with a one-byte delimiter', ok, node, '`%s`: %s' % (short(node, 60), why), self.wit,
                    'BufferedReader(BytesIO(b"\\naaa\\n").read, 5, 2): read_until(b"aa", 5) -> b"\\na" instead of b"\\n" (a 2-byte delimiter split across two chunks is not seen)')

    def match_check(self, env, cur):
        """(R8, asynchronous generators) the iteration ends: when a search of the buffered data has provably succeeded on this path
        (result >= 0) the cursor stands exactly at the match -- everything in front of the delimiter has been handed out."""
        g = env.ghost
        for (R, call0, org0, st0) in g['open']:
            if not env.prove_le(0, R):
                continue
            if org0 is None:
                self.unknown('`%s`: the position its result counts from is not tracked' % short(call0, 60))
                continue
            e2 = env.fork()
            if st0 is not None:
                e2.add_le(st0 - org0, R)            # bytes.find(sub, start): a match lies at or behind `start`
            ok = e2.prove_eq(cur, org0 + R)
            self.v.note(self.f, 'cursor at the match @%s' % unparse(call0),
                        'when the iteration over delimited data ends because the delimiter was found, the cursor stands at the match position '
                        '(all bytes in front of the delimiter have been handed out)', ok, call0,
                        'the generator ends with the cursor %r byte(s) from the match found by `%s` (not provably 0)' % (org0 + R - cur, short(call0, 50)), self.wit,
                        'asgi BufferedReader over b"a|b|c": read_until(b"|") -> b"" instead of b"a"; with consume_delimiter=True a spurious DelimiterError')

    def position_args(self, env, call, callee):
        """(R6) a search result handed to a reader method as a BUFFER position (a parameter the callee compares with the cursor, or
        re-assigns from a search of self._buffer) is translated from the coordinates of the searched value (a border fragment that
        starts `offset` bytes into the buffer) to buffer coordinates: argument == result + (start of the searched value - start of the buffer)."""
        pos_params = set()
        ps = set(callee.params())
        for n in walk_self(callee.node):
            if isinstance(n, ast.Compare) and len(n.ops) == 1 and isinstance(n.ops[0], (ast.Eq, ast.NotEq)):
                a, b = n.left, n.comparators[0]
                for x, y in ((a, b), (b, a)):
                    if dotted(x) == BPOS and isinstance(y, ast.Name) and y.id in ps:
                        pos_params.add(y.id)
            elif isinstance(n, ast.Assign) and len(n.targets) == 1 and isinstance(n.targets[0], ast.Name) and n.targets[0].id in ps \
                    and isinstance(n.value, ast.Call) and isinstance(n.value.func, ast.Attribute) and n.value.func.attr == 'find' and dotted(n.value.func.value) == BUF:
                pos_params.add(n.targets[0].id)
        if not pos_params:
            return
        bound = _bind_call(callee, call)
        if bound is None:
            self.unknown('`%s`: argument passing not understood' % short(call, 50))
            return
        g = env.ghost
        results = {R.lone(): (c0, org0) for (R, c0, org0, _st) in g['open']}
        for pname in sorted(pos_params):
            x = bound.get(pname)
            if x is None or any(isinstance(c, ast.Call) and id(c) not in (env.ghost.get('inlined') or ()) for c in ast.walk(x)):
                continue                                   # (a helper executed in place has a value)
            val = env.eval(x)
            if not isinstance(val, Lin) or val.is_const:
                continue                                   # -1 / a constant: the "not found yet" sentinel
            hits = [a for a in val.atoms() if a in results]
            if len(hits) != 1 or val.t[hits[0]] != 1:
                continue                                   # not (one) search result: nothing to translate
            c0, org0 = results[hits[0]]
            if org0 is None or g['lost']:
                self.unknown('`%s`: the position the result of `%s` counts from is not tracked' % (short(call, 50), short(c0, 50)))
                continue
            shift, want = val - Lin.atom(hits[0]), org0 - g['base']
            ok = env.prove_eq(shift, want)
            if not ok and (shift - want).tainted():
                self.unknown('; '.join(env.notes[-2:]))
                continue
            self.v.note(self.f, 'match position @%s' % unparse(call),
                        'a search result passed on as a buffer position is translated by the offset of the searched value in the buffer '
                        '(a border fragment starts `offset` bytes into the buffer: position = result + offset)', ok, call,
                        'the result of `%s` counts from %r byte(s) into the buffer but %r is added to it when it is passed as `%s`' % (short(c0, 50), want, shift, pname),
                        self.wit, 'BufferedReader(BytesIO(b"\\nabaa\\n\\n").read, 7, 3): read_until(b"baa", 4, True) -> b"" instead of b"\\na" '
                        '(a delimiter straddling two chunks is located at the wrong buffer position)')

    # ----------------------------------------------------------------- yields
    @staticmethod
    def _same(a, b):
        return a is b or (isinstance(a, Lin) and isinstance(b, Lin) and a == b and a.lone() is not None)

    def on_yield(self, env, s, ys):
        if self.mode == 'R9':
            self.lose(env, '`%s`: a generator in the synchronous reader is not modelled' % short(s, 60))
            return
        if self.mode not in ('R7', 'R8'):
            return
        g = env.ghost
        if len(ys) != 1 or isinstance(ys[0], ast.YieldFrom) or ys[0].value is None:
            self.lose(env, '`%s`: yield shape not understood' % short(s, 60))
            self.unknown(g['lost'])
            return
        val = ys[0].value
        ps = self.pieces(env, val)
        cur = self.cursor(env)
        if cur is None:
            return
        if len(ps) == 1 and ps[0][0] == 'const' and ps[0][1] == 0:
            return
        base_after = g['base']
        if len(ps) == 1 and ps[0][0] == 'src':
            n = env.length(env.eval(val), short(val, 30))
            lo = self.buffer_end(env)
            hi = lo + n
            base_after = g['base'] + n
        elif len(ps) == 1 and ps[0][0] == 'buf' and ps[0][3]:
            lo, hi = ps[0][1], ps[0][2]
        else:
            self.lose(env, '`%s`: the yielded value is not a tracked region of the buffer or an item of %s' % (short(s, 60), SOURCE_IT))
            self.unknown(g['lost'])
            return
        if g['lost']:       # positions are not known on the rest of this path: no verdict
            self.unknown(g['lost'])
            g['base'] = base_after
            g['prev'] = base_after + env.eval(_E_BPOS)
            return
        if self.mode == 'R8' and not self.quiet:
            ok1 = env.prove_eq(g['prev'], lo)
            ok2 = env.prove_eq(hi, base_after + env.eval(_E_BPOS))
            if not ok1:
                msg = 'the yielded bytes start %r byte(s) from where the cursor stood after the previous hand-out (not provably 0)' % (lo - g['prev'],)
            else:
                msg = 'at the yield the cursor is %r byte(s) short of the end of the yielded bytes (not provably 0): %s is not advanced over them' % (
                    hi - (base_after + env.eval(_E_BPOS)), BPOS)
            self.v.note(self.f, 'conserved @%s' % unparse(s), 'bytes handed out from the buffer are exactly the bytes the cursor has moved over when they are yielded',
                        ok1 and ok2, s, msg, self.wit,
                        'asgi BufferedReader over [b"abcdef"]: read_until(b"ZZ") -> b"abcdef", then read() returns b"abcdef" again and tell() lags behind')
        if self.mode == 'R7' and not self.quiet and ps[0][0] == 'buf':
            bufval = env.eval(_E_BUF)
            for (R, bv, st, ends) in g['finds']:
                if not self._same(bv, bufval) or not _is_negative(env, R):
                    continue
                if not env.prove_le(st, lo):      # a search that started behind the first yielded byte does not vouch for this hand-out
                    continue
                need = hi + self.dl - Lin.const(1)
                short_of = [e for e in ends if not _prove_le(env, need, e)]
                ok = not short_of
                msg = '%r byte(s) lie between the end of the yielded region and the end of the searched range; not provably >= len(delimiter) - 1' % (
                    (short_of[0] - hi) if short_of else 0,)
                self.v.note(self.f, 'delimiter tail kept @%s' % unparse(s),
                            'when the delimiter was not found in the searched range of the buffered data, an early hand-out stays at least len(delimiter) - 1 bytes '
                            'short of the end of that range (the end of the buffer and, if given, the end bound of the search)',
                            ok, s, msg, self.wit,
                            'source chunks b"a--", b"-b" with the first one buffered (peek): read_until(b"---", 2) returns b"a-" instead of b"a" '
                            '(the first bytes of a delimiter that ends behind the searched range are handed out)')
        g['base'] = base_after
        g['prev'] = base_after + env.eval(_E_BPOS)

    def on_end(self, env, end):
        if self.mode == 'R9':
            self.commit(env, 'at the end of the path')
            return
        if self.mode in ('R7', 'R10'):
            nd = self.cfg.node(end)
            if nd.kind == 'iter' and dotted(strip_await(nd.stmt.iter)) == SOURCE_IT:
                self.fetch_check(env)          # the next thing that happens is that the source is asked for more
            return
        if self.mode != 'R8' or self.quiet:
            return
        g = env.ghost
        if g['lost']:
            self.unknown(g['lost'])
            return
        cur = self.cursor(env)
        if cur is None:
            return
        if end == self.cfg.exit:
            self.match_check(env, cur)
        ok = env.prove_eq(g['prev'], cur)
        self.v.note(self.f, 'cursor between hand-outs', 'between hand-outs the cursor keeps its stream position (trimming / replacing the buffer does not move it)',
                    ok, g['last'] if g['last'] is not None else self.f.name,
                    'at the end of the path the cursor is %r byte(s) from where the last hand-out left it (not provably 0)' % (cur - g['prev'],), self.wit,
                    'buffered bytes are skipped (or returned twice) by the next read')

    # ------------------------------------------------------------------ driver
    def infer_invariants(self):
        """Houdini over _CANDIDATES: {loop head: names of the candidates that hold at every arrival}; nothing is reported."""
        ck = (id(self.run.project), self.f.qual, 'R10' if self.mode == 'R10' else '*')      # (only R10 starts its segments behind a prelude)
        hit = _INV_CACHE.get(ck)
        if hit is not None and hit[0] is self.cfg:
            self.invariants = {h: set(cs) for h, cs in hit[1].items()}
            self.quiet = True
            return self.invariants
        inv = self._infer_invariants()
        _INV_CACHE[ck] = (self.cfg, {h: set(cs) for h, cs in inv.items()})
        return inv

    def _infer_invariants(self):
        cfg = self.cfg
        segs = list(segments(cfg))
        inv = self.invariants = {h: set(_CANDIDATES) for h in loop_heads(cfg)}
        self.quiet, changed = True, True
        while changed:
            changed = False
            for start, steps, end in segs:
                if not inv.get(end):
                    continue
                for e in [e2 for e0 in self.start_envs(start) for e2 in _run_steps(e0, cfg, steps, self.on_node)]:
                    if any(k == 'raise' for k, _v, _n in e.log):
                        continue
                    for c in sorted(inv[end]):
                        a, b = _CANDIDATES[c](e)
                        if not (isinstance(a, Lin) and isinstance(b, Lin) and e.prove_eq(a, b)):
                            inv[end].discard(c)
                            changed = True
        return inv

    def execute(self):
        cfg = self.cfg
        segs = list(segments(cfg))
        inv = self.infer_invariants()
        self.quiet = False
        self.run.extra.setdefault('c14_loop_invariants', {})[self.f.qual] = sorted('%s @%s' % (c, short(cfg.node(h).stmt, 40)) for h, cs in inv.items() for c in cs)
        for start, steps, end in segs:
            if end == cfg.xexit:
                continue
            self.wit = flow.describe_path(cfg, [s[0] for s in steps])
            for e in [e2 for e0 in self.start_envs(start) for e2 in _run_steps(e0, cfg, steps, self.on_node)]:
                if any(k == 'raise' for k, _v, _n in e.log):
                    continue
                self.on_end(e, end)


_INV_CACHE = {}

_MODEL_ASSUMPTION = ('C14 R6-R8: class invariant 0 <= _buffer_pos <= _buffer_len == len(_buffer) at every method entry, loop head and suspension point (R1); '
                     'a generator of the reader is not interleaved with other operations on the same reader while it is suspended '
                     '(its consumer may only stop it); slice bounds that equal a cursor position are within the buffer')


def _is_delim_find(c):
    return isinstance(c, ast.Call) and isinstance(c.func, ast.Attribute) and c.func.attr == 'find' and c.args and dotted(c.args[0]) == DELIM


def r6_search_start(run):
    """(A) no delimiter search looks at bytes in front of the cursor."""
    v = Verdicts(run)
    run.assume(_MODEL_ASSUMPTION)
    for qual in (SYNC, ASYNC):
        rd = Reader(run.project, qual)
        n = 0
        for name, f in sorted(rd.methods.items()):
            if DELIM in f.params() and _searches(rd, f) and not _judged_in_context(rd, f):
                _StreamModel(run, v, rd, f, 'R6').execute()
                n += 1
        if not n:
            raise AnchorError('%s: no method searches the buffer with .find(%s, ...)' % (qual, DELIM))
    v.flush()


def _buffer_generators(rd):
    out = []
    for name, f in sorted(rd.methods.items()):
        nodes = list(walk_self(f.node))
        if any(isinstance(x, (ast.Yield, ast.YieldFrom)) for x in nodes) and any(isinstance(x, ast.Attribute) and dotted(x) in (BUF, BPOS) for x in nodes):
            out.append(f)
    return out


def r7_delimiter_not_split(run):
    """(B) a size-capped early hand-out never tears a delimiter that the next chunk may complete (shared with C13)."""
    v = Verdicts(run)
    run.assume(_MODEL_ASSUMPTION)
    rd = Reader(run.project, ASYNC)
    gens = [f for f in _buffer_generators(rd) if DELIM in f.params()]
    if not gens:
        raise AnchorError('%s: no generator method takes a %s and hands out buffered data' % (ASYNC, DELIM))
    for f in gens:
        _StreamModel(run, v, rd, f, 'R7').execute()
    # a coroutine (no generator) that searches the buffered data itself and returns / moves the cursor over buffered bytes on the strength
    # of a failed search: the same margin, decided like the synchronous reader's R10 (nothing is fetched between search and hand-out)
    for name, f in sorted(rd.methods.items()):
        if f not in gens and DELIM in f.params() and not any(isinstance(x, (ast.Yield, ast.YieldFrom)) for x in walk_self(f.node)) \
                and _searches(rd, f) and not _judged_in_context(rd, f):
            _StreamModel(run, v, rd, f, 'R10').execute()
    v.flush()


def r8_cursor_conservation(run):
    """(C) conservation of the cursor in the generator methods of the asynchronous reader."""
    v = Verdicts(run)
    run.assume(_MODEL_ASSUMPTION)
    rd = Reader(run.project, ASYNC)
    require_attrs(run.project, ASYNC, [SOURCE_IT])
    gens = _buffer_generators(rd)
    if len(gens) < 2:
        raise AnchorError('%s: fewer than 2 generator methods hand out buffered data' % ASYNC)
    for f in gens:
        _StreamModel(run, v, rd, f, 'R8').execute()
    v.flush()


def r9_sync_cursor_conservation(run):
    """(D) conservation of the cursor in the synchronous reader: whenever the buffer is replaced / trimmed / bytes are
    returned, appended to the backlog or skipped as a delimiter, the cursor ends up exactly behind the last byte handed out."""
    v = Verdicts(run)
    run.assume(_MODEL_ASSUMPTION)
    run.assume('C14 R9: data assigned / appended to the buffer that is not derived from the buffer is the next data of the stream '
               '(R2: the source is read in one place); a value returned by a method that moves the buffer is what that method handed out '
               '(its own R9 obligation); peek() returns without consuming; a cursor advance by a delimiter length is a verified skip (R3)')
    rd = Reader(run.project, SYNC)
    require_attrs(run.project, SYNC, [SOURCE_FN])
    dparams = _delim_params(rd, run)
    todo = [f for name, f in sorted(rd.methods.items()) if name != '__init__' and {BUF, BPOS} & _stores(f)]
    if len([f for f in todo if BUF in _stores(f)]) < 3:
        raise AnchorError('%s: fewer than 3 methods assign %s' % (SYNC, BUF))
    for f in todo:
        _StreamModel(run, v, rd, f, 'R9', len_params={q for (mn, q) in dparams if mn == f.name}).execute()
    v.flush()


def r10_sync_delimiter_not_split(run):
    """(B, synchronous reader; shared with C13 as its R6) "enough data is buffered, stop refilling" keeps a delimiter tail."""
    v = Verdicts(run)
    run.assume(_MODEL_ASSUMPTION)
    run.assume('C14 R10: decided for the paths of the read-until loop that fetch no new data between the loop head and the hand-out (after a fetch the '
               'hand-out is justified by the end of the stream / the search across the chunk border: not decided); what a reader method returns or '
               'appends to a sink reaches the application (R9); peek() returns without consuming; an attribute stored only by the constructor, a '
               'never-stored parameter and a local assigned once in front of the loop keep their values in the loop')
    rd = Reader(run.project, SYNC)
    require_attrs(run.project, SYNC, [SOURCE_FN])
    todo = []
    for name, f in sorted(rd.methods.items()):
        if DELIM not in f.params():
            continue
        loops = [x for x in walk_self(f.node) if isinstance(x, (ast.While, ast.For))]
        in_loops = [c for lp in loops for c in ast.walk(lp) if isinstance(c, ast.Call)]
        src = {n for n, g in rd.methods.items() if n != '__init__' and any(
            isinstance(x, ast.Attribute) and dotted(x) == SOURCE_FN and isinstance(x.ctx, ast.Load) for x in walk_self(g.node))}
        fetches = any(isinstance(c.func, ast.Attribute) and dotted(c.func.value) == 'self' and c.func.attr in src for c in in_loops)
        if fetches and any(_call_searches(rd, c, f=f) for c in in_loops):
            todo.append(f)
    if not todo:
        raise AnchorError('%s: no method searches the buffer for a %s in a loop that refills it from the source' % (SYNC, DELIM))
    for f in todo:
        _StreamModel(run, v, rd, f, 'R10').execute()
    v.flush()


# ---------------------------------------------------------------------------
# R11 minimum length of the chunks of the normalising source iterator (async; shared with C13 as its R9)
#
# Consumer side: a delimiter search in a loop over `self._source` that looks at a border fragment
# `<tail of the buffer> + item[:k]` sees a delimiter that straddles the border only if the item really supplies the k bytes
# it is asked for, i.e. if every item that is followed by another one has at least k bytes.  k is read from the code and
# bounded through the method's own delimiter-length guard (k <= chunk_size - s, s in {1, 0}).
# Producer side: inside the source loop of the normalising iterator every yield hands out at least chunk_size - s bytes;
# only a yield from which the source loop cannot be reached again (the final flush) may be shorter.
# ---------------------------------------------------------------------------

def _normalizer(p, rd):
    """The generator method of the asynchronous reader that `__init__` wraps around the source (anchor: self._source)."""
    init = p.func(ASYNC + '.__init__')
    norm = None
    for s in walk_self(init.node):
        if isinstance(s, ast.Assign) and any(dotted(t) == SOURCE_IT for t in s.targets):
            c = strip_await(s.value)
            if isinstance(c, ast.Call) and isinstance(c.func, ast.Attribute) and dotted(c.func.value) == 'self' and c.func.attr in rd.methods:
                norm = rd.methods[c.func.attr]
    if norm is None:
        raise AnchorError('%s.__init__: %s is not built by a method of the reader' % (ASYNC, SOURCE_IT))
    return norm


def _plain_prelude_envs(rd, f, loop_stmt, start_is_entry):
    env = Env()
    env.kind[('v', DELIM)] = 'seq'
    env.declare(CHUNK, 'int')
    envs = [env]
    if start_is_entry:
        return envs
    for kind, st in _stable_prelude(rd, f, loop_stmt):
        if kind == 'assign':
            for e in envs:
                e.exec(st)
        else:
            envs = [e2 for e in envs for e2 in e.assume(st.test, False)]
    return envs


def _mark_items(env, names):
    """Loop items / byte-string locals are sequences (so that `a + b` concatenates and len() distributes)."""
    for nm in names:
        val = env.vars.get(nm)
        if val is None:
            env.kind[('v', nm)] = 'seq'
        elif isinstance(val, Lin) and val.lone() is not None and val.lone()[0] == 'sym':
            env.kind[val.lone()] = 'seq'


def _lookahead_finder(f, items, dnames):
    """lookaheads(node) for function f: the `item[:k]` slices (item in `items`) inside node that feed the receiver of a search for one of
    `dnames` (directly, or through the locals the searched value is put together from)."""
    def is_find(c):
        return (isinstance(c, ast.Call) and isinstance(c.func, ast.Attribute) and c.func.attr == 'find' and c.args
                and isinstance(c.args[0], ast.Name) and c.args[0].id in dnames)

    finds = [c for c in walk_self(f.node) if is_find(c)]
    recv_names = {x.id for c in finds for x in ast.walk(c.func.value) if isinstance(x, ast.Name)}
    grew = True
    while grew:         # locals the searched value is put together from
        grew = False
        for st in walk_self(f.node):
            if isinstance(st, (ast.Assign, ast.AnnAssign, ast.AugAssign)) and getattr(st, 'value', None) is not None:
                tg = st.targets if isinstance(st, ast.Assign) else [st.target]
                if any(isinstance(t, ast.Name) and t.id in recv_names for t in tg):
                    add = {x.id for x in ast.walk(st.value) if isinstance(x, ast.Name)} - recv_names
                    if add:
                        recv_names |= add
                        grew = True

    def lookaheads(node):
        out = []
        scopes = []
        if isinstance(node, (ast.Assign, ast.AnnAssign, ast.AugAssign)):
            tg = node.targets if isinstance(node, ast.Assign) else [node.target]
            if any(isinstance(t, ast.Name) and t.id in recv_names for t in tg) and node.value is not None:
                scopes.append(node.value)
        for c in walk_self(node):
            if is_find(c):
                scopes.append(c.func.value)
        for sc in scopes:
            for x in ast.walk(sc):
                if isinstance(x, ast.Subscript) and isinstance(x.value, ast.Name) and x.value.id in items and isinstance(x.slice, ast.Slice):
                    out.append(x)
        return out

    return lookaheads


class _Lookahead:
    """(R11, consumer side) the look-aheads `item[:k]` met on the paths of one method -- also inside a read-only value helper that is
    handed the item and the delimiter (executed in place: k is evaluated with the caller's facts)."""

    def __init__(self, v, rd, f, items):
        self.v, self.rd, self.f = v, rd, f
        self.top = (frozenset(items), frozenset({DELIM}), _lookahead_finder(f, items, {DELIM}))
        self.seen = []

    def scope(self, env):
        return env.ghost.get('la_scope') or self.top

    def helper_scope(self, env, call, callee):
        items, dnames, _f = self.scope(env)
        bound = _bind_call(callee, call) or {}
        it2 = {nm for nm, x in bound.items() if isinstance(x, ast.Name) and x.id in items}
        d2 = {nm for nm, x in bound.items() if isinstance(x, ast.Name) and x.id in dnames}
        return frozenset(it2), frozenset(d2)

    def has_sites(self):
        """Does the method (or a helper it hands an item to) contain a look-ahead at all?"""
        def sites(f, sc, depth):
            if any(sc[2](s) for s in walk_self(f.node) if isinstance(s, (ast.stmt, ast.expr))):
                return True
            if depth >= 2:
                return False
            for c in walk_self(f.node):
                g = _value_helper(self.rd, c, (), f) if isinstance(c, ast.Call) else None
                if g is not None:
                    bound = _bind_call(g, c) or {}
                    it2 = {nm for nm, x in bound.items() if isinstance(x, ast.Name) and x.id in sc[0]}
                    d2 = {nm for nm, x in bound.items() if isinstance(x, ast.Name) and x.id in sc[1]}
                    if it2 and d2 and sites(g, (it2, d2, _lookahead_finder(g, it2, d2)), depth + 1):
                        return True
            return False
        return sites(self.f, self.top, 0)

    def wants_helper(self, env, call, callee):
        it2, d2 = self.helper_scope(env, call, callee)
        return bool(it2 and d2)

    def enter_helper(self, caller_env, env, bound, callee, call):
        saved = (env.ghost.get('la_scope'), env.ghost.get('helper_model'))
        it2, d2 = self.helper_scope(caller_env, call, callee)
        env.ghost['la_scope'] = (it2, d2, _lookahead_finder(callee, it2, d2))
        env.ghost['helper_model'] = self
        return saved

    def leave_helper(self, env, saved):
        for k, val in zip(('la_scope', 'helper_model'), saved):
            if val is None:
                env.ghost.pop(k, None)
            else:
                env.ghost[k] = val

    def pieces(self, env, e):
        return None

    def on_node(self, env, n, label):
        items, _d, lookaheads = self.scope(env)
        _mark_items(env, items)
        if label == 'exc' or n.kind not in ('stmt', 'test'):
            return
        for x in lookaheads(n.ast):
            s = x.slice
            if s.lower is not None or s.step is not None or s.upper is None:
                self.v.unknown('%s: look-ahead `%s` is not a prefix `item[:k]` of the next chunk' % (self.f.qual, short(x, 50)))
                continue
            k = env.eval(s.upper)
            if not isinstance(k, Lin) or k.tainted():
                self.v.unknown('%s: width of the look-ahead `%s` not understood' % (self.f.qual, short(x, 50)))
                continue
            self.seen.append((x, k, env.fork()))


def _lookahead_slack(run, v, rd):
    """Consumer side.  Returns s such that every look-ahead `item[:k]` of a delimiter search over self._source has
    k <= chunk_size - s proved (the largest such s in {1, 0}); obligations: k >= len(delimiter) - 1 and k <= chunk_size."""
    p = run.project
    dl = Lin.atom(('len', ('v', DELIM)))
    slack, n_sites = 1, 0
    for name, f in sorted(rd.methods.items()):
        if DELIM not in f.params():
            continue
        loops = [x for x in walk_self(f.node) if isinstance(x, (ast.For, ast.AsyncFor)) and dotted(strip_await(x.iter)) == SOURCE_IT
                 and isinstance(x.target, ast.Name)]
        if not loops:
            continue
        items = {lp.target.id for lp in loops}
        model = _Lookahead(v, rd, f, items)
        if not model.has_sites():
            continue
        cfg = cfg_of(f, p)
        run.use_cfg(cfg)
        heads = {h: cfg.node(h).stmt for h in loop_heads(cfg)}
        for start, steps, end in segments(cfg):
            if end == cfg.xexit:
                continue
            wit = flow.describe_path(cfg, [s[0] for s in steps])
            model.seen = []
            lp = heads.get(start)
            for e0 in _plain_prelude_envs(rd, f, lp if lp is not None else loops[0], start == cfg.entry):
                for e in _run_steps(e0, cfg, steps, model.on_node):
                    pass
            for (x, k, e) in model.seen:
                n_sites += 1
                wide = e.prove_le(dl - Lin.const(1), k)
                v.note(f, 'look-ahead width @%s' % unparse(x),
                       'the border fragment searched for the delimiter takes at least len(delimiter) - 1 bytes from the next chunk', wide, x,
                       'the look-ahead takes %r byte(s) of the next chunk; not provably >= len(delimiter) - 1' % (k,), wit,
                       'a delimiter that starts in the last byte of one chunk is not found: part content runs through the boundary')
                s1, s0 = e.prove_le(k, e.var(CHUNK) - Lin.const(1)), e.prove_le(k, e.var(CHUNK))
                v.note(f, 'look-ahead bounded @%s' % unparse(x),
                       'the look-ahead into the next chunk is no wider than the minimum length the normalising source iterator guarantees for '
                       'every chunk but the last (chunk_size)', s1 or s0, x,
                       'the look-ahead takes %r byte(s) of the next chunk; not provably <= chunk_size: a chunk of the guaranteed minimum length '
                       'may be too short to complete a delimiter' % (k,), wit,
                       'a delimiter longer than one chunk straddles three chunks and is never found')
                if not s1:
                    slack = 0
    if n_sites == 0:
        raise AnchorError('%s: no delimiter search over %s looks ahead into the next chunk (`item[:k]`): the premise on the minimum chunk '
                          'length has no reader' % (ASYNC, SOURCE_IT))
    return slack


def r11_min_chunk(run):
    """Every chunk of the normalising source iterator but the last is at least as long as the delimiter look-ahead assumes."""
    p = run.project
    v = Verdicts(run)
    rd = Reader(p, ASYNC)
    require_attrs(p, ASYNC, [SOURCE_IT])
    slack = _lookahead_slack(run, v, rd)
    run.assume('C14 R11: the one-chunk look-ahead of the delimiter search (`<buffer tail> + chunk[:k]`, k = len(delimiter) - 1 <= chunk_size - %d '
               'by the delimiter-length guard) finds a delimiter that straddles a chunk border only if every chunk of self._source that is followed '
               'by another one has at least k bytes; the normalising iterator must therefore yield at least chunk_size - %d bytes while items follow'
               % (slack, slack))
    f = _normalizer(p, rd)
    ps = [a for a in f.params() if a != 'self']
    loops = [x for x in walk_self(f.node) if isinstance(x, (ast.For, ast.AsyncFor)) and isinstance(x.iter, ast.Name) and x.iter.id in ps]
    if len(loops) != 1 or not isinstance(loops[0].target, ast.Name):
        raise UnknownIdiom('%s: expected exactly one loop `for item in <source parameter>`' % f.qual)
    loop = loops[0]
    cfg = cfg_of(f, p)
    run.use_cfg(cfg)
    head = [h for h in loop_heads(cfg) if cfg.node(h).stmt is loop]
    if len(head) != 1:
        raise UnknownIdiom('%s: loop head of the source loop not found' % f.qual)
    head = head[0]
    seqs = {loop.target.id}
    for s in walk_self(f.node):
        if isinstance(s, (ast.Yield,)) and isinstance(s.value, ast.Name):
            seqs.add(s.value.id)
        elif isinstance(s, ast.YieldFrom):
            raise UnknownIdiom('%s: `yield from` is not modelled' % f.qual)
    n_yields = 0
    for start, steps, end in segments(cfg):
        if end == cfg.xexit:
            continue
        wit = flow.describe_path(cfg, [s[0] for s in steps])

        def on_node(env, n, label):
            nonlocal n_yields
            _mark_items(env, seqs)
            if label == 'exc' or n.kind != 'stmt':
                return
            ys = [x for x in n.walk() if isinstance(x, ast.Yield)]
            if not ys:
                return
            after = [y for (y, l) in cfg.succ[n.id] if l != 'exc']
            if head not in flow.reachable(cfg, after):
                return                                          # the final flush: nothing follows
            for y in ys:
                n_yields += 1
                if y.value is None:
                    v.unknown('%s: bare yield' % f.qual)
                    continue
                ln = env.length(env.eval(y.value), short(y.value, 30))
                need = env.var(CHUNK) - Lin.const(slack)
                ok = env.prove_le(need, ln)
                if not ok and (ln.tainted() or (need - ln).tainted()):
                    v.unknown('%s: length of `%s` not understood (%s)' % (f.qual, short(y.value, 40), '; '.join(env.notes[-2:])))
                    continue
                v.note(f, 'minimum chunk length @%s' % unparse(n.ast),
                       'while more items of the source may follow, the normalising iterator hands out only chunks of at least chunk_size%s bytes '
                       '(the delimiter search looks ahead one chunk only)' % (' - 1' if slack else ''), ok, n.ast,
                       'a chunk of %r byte(s) is yielded while the source loop continues; not provably >= %r' % (ln, need), wit,
                       'ASGI body events [>= 8192 bytes ending inside "\\r\\n--boundary"][1 byte][>= 8192 bytes]: the delimiter spans three chunks, the '
                       'one-chunk look-ahead of _iter_delimited misses it, the part content runs through the boundary and the next part disappears')

        lp = cfg.node(start).stmt if start != cfg.entry else None
        for e0 in _plain_prelude_envs(rd, f, lp if lp is not None else loop, start == cfg.entry):
            _mark_items(e0, seqs)
            for e in run_steps(e0, cfg, steps, on_node):
                pass
    if n_yields == 0:
        raise AnchorError('%s: no yield inside the source loop' % f.qual)
    v.flush()


# ---------------------------------------------------------------------------
# R12 size cap of the synchronous reader: a read with a non-negative `size` returns at most `size` bytes
#
# Assume/guarantee over the reader's own methods: every method with a parameter named `size` (public API name of the cap) has the
# contract  size >= 0  ==>  len(result) <= size.  Each such method is PROVED from the contracts of the reader methods it calls
# (linear evaluator, upper bounds for slices / concatenations), except the ones in _CAP_ASSUMED, whose contract is value-level
# (loop-carried accounting) and is taken as given with one line of reason each.
# ---------------------------------------------------------------------------

CAP = 'size'
_CAP_ASSUMED = {
    '_perform_read': 'asks the source callable for at most `size` bytes in total (loop-carried; the requests are R2\'s, the callable honours its argument)',
    '_read_until': 'collects a backlog over loop iterations and returns through _finalize_read_until (loop-carried accounting of have_bytes; cursor: R9/R10)',
    '_finalize_read_until': 'joins the backlog with a final read of size - have_bytes (relies on have_bytes == total length of the backlog)',
}
# writes at most min(chunk_size, remaining) bytes per iteration while remaining > 0 and decreases remaining by chunk_size: at most `_size` in total
_CAP_SINKS = {'pipe_until': ('destination', '_size')}


def _bind_call(callee, call):
    """{parameter name: argument expression} by the callee's signature (defaults included); None when not understood."""
    a = callee.node.args
    if a.vararg or a.kwarg or any(isinstance(x, ast.Starred) for x in call.args) or any(k.arg is None for k in call.keywords):
        return None
    names = [x.arg for x in a.posonlyargs + a.args]
    if names and names[0] == 'self':
        names = names[1:]
    out = dict(zip(names[len(names) - len(a.defaults):], a.defaults)) if a.defaults else {}
    out.update({x.arg: d for x, d in zip(a.kwonlyargs, a.kw_defaults) if d is not None})
    if len(call.args) > len(names):
        return None
    for nm, x in zip(names, call.args):
        out[nm] = x
    for k in call.keywords:
        if k.arg not in names and k.arg not in [x.arg for x in a.kwonlyargs]:
            return None
        out[k.arg] = k.value
    return out


class _CapModel:
    def __init__(self, run, v, rd, f):
        self.run, self.v, self.rd, self.f, self.p = run, v, rd, f, run.project
        self.cfg = cfg_of(f, run.project)
        run.use_cfg(self.cfg)
        self.params = set(f.params())

    # ------------------------------------------------------------------ state
    def start_env(self):
        env = _start_env(self.rd, self.f, self.on_call)
        env.declare(CHUNK, 'nat')
        env.declare(BUDGET, 'nat')
        cap = env.declare(CAP, 'int')
        env.add_le(0, cap)
        env.is_none[('v', CAP)] = False
        env.ghost.update(known=frozenset(), sinks={}, ub={}, callmemo={})
        return env

    def invariants(self, env):
        nb = env.vars[BUF].lone() if BUF in env.vars and isinstance(env.vars[BUF], Lin) else None
        if nb is not None:
            env.kind[nb] = 'seq'
        env.add_eq(env.eval(_E_BLEN), env.length(env.eval(_E_BUF), BUF))
        env.add_le(0, env.eval(_E_BPOS))
        env.add_le(env.eval(_E_BPOS), env.eval(_E_BLEN))

    def known(self, env, atom):
        env.ghost['known'] = env.ghost['known'] | {atom}

    # ------------------------------------------------------------------ calls
    def on_call(self, env, call):
        memo = env.ghost['callmemo']
        if id(call) in memo:
            return memo[id(call)]
        r = self._on_call(env, call)
        if r is not None:
            env.ghost['callmemo'] = {**env.ghost['callmemo'], id(call): r}
        return r

    def sink_of(self, env, e):
        val = env.eval(e) if isinstance(e, (ast.Name, ast.Attribute)) else None
        a = val.lone() if isinstance(val, Lin) else None
        return a if a in env.ghost['sinks'] else None

    def _on_call(self, env, call):
        fn = call.func
        g = env.ghost
        q = self.p.resolve_expr(self.f.module, fn, self.f) if isinstance(fn, (ast.Name, ast.Attribute)) else None
        if q == 'io.BytesIO' and len(call.args) <= 1 and not call.keywords:
            s = fresh('sink')
            init = env.length(env.eval(call.args[0]), short(call.args[0], 30)) if call.args else Lin.const(0)
            g['sinks'] = {**g['sinks'], s: init}
            return Lin.atom(s)
        if isinstance(fn, ast.Attribute) and dotted(fn.value) != 'self':
            s = self.sink_of(env, fn.value)
            if s is not None and fn.attr == 'write' and len(call.args) == 1 and not call.keywords:
                g['sinks'] = {**g['sinks'], s: g['sinks'][s] + env.length(env.eval(call.args[0]), short(call.args[0], 30))}
                return NONE
            if s is not None and fn.attr == 'getvalue' and not call.args and not call.keywords:
                return Seq(g['sinks'][s])
            if s is not None:
                g['sinks'] = {**g['sinks'], s: Lin.atom(fresh('len(sink) after .%s()' % fn.attr, tainted=True))}
        if not (isinstance(fn, ast.Attribute) and dotted(fn.value) == 'self' and fn.attr in self.rd.methods):
            # a sink given to anything else: its content is no longer known
            for a in list(call.args) + [k.value for k in call.keywords]:
                s = self.sink_of(env, a)
                if s is not None:
                    g['sinks'] = {**g['sinks'], s: Lin.atom(fresh('len(sink) after %s' % short(call, 30), tainted=True))}
            return None
        callee = self.rd.methods[fn.attr]
        bound = _bind_call(callee, call)
        if bound is None:
            self.v.unknown('%s: arguments of `%s` not understood' % (self.f.qual, short(call, 50)))
            bound = {}
        vals = {k: env.eval(x) for k, x in bound.items()}
        res = fresh('result of %s()' % fn.attr)
        env.kind[res] = 'seq'
        R = Lin.atom(res)
        if fn.attr == '_normalize_size':
            # R5: the normalised size lies in [0, readable amount]; proved here (its own R12 obligation): <= size for size >= 0
            env.kind[res] = 'int'
            env.add_le(0, R)
            x = vals.get(CAP, next(iter(vals.values()), None))
            if isinstance(x, Lin) and env.prove_le(0, x) and not (x.lone() is not None and env.is_none.get(x.lone())):
                env.add_le(R, x)
            return R
        if fn.attr in _CAP_SINKS:
            dparam, cparam = _CAP_SINKS[fn.attr]
            s = vals.get(dparam)
            s = s.lone() if isinstance(s, Lin) else None
            if s in g['sinks']:
                c = vals.get(cparam)
                n = fresh('bytes written by %s()' % fn.attr)
                env.kind[n] = 'int'
                env.add_le(0, Lin.atom(n))
                if isinstance(c, Lin) and env.prove_le(0, c):
                    env.add_le(Lin.atom(n), c)
                self.known(env, n)
                g['sinks'] = {**g['sinks'], s: g['sinks'][s] + Lin.atom(n)}
        elif CAP in callee.params():
            c = vals.get(CAP)
            self.known(env, res)             # a read: its length is bounded by its cap, or genuinely unbounded
            if isinstance(c, Lin) and env.prove_le(0, c) and not (c.lone() is not None and env.is_none.get(c.lone())):
                env.add_le(Lin.atom(('len', res)), c)
        for a in list(call.args) + [k.value for k in call.keywords]:
            s = self.sink_of(env, a)
            if s is not None and fn.attr not in _CAP_SINKS:
                g['sinks'] = {**g['sinks'], s: Lin.atom(fresh('len(sink) after %s' % short(call, 30), tainted=True))}
        hv = [a for a in (BUF, BLEN, BPOS, BUDGET) if a in (self.rd.writes(fn.attr) or set())]
        if hv:
            env.havoc(hv, 'after %s' % fn.attr)
            for a in (BLEN, BPOS, BUDGET):
                if a in hv:
                    env.kind[env.vars[a].lone()] = 'nat' if a == BUDGET else 'int'
            self.invariants(env)
        return R

    # ------------------------------------------------------------ upper bounds
    def upper(self, env, e):
        """A linear upper bound of len(e), or None."""
        e = strip_await(e)
        if isinstance(e, ast.BinOp) and isinstance(e.op, ast.Add):
            a, b = self.upper(env, e.left), self.upper(env, e.right)
            return a + b if a is not None and b is not None else None
        if isinstance(e, ast.Name) and e.id in env.ghost['ub']:
            return env.ghost['ub'][e.id]
        if isinstance(e, ast.IfExp):
            d = env.decide(e.test)
            if d is not None:
                return self.upper(env, e.body if d else e.orelse)
        if isinstance(e, ast.Subscript) and isinstance(e.slice, ast.Slice) and e.slice.step is None and e.slice.upper is not None:
            lo = env.eval(e.slice.lower) if e.slice.lower is not None else Lin.const(0)
            hi = env.eval(e.slice.upper)
            if isinstance(lo, Lin) and isinstance(hi, Lin) and env.prove_le(0, lo) and env.prove_le(lo, hi):
                env.eval(e.value)
                return hi - lo            # len(x[lo:hi]) <= hi - lo for 0 <= lo <= hi, whatever len(x) is
        val = env.eval(e)
        if val is NONE:
            return None
        ln = env.length(val, short(e, 30))
        return ln if isinstance(ln, Lin) and not ln.tainted() else None

    def understood(self, env, ln):
        for a in ln.atoms():
            inner = a[1] if a[0] == 'len' else a
            while isinstance(inner, tuple) and inner and inner[0] in ('len', 'sub'):
                inner = inner[1]
            if a[0] in ('min', 'max'):
                continue
            if inner[0] == 'v' and (inner[1].startswith('self.') or inner[1] in self.params):
                continue
            if inner in env.ghost['known'] or env.kind.get(inner) in ('int', 'nat'):
                continue
            if a[0] != 'len' and inner[0] == 'sym':
                continue            # a number of unknown value
            return False
        return True

    # ------------------------------------------------------------------ driver
    def on_node(self, env, n, label):
        env.ghost['callmemo'] = {}
        if label == 'exc' or n.kind != 'stmt':
            return
        s = n.ast
        if isinstance(s, (ast.Assign, ast.AnnAssign, ast.AugAssign)):
            ub = dict(env.ghost['ub'])
            tg = s.targets if isinstance(s, ast.Assign) else [s.target]
            for x in ast.walk(s):
                if isinstance(x, ast.Name) and isinstance(x.ctx, ast.Store):
                    ub.pop(x.id, None)
            if not isinstance(s, ast.AugAssign) and getattr(s, 'value', None) is not None and len(tg) == 1 and isinstance(tg[0], ast.Name) \
                    and isinstance(s.value, (ast.Subscript, ast.BinOp)):
                u = self.upper(env, s.value)
                if u is not None:
                    ub[tg[0].id] = u
            env.ghost['ub'] = ub
        if isinstance(s, ast.Return) and s.value is not None:
            cap = env.var(CAP)
            if self.f.name == '_normalize_size':
                val = env.eval(s.value)
                ok = isinstance(val, Lin) and env.prove_le(val, cap)
                self.v.note(self.f, 'normalised size @%s' % unparse(s), 'for a non-negative size the normalised size does not exceed it', ok, s,
                            'the normalised size is %r, not provably <= size' % (val,), self.wit,
                            'read(3) on a 10-byte stream is normalised to more than 3 bytes')
                return
            u = self.upper(env, s.value)
            if u is None:
                self.v.unknown('%s: length of `%s` not understood (%s)' % (self.f.qual, short(s.value, 50), '; '.join(env.notes[-2:])))
                return
            ok = env.prove_le(u, cap)
            if not ok and not self.understood(env, u - cap):
                self.v.unknown('%s: `%s` is %r byte(s) long, which the rule cannot relate to the cap' % (self.f.qual, short(s.value, 50), u))
                return
            self.v.note(self.f, 'cap @%s' % unparse(s), 'a read with a non-negative size returns at most `size` bytes (callees of the reader are bounded by '
                        'their own caps)', ok, s, 'up to %r byte(s) are returned for a cap of %r; not provably within the cap' % (u, cap), self.wit,
                        'BufferedReader over b"Hello\\nabc\\nxyz\\n": readline() -> b"Hello\\n", then readline(3) returns b"abc\\n" (4 bytes) instead of b"abc"; '
                        'every later operation is shifted by one byte')

    def execute(self):
        cfg = self.cfg
        for start, steps, end in segments(cfg):
            if end == cfg.xexit:
                continue
            if start != cfg.entry:
                if any(cfg.node(n).kind == 'stmt' and isinstance(cfg.node(n).ast, ast.Return) and cfg.node(n).ast.value is not None for (n, _l) in steps):
                    self.v.unknown('%s: a return inside / behind a loop is not followed' % self.f.qual)
                continue
            self.wit = flow.describe_path(cfg, [s[0] for s in steps])
            for e in _run_steps(self.start_env(), cfg, steps, self.on_node):
                pass


def r12_size_cap(run):
    """Synchronous reader: size >= 0 ==> every read-like method returns at most `size` bytes."""
    p = run.project
    rd = Reader(p, SYNC)
    require_attrs(p, SYNC, [BUDGET, SOURCE_FN])
    v = Verdicts(run)
    for name in list(_CAP_ASSUMED) + list(_CAP_SINKS):
        if name not in rd.methods:
            raise AnchorError('%s.%s not found (assumed contract of the size-cap rule)' % (SYNC, name))
    run.assume('C14 R12: contract of every synchronous reader method with a `size` parameter: size >= 0 ==> len(result) <= size. Proved per method from the '
               'contracts of the reader methods it calls; taken as given for: ' + '; '.join('%s (%s)' % kv for kv in sorted(_CAP_ASSUMED.items()))
               + '; pipe_until writes at most `_size` bytes to its destination; the source callable returns at most the number of bytes it is asked for')
    todo = [f for name, f in sorted(rd.methods.items()) if CAP in f.params() and name not in _CAP_ASSUMED and name != '__init__']
    if len(todo) < 4:
        raise AnchorError('%s: fewer than 4 methods take a `size` cap' % SYNC)
    for f in todo:
        _CapModel(run, v, rd, f).execute()
    v.flush()


# ---------------------------------------------------------------------------
# R13 the cursor stays inside the buffer: 0 <= _buffer_pos <= _buffer_len is preserved by every acyclic path of every
# method that stores the cursor / the buffer / its cached length (the side condition R1, R5, R6-R10 and R12 assume).
# In particular a cursor stored after the buffer was REPLACED by freshly read data (whose length only the source decides)
# must be clamped to / guarded by the new length (finding F20).
# ---------------------------------------------------------------------------

_R13_STALE_RW = ('asgi BufferedReader over b"0123456789abcdef": read(1); read(2); exhaust() -> tell() is 18 on a 16-byte stream and eof stays '
                 'False for good (_buffer_len == 0 < _buffer_pos)')


def _r13_method(run, v, rd, f, skipped, invariants=None, decide_stale=False):
    """invariants: {loop head: candidate names} proved by _StreamModel.infer_invariants() (assumed at a segment that starts at that head).
    decide_stale: a PUBLIC method that stores the buffer / its cached length on a path that leaves the cursor untouched, where
    `_buffer_pos <= _buffer_len` would have to follow from the state the method was entered with (no parameter, no data of the source
    and no result of another method in the difference) and does not, is a violation: no caller can supply the relation - every state
    that satisfies the class invariant is an entry state of a public operation."""
    p = run.project
    cfg = cfg_of(f, p)
    run.use_cfg(cfg)
    invariants = invariants or {}
    what = '0 <= %s <= %s is preserved (the cursor never leaves the buffered data)' % (BPOS.split('.')[1], BLEN.split('.')[1])
    src_methods = {n for n, g in rd.methods.items() if n != '__init__' and any(
        isinstance(x, ast.Attribute) and dotted(x) == SOURCE_FN and isinstance(x.ctx, ast.Load) for x in walk_self(g.node))}

    def check(env, at, wit=None):
        pos, ln = env.eval(_E_BPOS), env.eval(_E_BLEN)
        last = env.ghost.get('last', f.name)
        if not (isinstance(pos, Lin) and isinstance(ln, Lin)):
            v.unknown('%s: %s / %s is not a number %s' % (f.qual, BPOS, BLEN, at))
            return
        fresh_lens = {('len', a) for a in env.ghost.get('fresh_data', ())}
        for lo, hi, text in ((Lin.const(0), pos, '0 <= %s' % BPOS), (pos, ln, '%s <= %s' % (BPOS, BLEN))):
            d = hi - lo
            if env.prove_le(lo, hi):
                v.note(f, 'cursor in buffer', what, True, last)
                continue
            if d.tainted():
                v.unknown('%s: %s %s: %s' % (f.qual, text, at, '; '.join(env.notes[-2:]) or repr(d)))
                continue
            # the bound rests on the length of data read from the source on this path, which only the source decides: no relation between
            # parameters / earlier state that the callers establish can supply it
            hinges = sorted(atom_text(a) for a, k in d.t.items() if a in fresh_lens and k > 0)
            entry = env.ghost.get('entry')
            if decide_stale and entry is not None and lo is pos and not f.name.startswith('_') and pos == entry[0] and ln != entry[1] \
                    and set(d.atoms()) <= entry[2]:
                v.note(f, 'cursor in buffer', what, False, last,
                       '%s: %s is not provable %s (difference %r): the buffer / its cached length is replaced on this path while %s keeps the value '
                       'that belonged to the old buffer, and the entry state of a public method is only bound by the class invariant'
                       % (f.name, text, at, d, BPOS), wit, _R13_STALE_RW)
                continue
            if hinges and not env.ghost.get('content_tested'):
                v.note(f, 'cursor in buffer', what, False, last,
                       '%s: %s is not provable %s (difference %r): the buffer holds freshly read data and nothing on this path relates the cursor to how '
                       'much the source delivered (%s)' % (f.name, text, at, d, ', '.join(hinges)), wit,
                       'a delimited sub-reader whose source ends early: _read() leaves _buffer_pos > _buffer_len, _normalize_size() goes negative, a nested '
                       'delimit() gets a negative budget and read_until() on it never returns')
                continue
            skipped.add('%s: %s %s rests on a relation the callers / callees establish (%r)' % (f.qual, text, at, d))

    def on_call(env, call):
        fn = call.func
        if isinstance(fn, ast.Attribute) and dotted(fn.value) == 'self' and fn.attr in rd.methods:
            callee = rd.methods[fn.attr]
            if decide_stale and _inlinable(callee, call) and {BUF, BLEN, BPOS} & _stores(callee):
                # a parameterless straight-line helper (_trim_buffer) is executed in place: what it stores is stored on this path
                for s in callee.node.body:
                    if isinstance(s, ast.Expr) and isinstance(s.value, ast.Constant):
                        continue
                    env.exec(s)
                    if isinstance(s, (ast.Assign, ast.AugAssign, ast.AnnAssign)):
                        tg = s.targets if isinstance(s, ast.Assign) else [s.target]
                        if any(dotted(t) in (BPOS, BLEN) for t in tg):
                            env.ghost['last'] = call
                return NONE
            for a in list(call.args) + [k.value for k in call.keywords]:
                env.eval(a.value if isinstance(a, ast.Starred) else a)
            w = rd.writes(fn.attr) or set()
            touches = bool({BUF, BLEN, BPOS} & (w | rd.mentions(fn.attr)))
            if touches:
                check(env, 'when %s() is called' % fn.attr)
            hv = [a for a in (BUF, BLEN, BPOS, BUDGET) if a in w]
            if hv:
                env.havoc(hv, 'after %s' % fn.attr)
                nb = env.vars[BUF].lone() if BUF in env.vars and isinstance(env.vars[BUF], Lin) else None
                if BUF in hv and nb is not None:
                    env.kind[nb] = 'seq'
                for a in (BLEN, BPOS, BUDGET):
                    if a in hv:
                        env.kind[env.vars[a].lone()] = 'int'
                env.add_eq(env.eval(_E_BLEN), env.length(env.eval(_E_BUF), BUF))      # the callee preserves the invariants (its own obligation)
                env.add_le(0, env.eval(_E_BPOS))
                env.add_le(env.eval(_E_BPOS), env.eval(_E_BLEN))
            r = fresh('result of ' + short(call, 30))
            env.kind[r] = 'seq'
            if fn.attr in src_methods:
                env.ghost['fresh_data'] = env.ghost.get('fresh_data', frozenset()) | {r}
            return Lin.atom(r)
        return None

    def on_node(env, n, label):
        if label == 'exc':
            return
        if n.kind == 'test' and env.ghost.get('fresh_data'):
            # a test on the CONTENT of the fresh data may justify a cursor position the linear facts cannot express
            inside_len = {id(y) for x in n.walk() if isinstance(x, ast.Call) and isinstance(x.func, ast.Name) and x.func.id == 'len' for a in x.args for y in ast.walk(a)}
            for x in n.walk():
                if isinstance(x, (ast.Name, ast.Attribute)) and id(x) not in inside_len and dotted(x) is not None and isinstance(getattr(x, 'ctx', None), ast.Load):
                    val = env.vars.get(dotted(x))
                    if isinstance(val, Lin) and val.lone() in env.ghost['fresh_data']:
                        env.ghost['content_tested'] = True
        if n.kind == 'stmt' and any(isinstance(x, (ast.Yield, ast.YieldFrom)) for x in n.walk()):
            check(env, 'at `%s`' % short(n.ast, 40))
        if n.kind == 'stmt' and isinstance(n.ast, (ast.Assign, ast.AugAssign, ast.AnnAssign)):
            tg = n.ast.targets if isinstance(n.ast, ast.Assign) else [n.ast.target]
            if any(dotted(t) in (BPOS, BLEN) for t in tg):
                env.ghost['last'] = n.ast

    def touches(n):
        if n.kind not in ('stmt', 'test', 'iter', 'with'):
            return False
        for x in n.walk():
            if isinstance(x, ast.Attribute) and isinstance(x.ctx, (ast.Store, ast.Del)) and dotted(x) in (BUF, BLEN, BPOS):
                return True
            if isinstance(x, ast.Call) and isinstance(x.func, ast.Attribute) and dotted(x.func.value) == 'self' and x.func.attr in rd.methods:
                return True
        return False

    moving = {n.id for n in cfg.live_nodes() if touches(n)}
    for start, steps, end in segments(cfg):
        if end == cfg.xexit or not any(nid in moving for (nid, _l) in steps):
            continue            # (a path that neither stores the fields nor calls a reader method leaves the invariant as it found it)
        env = _start_env(rd, f, on_call, assume_inv=not (f.name == '__init__' and start == cfg.entry))
        env.declare(CHUNK, 'nat')
        for c in sorted(invariants.get(start, ())):
            a, b = _CANDIDATES[c](env)
            env.add_eq(a, b)
        if not (f.name == '__init__' and start == cfg.entry):
            p0, l0 = env.eval(_E_BPOS), env.eval(_E_BLEN)
            if isinstance(p0, Lin) and isinstance(l0, Lin):
                env.ghost['entry'] = (p0, l0, frozenset(p0.atoms()) | frozenset(l0.atoms()))
        wit = flow.describe_path(cfg, [s[0] for s in steps])
        for e in _run_steps(env, cfg, steps, on_node):
            if any(k == 'raise' for k, _v, _n in e.log):
                continue
            check(e, 'at the end of the path', wit)


def r13_cursor_in_buffer(run):
    v = Verdicts(run)
    run.assume('C14 R13: a parameter named <x>_len next to <x> is len(<x>) (R1); callees preserve 0 <= _buffer_pos <= _buffer_len == len(_buffer) '
               '(their own obligation). Decided: paths on which the bound follows from the entry invariant and the path facts (holds), and paths on which it '
               'could only follow from the LENGTH of data read from the source on that path (violation: only the source decides it). Paths on which it '
               'rests on a relation between parameters / results of other reader methods (a normalised size, a verified delimiter position, peek() == '
               'delimiter) are value-level and listed under c14_r13_not_decided')
    rd = Reader(run.project, SYNC)
    require_attrs(run.project, SYNC, [SOURCE_FN])
    n, skipped = 0, set()
    for name, f in sorted(rd.methods.items()):
        if {BUF, BLEN, BPOS} & _stores(f):
            _r13_method(run, v, rd, f, skipped)
            n += 1
    if n < 4:
        raise AnchorError('%s: fewer than 4 methods store the cursor / the buffer' % SYNC)
    # the asynchronous reader (added after seeded change s8-c14-3: exhaust() emptied the buffer and left the cursor alone): the same
    # invariant on every acyclic path of every method that stores one of the three fields, with the loop invariants of R8's model
    # ("cursor at 0" / "buffer drained" where they are inductive) and parameterless straight-line helpers executed in place
    ard = Reader(run.project, ASYNC)
    na = 0
    for name, f in sorted(ard.methods.items()):
        inl = {c.func.attr for c in walk_self(f.node) if isinstance(c, ast.Call) and isinstance(c.func, ast.Attribute) and dotted(c.func.value) == 'self'
               and c.func.attr in ard.methods and _inlinable(ard.methods[c.func.attr], c) and {BUF, BLEN, BPOS} & _stores(ard.methods[c.func.attr])}
        if {BUF, BLEN, BPOS} & _stores(f) or inl:
            inv = _StreamModel(run, Verdicts(run), ard, f, 'R8').infer_invariants() if name != '__init__' else {}
            _r13_method(run, v, ard, f, skipped, invariants=inv, decide_stale=True)
            na += 1
    if na < 4:
        raise AnchorError('%s: fewer than 4 methods store the cursor / the buffer' % ASYNC)
    import re as _re
    run.extra['c14_r13_not_decided'] = sorted({_re.sub(r'#\d+', '', x) for x in skipped})
    v.flush()


# ---------------------------------------------------------------------------
# R14 a delimited sub-reader runs with its parent's chunk size (added after
# seeded change s7-c14-1)
# ---------------------------------------------------------------------------
# "every buffer size ... including on nested delimited sub-readers": what
# peek() may return, how far a sub-reader reads ahead, and the [1, chunk_size]
# delimiter-length contract of nested read_until()/delimit() calls all depend on
# `_chunk_size`.  A reader that builds another reader of its own class
# (`type(self)(...)` / `self.__class__(...)` / the class by name - delimit()) has
# to hand its own `self._chunk_size` to the constructor parameter that
# __init__ stores in `_chunk_size` (found by def-use, positionally or by
# keyword, directly or through a local bound to it).  Leaving the parameter out
# (the 32 KiB default), None or a constant is a violation: with
# BufferedReader(read, n, chunk_size=2), delimit(b'--').peek(-1) returns more
# than 2 bytes where the flat cursor gives 2.  Arithmetic on the parent's size is
# an unknown idiom.

def _chunk_param(rd):
    init = rd.methods.get('__init__')
    if init is None:
        raise AnchorError('%s.__init__ not found' % rd.qual)
    ps = [a for a in init.params() if a != 'self']
    srcs = []
    for n in walk_self(init.node):
        if isinstance(n, (ast.Assign, ast.AnnAssign)) and n.value is not None:
            tgts = n.targets if isinstance(n, ast.Assign) else [n.target]
            if any(dotted(t) == CHUNK for t in tgts):
                srcs.append(n)
    if len(srcs) != 1:
        raise AnchorError('%s.__init__: expected one assignment of %s, found %d' % (rd.qual, CHUNK, len(srcs)))
    used = [x.id for x in ast.walk(srcs[0].value) if isinstance(x, ast.Name) and x.id in ps]
    if len(set(used)) != 1:
        raise UnknownIdiom('%s.__init__: %s is computed from %s' % (rd.qual, CHUNK, sorted(set(used)) or 'no parameter'))
    return init, ps, used[0]


def _is_own_class(p, f, rd, e):
    if isinstance(e, ast.Call) and isinstance(e.func, ast.Name) and e.func.id == 'type' and len(e.args) == 1 and dotted(e.args[0]) == 'self':
        return True
    if dotted(e) == 'self.__class__':
        return True
    if isinstance(e, ast.Name):
        binds = [n.value for n in walk_self(f.node) if isinstance(n, ast.Assign) and len(n.targets) == 1 and dotted(n.targets[0]) == e.id]
        if len(binds) == 1:
            return _is_own_class(p, f, rd, binds[0])
    if isinstance(e, (ast.Name, ast.Attribute)):
        return p.resolve_expr(f.module, e, f) == rd.qual
    return False


def _inert_params(p, f):
    """{parameter: default expression} for the parameters of method f that have a default and that NO call in the analysed package
    passes (k2-c14-4: `delimit(delimiter, *, chunk_size=None)`): calls are matched by method name on any receiver; a call with
    * / ** arguments, a keyword of that name, enough positional arguments to reach it, or a use of the method name as a value
    (bound-method alias, functools.partial) makes the parameter live."""
    a = f.node.args
    pos = [x.arg for x in a.posonlyargs + a.args]
    if pos and pos[0] in ('self', 'cls'):
        pos = pos[1:]
    defaults = dict(zip(pos[len(pos) - len(a.defaults):], a.defaults)) if a.defaults else {}
    defaults.update({x.arg: d for x, d in zip(a.kwonlyargs, a.kw_defaults) if d is not None})
    if not defaults or a.vararg or a.kwarg:
        return {}
    live = set()
    for m in p.modules.values():
        called = set()
        for n in ast.walk(m.tree):
            if isinstance(n, ast.Call) and isinstance(n.func, (ast.Attribute, ast.Name)) and (n.func.attr if isinstance(n.func, ast.Attribute) else n.func.id) == f.name:
                called.add(id(n.func))
                if any(isinstance(x, ast.Starred) for x in n.args) or any(k.arg is None for k in n.keywords):
                    return {}
                live |= {k.arg for k in n.keywords} | set(pos[:len(n.args)])
        for n in ast.walk(m.tree):
            if id(n) not in called and ((isinstance(n, ast.Attribute) and n.attr == f.name and isinstance(n.ctx, ast.Load))
                                        or (isinstance(n, ast.Name) and n.id == f.name and isinstance(n.ctx, ast.Load))
                                        or (isinstance(n, ast.Constant) and n.value == f.name)):
                return {}
    return {k: d for k, d in defaults.items() if k not in live}


def _under_defaults(f, e, inert):
    """Expression e of method f with every never-passed parameter (never re-bound in f) read as its constant default: `<falsy> or x` /
    `x if <param> is None else ...` / `... if <param> else x` reduce to the operand that is evaluated."""
    stores = {n.id for n in walk_self(f.node) if isinstance(n, ast.Name) and isinstance(n.ctx, (ast.Store, ast.Del))}
    consts = {k: d.value for k, d in inert.items() if isinstance(d, ast.Constant) and k not in stores}

    def const(x):
        if isinstance(x, ast.Constant):
            return True, x.value
        if isinstance(x, ast.Name) and x.id in consts:
            return True, consts[x.id]
        if isinstance(x, ast.UnaryOp) and isinstance(x.op, ast.Not):
            k, v = const(x.operand)
            return (True, not v) if k else (False, None)
        if isinstance(x, ast.Compare) and len(x.ops) == 1 and isinstance(x.ops[0], (ast.Is, ast.IsNot, ast.Eq, ast.NotEq)):
            (ka, va), (kb, vb) = const(x.left), const(x.comparators[0])
            if ka and kb and (va is None or vb is None or isinstance(x.ops[0], (ast.Eq, ast.NotEq))):
                same = (va is vb) if (va is None or vb is None) else (va == vb and type(va) is type(vb))
                return True, same == isinstance(x.ops[0], (ast.Is, ast.Eq))
        return False, None

    def red(x):
        if isinstance(x, ast.Name) and x.id in consts:
            return ast.copy_location(ast.Constant(consts[x.id]), x)
        if isinstance(x, ast.BoolOp):
            vals = [red(v) for v in x.values]
            for i, v in enumerate(vals):
                k, c = const(v)
                if not k:
                    return v if i == len(vals) - 1 else x       # the first operand that is not a known constant decides from there on
                if bool(c) == isinstance(x.op, ast.Or) or i == len(vals) - 1:
                    return v
            return x
        if isinstance(x, ast.IfExp):
            k, c = const(red(x.test))
            if k:
                return red(x.body if c else x.orelse)
        return x

    return red(e)


def r14_subreader_chunk_size(run):
    p = run.project
    n_sites = 0
    inert_of = {}
    for qual in (SYNC, ASYNC):
        rd = Reader(p, qual)
        init, ps, cparam = _chunk_param(rd)
        run.use(init)
        sites = 0
        for name, f in sorted(rd.methods.items()):
            if f is init:
                continue
            for c in walk_self(f.node):
                if not (isinstance(c, ast.Call) and _is_own_class(p, f, rd, c.func)):
                    continue
                run.use(f)
                sites += 1
                if any(isinstance(a, ast.Starred) for a in c.args) or any(k.arg is None for k in c.keywords):
                    raise UnknownIdiom('%s: %s' % (f.qual, short(c, 80)))
                given = dict(zip(ps, c.args))
                given.update({k.arg: k.value for k in c.keywords})
                arg = given.get(cparam)
                what = '%s: a reader built by a reader (delimited sub-reader) is constructed with its parent\'s chunk size: the `%s` ' \
                       'argument is %s' % (qual.split('.')[-2] + '.' + name, cparam, CHUNK)
                rw = 'BufferedReader(source, chunk_size=2).delimit(b"--").peek(-1) returns more than 2 bytes (the flat cursor gives 2); a nested ' \
                     'delimiter longer than the parent\'s chunk is accepted'
                verdict = None
                a = arg
                if isinstance(a, ast.Name):
                    binds = [n.value for n in walk_self(f.node) if isinstance(n, ast.Assign) and len(n.targets) == 1 and dotted(n.targets[0]) == a.id]
                    if len(binds) == 1 and a.id not in f.params():
                        a = binds[0]
                if a is not None and any(isinstance(x, ast.Name) and x.id in f.params() for x in ast.walk(a)):
                    # an optional parameter that no caller in the package passes is its default in every call falcon makes
                    inert = inert_of.get(f.qual)
                    if inert is None:
                        inert = inert_of[f.qual] = _inert_params(p, f)
                    a = _under_defaults(f, a, inert)
                if a is None:
                    verdict = False                  # left out: the constructor's default
                elif dotted(a) == CHUNK:
                    verdict = True
                elif isinstance(a, ast.Constant):
                    verdict = False                  # None / a number: not the parent's
                elif isinstance(a, ast.Name) and a.id not in f.params() and a.id in f.module.consts:
                    verdict = False                  # a module constant (DEFAULT_CHUNK_SIZE)
                if verdict is None:
                    raise UnknownIdiom('%s: chunk size of the sub-reader is %s' % (f.qual, short(arg, 60)))
                run.check(verdict, what, f, c, where=f.loc(c), runtime_witness=rw,
                          witness=None if verdict else ['%s = %s' % (cparam, 'not passed (the constructor default)' if arg is None else short(arg, 60))])
        if not sites:
            raise AnchorError('%s: no method constructs a sub-reader of its own class (delimit)' % qual)
        n_sites += sites
    run.extra['c14_subreader_sites'] = n_sites


# ---------------------------------------------------------------------------
# R15 the budget a reader starts with is the declared maximum length - for
# EVERY declared length, 0 included (added after seeded change s8-c14-2:
# `max_stream_len or sys.maxsize` lumped a declared length of 0 together with
# an absent one)
# ---------------------------------------------------------------------------
# "Reads never exceed the declared maximum length" (R2 keeps every source read
# within `_max_bytes_remaining`) starts from the constructor: the budget stored
# there must BE the declared length.  0 is a legitimate declared length
# (Content-Length: 0 on a keep-alive connection: the bytes that follow belong
# to the next request), and it is falsy: a default for "no length given" that
# is chosen by truthiness (`x or BIG`, `x if x else BIG`, `if not x:`) turns it
# into "unbounded".  Decided by evaluating the constructor (a small concrete
# evaluator; anything it does not read is opaque) with the length parameter -
# the one constructor parameter the stored budget is computed from, by def-use -
# bound to 0, 1 and 5: on every path the budget stored must equal the argument.
# What happens for None (no declared length: not part of today's signature) is
# listed in the evidence and not judged.

_R15_RW = ('BufferedReader(BytesIO(b"smuggled\\n").read, 0): read(4) -> b"smug" where the cursor over data[:0] gives b"" '
           '(bytes behind a Content-Length: 0 request are handed to the application)')
_R15_DOMAIN = (0, 1, 5)
_R15_OPAQUE = type('_Opaque', (), {'__repr__': lambda self: '<opaque>'})()
_R15_PURE = ('min', 'max', 'int', 'abs', 'bool', 'float', 'len')


class _Init:
    """Concrete evaluation of a constructor body: parameters bound to given values (others opaque), `self.<attr>` stores recorded.
    An undecidable test forks; a statement kind it does not know makes the names / attributes it stores opaque."""

    def __init__(self, p, f):
        self.p, self.f = p, f

    def ev(self, e, env):
        import operator
        O = _R15_OPAQUE
        if isinstance(e, ast.Constant):
            return e.value
        if isinstance(e, ast.Name):
            if e.id in env:
                return env[e.id]
            v = self.p.fold(self.f.module, e, None, self.f)
            return v if isinstance(v, (int, float, str, bytes, bool, type(None))) else O
        if isinstance(e, ast.Attribute):
            d = dotted(e)
            if d is not None and d in env:
                return env[d]
            q = self.p.resolve_expr(self.f.module, e, self.f)
            if q == 'sys.maxsize':
                import sys
                return sys.maxsize
            if q in ('math.inf',):
                return float('inf')
            v = self.p.fold(self.f.module, e, None, self.f)
            return v if isinstance(v, (int, float, str, bytes, bool, type(None))) else O
        if isinstance(e, ast.BoolOp):
            v = None
            for x in e.values:
                v = self.ev(x, env)
                if v is O:
                    return O
                if bool(v) != isinstance(e.op, ast.And):
                    return v
            return v
        if isinstance(e, ast.UnaryOp):
            v = self.ev(e.operand, env)
            if v is O:
                return O
            try:
                return {ast.Not: operator.not_, ast.USub: operator.neg, ast.UAdd: operator.pos, ast.Invert: operator.invert}[type(e.op)](v)
            except Exception:  # noqa: BLE001
                return O
        if isinstance(e, ast.IfExp):
            t = self.ev(e.test, env)
            if t is O:
                a, b = self.ev(e.body, env), self.ev(e.orelse, env)
                return a if (a is not O and b is not O and type(a) is type(b) and a == b) else O
            return self.ev(e.body if t else e.orelse, env)
        if isinstance(e, ast.Compare):
            left = self.ev(e.left, env)
            for op, ce in zip(e.ops, e.comparators):
                right = self.ev(ce, env)
                if left is O or right is O:
                    return O
                try:
                    if isinstance(op, (ast.Is, ast.IsNot)):
                        if not (left is None or right is None or isinstance(left, bool) or isinstance(right, bool)):
                            return O
                        t = (left is right) == isinstance(op, ast.Is)
                    else:
                        fn = {ast.Eq: operator.eq, ast.NotEq: operator.ne, ast.Lt: operator.lt, ast.LtE: operator.le, ast.Gt: operator.gt,
                              ast.GtE: operator.ge}.get(type(op))
                        if fn is None:
                            return O
                        t = fn(left, right)
                except Exception:  # noqa: BLE001
                    return O
                if not t:
                    return False
                left = right
            return True
        if isinstance(e, ast.BinOp):
            l, r = self.ev(e.left, env), self.ev(e.right, env)
            fn = {ast.Add: operator.add, ast.Sub: operator.sub, ast.Mult: operator.mul, ast.FloorDiv: operator.floordiv,
                  ast.Mod: operator.mod, ast.Pow: operator.pow, ast.LShift: operator.lshift}.get(type(e.op))
            if l is O or r is O or fn is None or not all(isinstance(x, (int, float)) and not isinstance(x, bool) for x in (l, r)):
                return O
            if isinstance(e.op, (ast.Pow, ast.LShift)) and not (isinstance(r, int) and 0 <= r <= 128):
                return O
            try:
                return fn(l, r)
            except Exception:  # noqa: BLE001
                return O
        if isinstance(e, ast.Call) and isinstance(e.func, ast.Name) and e.func.id in _R15_PURE and e.func.id not in env and not e.keywords \
                and self.p.resolve_expr(self.f.module, e.func, self.f) == 'builtins.' + e.func.id:
            args = [self.ev(a, env) for a in e.args if not isinstance(a, ast.Starred)]
            if len(args) != len(e.args) or any(a is O for a in args):
                return O
            import builtins
            try:
                return getattr(builtins, e.func.id)(*args)
            except Exception:  # noqa: BLE001
                return O
        if isinstance(e, ast.NamedExpr) and isinstance(e.target, ast.Name):
            v = self.ev(e.value, env)
            env[e.target.id] = v
            return v
        return O

    def bind(self, t, v, env):
        d = dotted(t) if isinstance(t, (ast.Name, ast.Attribute)) else None
        if d is not None:
            env[d] = v
        else:
            self.havoc(t, env)

    @staticmethod
    def havoc(node, env):
        for x in ast.walk(node):
            if isinstance(x, (ast.Name, ast.Attribute)) and isinstance(getattr(x, 'ctx', None), (ast.Store, ast.Del)) and dotted(x) is not None:
                env[dotted(x)] = _R15_OPAQUE

    def block(self, stmts, envs):
        """-> environments that reach the end of the block; finished ones (return / raise) are appended to self.done"""
        for s in stmts:
            nxt = []
            for env in envs:
                nxt += self.stmt(s, env)
            envs = nxt
            if len(envs) > 64:
                raise UnknownIdiom('%s: too many paths' % self.f.qual)
        return envs

    def stmt(self, s, env):
        if isinstance(s, ast.Assign):
            v = self.ev(s.value, env)
            for t in s.targets:
                self.bind(t, v, env)
            return [env]
        if isinstance(s, ast.AnnAssign):
            if s.value is not None:
                self.bind(s.target, self.ev(s.value, env), env)
            return [env]
        if isinstance(s, ast.AugAssign):
            d = dotted(s.target)
            cur = env.get(d, _R15_OPAQUE) if d else _R15_OPAQUE
            tmp = dict(env)
            tmp['$cur'] = cur
            v = self.ev(ast.BinOp(left=ast.Name(id='$cur', ctx=ast.Load()), op=s.op, right=s.value), tmp)
            self.bind(s.target, v, env)
            return [env]
        if isinstance(s, ast.If):
            t = self.ev(s.test, env)
            out = []
            for truth in ((True, False) if t is _R15_OPAQUE else (bool(t),)):
                out += self.block(s.body if truth else s.orelse, [dict(env)])
            return out
        if isinstance(s, ast.Return):
            self.done.append(('return', env))
            return []
        if isinstance(s, ast.Raise):
            self.done.append(('raise', env))
            return []
        if isinstance(s, (ast.Expr, ast.Pass, ast.Assert, ast.Import, ast.ImportFrom)):
            if isinstance(s, ast.Expr):
                for x in ast.walk(s.value):
                    if isinstance(x, ast.NamedExpr):
                        self.havoc(x, env)
            return [env]
        # loops, try, with, ...: whatever they store is no longer known
        self.havoc(s, env)
        return [env]

    def run(self, bound):
        a = self.f.node.args
        env = {x.arg: _R15_OPAQUE for x in a.posonlyargs + a.args + a.kwonlyargs}
        env.update(bound)
        self.done = []
        ends = self.block(self.f.node.body, [env])
        return [e for k, e in self.done if k == 'return'] + ends, [e for k, e in self.done if k == 'raise']


def _budget_param(rd):
    """the constructor parameter the stored budget is computed from (def-use through once-bound locals)"""
    init = rd.methods.get('__init__')
    if init is None:
        raise AnchorError('%s.__init__ not found' % rd.qual)
    ps = [a for a in init.params() if a != 'self']
    stores = [n for n in walk_self(init.node) if isinstance(n, (ast.Assign, ast.AnnAssign, ast.AugAssign)) and getattr(n, 'value', None) is not None
              and any(dotted(t) == BUDGET for t in (n.targets if isinstance(n, ast.Assign) else [n.target]))]
    if not stores:
        raise AnchorError('%s.__init__ does not store %s' % (rd.qual, BUDGET))
    names, todo, seen = set(), [s.value for s in stores], set()
    # the tests that decide which store runs belong to the computation too
    for st in ast.walk(init.node):
        if isinstance(st, ast.If) and any(s2 is x for s2 in stores for x in ast.walk(st)):
            todo.append(st.test)
    while todo:
        e = todo.pop()
        for x in ast.walk(e):
            if isinstance(x, ast.Name) and isinstance(x.ctx, ast.Load) and x.id not in seen:
                seen.add(x.id)
                if x.id in ps:
                    names.add(x.id)
                for n in walk_self(init.node):
                    if isinstance(n, (ast.Assign, ast.AnnAssign)) and n.value is not None and \
                            any(dotted(t) == x.id for t in (n.targets if isinstance(n, ast.Assign) else [n.target])):
                        todo.append(n.value)
    if len(names) != 1:
        raise UnknownIdiom('%s.__init__: %s is computed from %s' % (rd.qual, BUDGET, sorted(names) or 'no parameter'))
    return init, names.pop(), stores


def r15_declared_length_is_the_budget(run):
    """Sync reader: for every declared length n >= 0 - 0 included - the constructor stores n as the initial budget; a default for
    "no length" chosen by truthiness (`max_stream_len or BIG`) is a violation.  W: BufferedReader(read, 0).read(4) returns 4 bytes."""
    p = run.project
    rd = Reader(p, SYNC)
    require_attrs(p, SYNC, [BUDGET])
    init, param, stores = _budget_param(rd)
    run.use(init)
    model = _Init(p, init)
    cons = stores[-1]
    for n in _R15_DOMAIN:
        ends, raised = model.run({param: n})
        if not ends:
            raise UnknownIdiom('%s: no path of the constructor completes for %s=%r' % (init.qual, param, n))
        vals = []
        for env in ends:
            v = env.get(BUDGET, _R15_OPAQUE)
            if v is _R15_OPAQUE or isinstance(v, bool) or not isinstance(v, (int, float)):
                raise UnknownIdiom('%s: the budget stored for %s=%r is not read (%r)' % (init.qual, param, n, v))
            vals.append(v)
        bad = sorted({v for v in vals if v != n})
        run.check(not bad, 'a reader declared with %s=%d starts with a budget of exactly %d byte(s)%s' % (
            param, n, n, ' (0 is a declared length, not "no length")' if n == 0 else ''), init, cons, where=init.loc(cons),
            witness=['%s=%r -> %s = %s' % (param, n, BUDGET, ' / '.join(repr(b) for b in bad))] if bad else None, runtime_witness=_R15_RW)
    # not judged: no declared length
    try:
        ends, _raised = model.run({param: None})
        run.extra['c14_r15_no_length'] = sorted({repr(env.get(BUDGET, _R15_OPAQUE)) for env in ends})
    except UnknownIdiom:
        run.extra['c14_r15_no_length'] = ['not read']


# ---------------------------------------------------------------------------
# R16 peek(): the window [cursor, cursor + n) with n decided by the size partition (added after the auto-mutation seeds sa-am006xx /
# sa-am0315x-0316x / sa-am03245: one flipped comparison / dropped operand / changed default in peek's normalisation)
# ---------------------------------------------------------------------------
# peek(size) of the flat cursor returns data[pos : pos + n] where n = chunk_size for a negative size (the default -- "as much as one
# chunk") and for a size above chunk_size, and n = size for 0 <= size <= chunk_size; it is shorter than n only at the end of the
# stream.  Decided per cell of the size partition {default, -1, < -1, 0, [1, chunk_size], > chunk_size} with the linear evaluator
# (chunk_size >= 1):
#   (a) the slice returned starts at the cursor (offset _buffer_pos of the buffer as it is at the return; a loop over the source is
#       entered with the cursor at 0 only if that is an inductive invariant);
#   (b) its width is the n of the cell.  Behind a loop the width must be a parameter / local that is not stored from the loop on, and
#       its value on arrival at the loop is what is compared;
#   (c) when the method returns without having asked for more data (no call of a reader method that reads the source, the source
#       iterator not run dry) the buffered bytes behind the cursor cover the window.

def _fetchers(rd):
    """names of the reader methods through which the source is read (closed over self-calls)"""
    out = {n for n, g in rd.methods.items() if n != '__init__' and any(
        isinstance(x, ast.Attribute) and isinstance(x.ctx, ast.Load) and dotted(x) in (SOURCE_FN, SOURCE_IT) for x in walk_self(g.node))}
    changed = True
    while changed:
        changed = False
        for n, g in rd.methods.items():
            if n in out or n == '__init__':
                continue
            if any(isinstance(c, ast.Call) and isinstance(c.func, ast.Attribute) and dotted(c.func.value) == 'self' and c.func.attr in out for c in walk_self(g.node)):
                out.add(n)
                changed = True
    return out


def _peek_cells(default):
    cells = [
        ('size == -1', lambda e, s, ch: e.add_eq(s, -1), lambda s, ch: ch),
        ('size < -1', lambda e, s, ch: e.add_le(s, -2), lambda s, ch: ch),
        ('size == 0', lambda e, s, ch: e.add_eq(s, 0), lambda s, ch: Lin.const(0)),
        ('size in [1, chunk_size]', lambda e, s, ch: e.add_le(1, s) and e.add_le(s, ch), lambda s, ch: s),
        ('size > chunk_size', lambda e, s, ch: e.add_le(ch + Lin.const(1), s), lambda s, ch: ch),
    ]
    if default is not None:
        cells.insert(0, ('size left out (default %d)' % default, lambda e, s, ch: e.add_eq(s, default), lambda s, ch: ch))
    return cells


def _r16_reader(run, v, rd):
    p = run.project
    f = rd.methods.get('peek')
    if f is None:
        raise AnchorError('%s.peek not found' % rd.qual)
    if CAP not in f.params():
        raise AnchorError('%s.peek has no `%s` parameter' % (rd.qual, CAP))
    a = f.node.args
    names = [x.arg for x in a.posonlyargs + a.args]
    dflt = dict(zip(names[len(names) - len(a.defaults):], a.defaults)).get(CAP) if a.defaults else None
    default = None
    if dflt is not None:
        default = p.fold(f.module, dflt, None, f)
        if isinstance(dflt, ast.UnaryOp) and isinstance(dflt.op, ast.USub) and isinstance(dflt.operand, ast.Constant) and isinstance(dflt.operand.value, int):
            default = -dflt.operand.value
        if isinstance(default, bool) or not isinstance(default, int):
            raise UnknownIdiom('%s: default of `%s` (%s) is not an integer constant' % (f.qual, CAP, short(dflt, 30)))
    model = _StreamModel(run, v, rd, f, 'PEEK')
    model.infer_invariants()
    cfg = model.cfg
    heads = set(loop_heads(cfg))
    fetchers = _fetchers(rd)
    after_loop = flow.reachable(cfg, sorted(heads)) if heads else set()
    stored_late = set()
    for nid in after_loop:
        n = cfg.node(nid)
        if n.kind in ('stmt', 'test', 'iter', 'with'):
            stored_late |= {x.id for x in n.walk() if isinstance(x, ast.Name) and isinstance(x.ctx, (ast.Store, ast.Del))}
        if n.kind == 'iter':
            stored_late |= {x.id for x in ast.walk(n.stmt.target) if isinstance(x, ast.Name)}
    segs = list(segments(cfg))
    rw = 'peek() / peek(-1) / peek(chunk_size + 1) return up to chunk_size bytes from the cursor, peek(0) returns b"", peek(n) the next n bytes; ' \
         'the mutant returns b"" / the whole buffer / bytes in front of the cursor'

    def on_node_factory(found):
        def on_node(env, n, label):
            if label != 'exc':
                if n.kind == 'iter' and label == 'done' and dotted(strip_await(n.stmt.iter)) == SOURCE_IT:
                    env.ghost['dry'] = True
                if n.kind in ('stmt', 'test') and any(isinstance(c.func, ast.Attribute) and dotted(c.func.value) == 'self' and c.func.attr in fetchers for c in n.calls()):
                    env.ghost['refilled'] = True
                if n.kind == 'stmt' and isinstance(n.ast, ast.Return) and n.ast.value is not None:
                    ps = model.pieces(env, n.ast.value)
                    cur = model.cursor(env)
                    if len(ps) == 1 and ps[0][0] == 'const' and ps[0][1] == 0:
                        found.append((n.ast, env.fork(), cur, cur, cur))          # b'': the empty window at the cursor
                    elif len(ps) != 1 or ps[0][0] != 'buf' or not ps[0][3] or cur is None:
                        v.unknown('%s: `%s` is not read as one slice of the buffer' % (f.qual, short(n.ast, 60)))
                    else:
                        found.append((n.ast, env.fork(), cur, ps[0][1], ps[0][2]))
            model.on_node(env, n, label)
        return on_node

    def judge(e, node, cur, lo, hi, wit):
        d = lo - cur
        ok = e.prove_eq(lo, cur)
        if not ok and d.tainted():
            v.unknown('%s: %s' % (f.qual, '; '.join(e.notes[-2:]) or repr(d)))
        else:
            v.note(f, 'window starts at the cursor', 'the slice peek() returns starts at the cursor', ok, node,
                   'the slice returned starts %r byte(s) from the cursor (not provably 0)' % (d,), wit,
                   'asgi reader: read(1) served from a buffer of 2+ bytes, then peek() returns the byte already consumed again')
        if not (e.ghost.get('dry') or e.ghost.get('refilled')):
            have = model.buffer_end(e) - cur
            ok = e.prove_le(hi - lo, have)
            if not ok and (have - (hi - lo)).tainted():
                v.unknown('%s: %s' % (f.qual, '; '.join(e.notes[-2:])))
            else:
                v.note(f, 'short only at the end of the stream', 'peek() returns without asking the source for more only when the buffered bytes behind the cursor cover '
                       'the window (a loop over the source is left early only then)', ok, '%s [buffered >= window]' % unparse(node),
                       'the method returns a window of %r byte(s) with %r byte(s) buffered behind the cursor and the source neither asked nor run dry' % (hi - lo, have),
                       wit, 'asgi reader over chunks [b"ab", b"cd"]: peek(3) returns b"ab" although more data follows; eof never becomes True')

    arrivals = {}            # (cell, loop head) -> [env]
    cells = _peek_cells(default)
    for cname, setup, expect in cells:
        n_ret = 0
        for start, steps, end in segs:
            if start != cfg.entry or end == cfg.xexit:
                continue
            wit = flow.describe_path(cfg, [s_[0] for s_ in steps])
            for e0 in model.start_envs(start):
                ch = e0.declare(CHUNK, 'nat')
                sz = e0.declare(CAP, 'int')
                e0.is_none[('v', CAP)] = False
                if not (e0.add_le(1, ch) and setup(e0, sz, ch)):
                    continue
                found = []
                outs = _run_steps(e0, cfg, steps, on_node_factory(found))
                want = expect(sz, ch)
                for (node, e, cur, lo, hi) in found:
                    n_ret += 1
                    judge(e, node, cur, lo, hi, wit)
                    w = hi - lo
                    ok = e.prove_eq(w, want)
                    if not ok and (w - want).tainted():
                        v.unknown('%s: %s' % (f.qual, '; '.join(e.notes[-2:])))
                        continue
                    v.note(f, 'window width [%s]' % cname, 'for %s peek() returns the window of %s bytes at the cursor' % (
                        cname, 'chunk_size' if want == ch else ('`size`' if want == sz else '0')), ok, '%s [%s]' % (unparse(node), cname),
                        'for %s the slice returned is %r byte(s) wide, expected %r' % (cname, w, want), wit, rw)
                if end in heads:
                    arrivals.setdefault((cname, end), []).extend((e, wit) for e in outs if not any(k == 'raise' for k, _v, _n in e.log))
        if not n_ret and not any(k[0] == cname for k in arrivals):
            v.unknown('%s: no path of peek() completes for %s' % (f.qual, cname))
    for start, steps, end in segs:
        if start == cfg.entry or end == cfg.xexit:
            continue
        wit = flow.describe_path(cfg, [s_[0] for s_ in steps])
        for e0 in model.start_envs(start):
            e0.declare(CHUNK, 'nat')
            found = []
            _run_steps(e0, cfg, steps, on_node_factory(found))
            for (node, e, cur, lo, hi) in found:
                judge(e, node, cur, lo, hi, wit)
                w = hi - lo
                a = w.lone()
                if a is None or a[0] != 'v' or '.' in a[1] or a[1] in stored_late:
                    v.unknown('%s: behind the loop the width of `%s` (%r) is not a parameter / local that is fixed in front of the loop' % (f.qual, short(node, 50), w))
                    continue
                for cname, setup, expect in cells:
                    for (ea, awit) in arrivals.get((cname, start), ()):
                        val = ea.vars.get(a[1], Lin.atom(a))
                        want = expect(ea.var(CAP), ea.var(CHUNK))
                        ok = isinstance(val, Lin) and ea.prove_eq(val, want)
                        v.note(f, 'window width [%s]' % cname, 'for %s peek() returns the window of chunk_size / `size` / 0 bytes at the cursor' % cname, ok,
                               '%s [%s]' % (unparse(node), cname), 'for %s the loop is entered with %s = %r, expected %r' % (cname, a[1], val, want), awit, rw)


def r16_peek_window(run):
    """peek(size) returns data[cursor : cursor + n], n by the size partition (negative / default and oversize -> chunk_size, 0 -> 0, else size),
    and is short only at the end of the stream.  W: peek() -> b'' (default 0); peek(chunk_size + 1) -> more than a chunk; peek(0) -> a chunk."""
    v = Verdicts(run)
    run.assume('C14 R16: chunk_size >= 1; on entry 0 <= _buffer_pos <= _buffer_len == len(_buffer) (R1, R13); a reader method that reads the source '
               'fills the buffer as far as the stream allows (its own obligation): behind such a call a short window is not judged')
    for qual in (SYNC, ASYNC):
        _r16_reader(run, v, Reader(run.project, qual))
    v.flush()


# ---------------------------------------------------------------------------
# R17 None is normalised before it meets a number (type partition of the Optional parameters; added after sa-am00744 / sa-am00745:
# `size_hint=size` / `size and 0` hand read(None)'s None to `0 < size_hint < ...`)
# ---------------------------------------------------------------------------
# A parameter of a PUBLIC reader method that is declared Optional (annotation `Optional[...]` / `... | None`, or default None) has None
# in its domain: read(None) reads everything on the flat cursor.  `None < 1`, `None - 1` raise TypeError, so on every feasible path
# (linear evaluator, short-circuit of and/or/conditional expressions respected) the None value must not reach an ordering comparison
# or arithmetic -- in the method itself or in a reader method it is handed to (argument nullness: `x or 0` is not None, `x and 0`
# and `x` are; followed for three levels).  Equality / identity tests and truthiness are fine.

_ORDERING = (ast.Lt, ast.LtE, ast.Gt, ast.GtE)
_ARITH = (ast.Add, ast.Sub, ast.Mult, ast.FloorDiv, ast.Mod, ast.Div)


def _optional_params(f):
    a = f.node.args
    pos = a.posonlyargs + a.args
    dflt = dict(zip([x.arg for x in pos][len(pos) - len(a.defaults):], a.defaults)) if a.defaults else {}
    dflt.update({x.arg: d for x, d in zip(a.kwonlyargs, a.kw_defaults) if d is not None})
    out = []
    for x in pos + a.kwonlyargs:
        if x.arg == 'self':
            continue
        ann = unparse(x.annotation) if x.annotation is not None else ''
        d = dflt.get(x.arg)
        if 'Optional[' in ann or 'None' in ann.replace(' ', '').split('|') or (isinstance(d, ast.Constant) and d.value is None):
            out.append(x.arg)
    return out


class _NoneFlow:
    def __init__(self, run, rd):
        self.run, self.rd, self.p = run, rd, run.project
        self.memo = {}

    @staticmethod
    def is_none(env, val):
        return val is NONE or (isinstance(val, Lin) and val.lone() is not None and env.is_none.get(val.lone()) is True)

    def nullness(self, env, e):
        """'none' when the expression certainly evaluates to None on this path, 'notnone' when certainly not, else 'maybe'."""
        e = strip_await(e)
        if isinstance(e, ast.Constant):
            return 'none' if e.value is None else 'notnone'
        if isinstance(e, (ast.Name, ast.Attribute)):
            val = env.eval(e)
            if self.is_none(env, val):
                return 'none'
            if isinstance(val, Lin) and val.lone() is not None and env.is_none.get(val.lone()) is False:
                return 'notnone'
            return 'maybe' if isinstance(val, Lin) and val.lone() is not None and val.lone()[0] in ('v', 'sym') and env.kind.get(val.lone()) is None else 'notnone'
        if isinstance(e, ast.BoolOp):
            for i, x in enumerate(e.values):
                n = self.nullness(env, x)
                if isinstance(e.op, ast.Or):
                    if n == 'none':
                        continue                    # falsy: the next operand decides
                    return 'notnone' if (n == 'notnone' and all(self.nullness(env, y) == 'notnone' for y in e.values[i + 1:])) else 'maybe'
                if n == 'none':
                    return 'none'                   # `None and x` is None
                if not (isinstance(x, ast.Constant) and x.value):
                    return 'maybe'
            return 'none' if isinstance(e.op, ast.Or) else 'notnone'
        if isinstance(e, ast.IfExp):
            d = env.decide(e.test)
            if d is not None:
                return self.nullness(env, e.body if d else e.orelse)
            return 'maybe'
        return 'notnone'

    def scan(self, env, e, f, hits, depth, stack):
        """Walk an expression in evaluation order; record (node, text) where a None operand meets an ordering comparison / arithmetic."""
        if isinstance(e, (ast.Lambda, ast.GeneratorExp, ast.ListComp, ast.SetComp, ast.DictComp)):
            return
        if isinstance(e, ast.BoolOp):
            envs = [env]
            for x in e.values:
                for e1 in envs:
                    self.scan(e1, x, f, hits, depth, stack)
                envs = [e2 for e1 in envs for e2 in e1.assume(x, isinstance(e.op, ast.And))]
                if not envs:
                    break
            return
        if isinstance(e, ast.IfExp):
            self.scan(env, e.test, f, hits, depth, stack)
            for e1 in env.assume(e.test, True):
                self.scan(e1, e.body, f, hits, depth, stack)
            for e1 in env.assume(e.test, False):
                self.scan(e1, e.orelse, f, hits, depth, stack)
            return
        if isinstance(e, ast.Compare):
            left = e.left
            self.scan(env, left, f, hits, depth, stack)
            for op, right in zip(e.ops, e.comparators):
                self.scan(env, right, f, hits, depth, stack)
                if isinstance(op, _ORDERING) and (self.nullness(env, left) == 'none' or self.nullness(env, right) == 'none'):
                    hits.append((e, '`%s` in %s() compares None with a number' % (short(e, 50), f.name)))
                    return
                left = right
            return
        if isinstance(e, ast.BinOp) and isinstance(e.op, _ARITH):
            self.scan(env, e.left, f, hits, depth, stack)
            self.scan(env, e.right, f, hits, depth, stack)
            if self.nullness(env, e.left) == 'none' or self.nullness(env, e.right) == 'none':
                hits.append((e, '`%s` in %s() computes with None' % (short(e, 50), f.name)))
            return
        if isinstance(e, ast.Call):
            c = e
            fn = c.func
            if isinstance(fn, ast.Attribute) and dotted(fn.value) == 'self' and fn.attr in self.rd.methods:
                for a in list(c.args) + [k.value for k in c.keywords]:
                    self.scan(env, a.value if isinstance(a, ast.Starred) else a, f, hits, depth, stack)
                callee = self.rd.methods[fn.attr]
                bound = _bind_call(callee, c)
                if bound is None:
                    return
                nones = frozenset(k for k, x in bound.items() if x in c.args or any(x is kw.value for kw in c.keywords) if self.nullness(env, x) == 'none')
                if nones and depth < 3 and callee.qual not in stack:
                    for (_n, text) in self.method(callee, nones, depth + 1, stack + (callee.qual,)):
                        hits.append((c, '%s (reached through `%s` with %s = None)' % (text, short(c, 50), ', '.join(sorted(nones)))))
                return
        for sub in ast.iter_child_nodes(e):
            if isinstance(sub, ast.expr):
                self.scan(env, sub, f, hits, depth, stack)

    def method(self, f, nones, depth=0, stack=()):
        """[(node in f, text)] for the parameters `nones` of f bound to None."""
        key = (f.qual, nones)
        if key in self.memo:
            return self.memo[key]
        self.memo[key] = []
        cfg = cfg_of(f, self.p)
        self.run.use_cfg(cfg)
        stored = {x.id for x in walk_self(f.node) if isinstance(x, ast.Name) and isinstance(x.ctx, (ast.Store, ast.Del))}
        stored |= {y.id for x in walk_self(f.node) if isinstance(x, (ast.For, ast.AsyncFor)) for y in ast.walk(x.target) if isinstance(y, ast.Name)}
        hits, seen = [], set()

        def on_node(env, n, label):
            if label == 'exc' or n.kind not in ('stmt', 'test'):
                return
            found = []
            if n.kind == 'test':
                self.scan(env, n.ast, f, found, depth, stack)
            else:
                st = n.ast
                if isinstance(st, ast.AugAssign) and isinstance(st.op, _ARITH):
                    self.scan(env, st.value, f, found, depth, stack)
                    if self.nullness(env, st.target) == 'none' or self.nullness(env, st.value) == 'none':
                        found.append((st, '`%s` in %s() computes with None' % (short(st, 50), f.name)))
                else:
                    for sub in ast.iter_child_nodes(st):
                        if isinstance(sub, ast.expr) and not (isinstance(sub, (ast.Name, ast.Attribute, ast.Tuple)) and isinstance(getattr(sub, 'ctx', None), ast.Store)):
                            self.scan(env, sub, f, found, depth, stack)
            for (node, text) in found:
                k = (id(node), text)
                if k not in seen:
                    seen.add(k)
                    hits.append((node, text))

        for start, steps, end in segments(cfg):
            env = Env()
            for nm in nones:
                if start == cfg.entry or nm not in stored:
                    env.is_none[('v', nm)] = True
            run_steps(env, cfg, steps, on_node)
        self.memo[key] = hits
        return hits


def r17_none_before_ordering(run):
    """read(None) & co.: a None argument of a public reader method never reaches `<` / `<=` / `>` / `>=` or arithmetic (TypeError) -- it is
    normalised first (`is None` test, `x or 0`).  W: asgi read(None) with buffered data raises TypeError in `0 < size_hint < ...`."""
    v = Verdicts(run)
    n = 0
    for qual in (SYNC, ASYNC):
        rd = Reader(run.project, qual)
        nf = _NoneFlow(run, rd)
        for name, f in sorted(rd.methods.items()):
            if name.startswith('_') and not (name.startswith('__') and name.endswith('__')):
                continue
            for prm in _optional_params(f):
                n += 1
                hits = nf.method(f, frozenset([prm]), 0, (f.qual,))
                v.note(f, 'None handled @%s' % prm, 'with the Optional parameter `%s` = None no ordering comparison / arithmetic sees the None '
                       '(in the method and in the reader methods the value is handed to)' % prm, not hits, hits[0][0] if hits else f.name,
                       '%s = None: %s' % (prm, hits[0][1]) if hits else None,
                       rw='asgi BufferedReader with peeked data: await read(None) raises TypeError (`<` not supported between int and NoneType) where the flat '
                          'cursor returns the rest of the stream')
    if n < 4:
        raise AnchorError('fewer than 4 Optional parameters on the public methods of the readers')
    v.flush()


# ---------------------------------------------------------------------------
# R18 collecting loops: countdown, running total and backlog (added after sa-am03328, sa-am00727, sa-am03226, sa-am03281)
# ---------------------------------------------------------------------------
# A method that collects data piecewise (`<sink>.append(x)` / `<sink>.write(x)` in a loop) under a cap keeps one of two counters:
#   * a COUNTDOWN  (`X -= ...` in the loop; X = bytes still wanted).  The loop is left -- by its condition or by `break` -- only when
#     nothing is wanted any more (X at the loop head minus what this iteration handed to the sinks is <= 0), when the iterator it
#     runs over is exhausted, or when the piece just obtained from a reader method is empty.  (A loop left by `return` is not judged
#     here; the source gate has its own clause in R2.)
#   * a RUNNING TOTAL  (`Y += ...` in the loop; Y = bytes collected).  It starts at what has been collected before the loop (0) and
#     every iteration that advances it advances it by exactly the length handed to the sinks on that path.
# A (sink, running total) pair handed to another reader method (the backlog and `have_bytes` of _finalize_read_until) keeps its meaning
# there: a path of the callee whose return value does not include the joined backlog has proved the total to be 0.

def _step_of(st):
    """(name, '+' | '-') for `x += e` / `x -= e` / `x = x + e` / `x = x - e`, else None."""
    if isinstance(st, ast.AugAssign) and isinstance(st.target, ast.Name) and isinstance(st.op, (ast.Add, ast.Sub)):
        return st.target.id, '+' if isinstance(st.op, ast.Add) else '-'
    if isinstance(st, ast.Assign) and len(st.targets) == 1 and isinstance(st.targets[0], ast.Name) and isinstance(st.value, ast.BinOp) \
            and isinstance(st.value.op, (ast.Add, ast.Sub)) and isinstance(st.value.left, ast.Name) and st.value.left.id == st.targets[0].id:
        return st.targets[0].id, '+' if isinstance(st.value.op, ast.Add) else '-'
    return None


def _is_sink_call(call):
    fn = call.func
    return isinstance(fn, ast.Attribute) and fn.attr in _SINKS and isinstance(fn.value, ast.Name) and len(call.args) == 1 and not call.keywords


class _CollectModel:
    def __init__(self, run, v, rd, f):
        self.run, self.v, self.rd, self.f = run, v, rd, f
        self.cfg = cfg_of(f, run.project)
        run.use_cfg(self.cfg)
        self.loops = {}         # head node id -> (loop stmt, countdown names, total names)
        for h in loop_heads(self.cfg):
            lp = self.cfg.node(h).stmt
            body = [x for st in lp.body for x in walk_self(st)]
            if not any(isinstance(x, ast.Call) and _is_sink_call(x) for x in body):
                continue
            aug = [(x, _step_of(x)) for x in body if _step_of(x) is not None]
            down = sorted({sp[0] for _x, sp in aug if sp[1] == '-'})
            up = sorted({sp[0] for x, sp in aug if sp[1] == '+' and not any(isinstance(y, ast.Call) and _is_sink_call(y) for y in ast.walk(x))})
            # (a local that accumulates bytes, `chunk += item`, is not a counter: counters are compared / passed on as numbers)
            up = [y for y in up if not any(isinstance(c, ast.Call) and _is_sink_call(c) and isinstance(c.args[0], ast.Name) and c.args[0].id == y for c in body)]
            if down or up:
                self.loops[h] = (lp, down, up)
        self.pairs = set()       # (sink name, total name) verified in this method

    def start_env(self):
        env = _start_env(self.rd, self.f, self.on_call)
        env.declare(CHUNK, 'nat')
        env.ghost.update(app=Lin.const(0), per={}, got=())
        return env

    def on_call(self, env, call):
        fn = call.func
        g = env.ghost
        if _is_sink_call(call) and fn.value.id != 'self':
            ln = env.length(env.eval(call.args[0]), short(call.args[0], 30))
            g['app'] = g['app'] + ln
            g['per'] = {**g['per'], fn.value.id: g['per'].get(fn.value.id, Lin.const(0)) + ln}
            return NONE
        if isinstance(fn, ast.Attribute) and dotted(fn.value) == 'self' and fn.attr in self.rd.methods:
            for a in list(call.args) + [k.value for k in call.keywords]:
                env.eval(a.value if isinstance(a, ast.Starred) else a)
            hv = [a for a in (BUF, BLEN, BPOS) if a in (self.rd.writes(fn.attr) or set())]
            if hv:
                env.havoc(hv, 'after %s' % fn.attr)
                nb = env.vars[BUF].lone() if BUF in env.vars and isinstance(env.vars[BUF], Lin) else None
                if BUF in hv and nb is not None:
                    env.kind[nb] = 'seq'
                env.add_eq(env.eval(_E_BLEN), env.length(env.eval(_E_BUF), BUF))
                env.add_le(0, env.eval(_E_BPOS))
                env.add_le(env.eval(_E_BPOS), env.eval(_E_BLEN))
            r = fresh('result of ' + short(call, 30))
            env.kind[r] = 'seq'
            g['got'] = g['got'] + (r,)
            return Lin.atom(r)
        if isinstance(fn, ast.Attribute) and dotted(fn.value) == 'self':
            # a callable stored on the reader (the source callable): what it returns is a piece of data just obtained
            for a in list(call.args) + [k.value for k in call.keywords]:
                env.eval(a.value if isinstance(a, ast.Starred) else a)
            r = fresh('result of ' + short(call, 30))
            env.kind[r] = 'seq'
            g['got'] = g['got'] + (r,)
            return Lin.atom(r)
        return None

    def lower_bounds(self, segs):
        """Houdini: the largest c in (1, 0) with `X >= c` at every arrival at the loop head, per (head, countdown name)."""
        inv = {(h, x): 1 for h, (_lp, down, _up) in self.loops.items() for x in down}
        changed = True
        while changed:
            changed = False
            for start, steps, end in segs:
                for (h, x), c in list(inv.items()):
                    if h != end or c is None:
                        continue
                    env = self.start_env()
                    for (h2, x2), c2 in inv.items():
                        if h2 == start and c2 is not None:
                            env.add_le(c2, env.var(x2))
                    for e in _run_steps(env, self.cfg, steps):
                        if any(k == 'raise' for k, _v, _n in e.log):
                            continue
                        val = e.eval(ast.Name(id=x, ctx=ast.Load()))
                        if not (isinstance(val, Lin) and e.prove_le(inv[(h, x)], val)):
                            inv[(h, x)] = 0 if inv[(h, x)] == 1 else None
                            changed = True
                            break
        return inv

    def execute(self):
        cfg, f, v = self.cfg, self.f, self.v
        if not self.loops:
            return 0
        segs = [sg for sg in segments(cfg) if sg[2] != cfg.xexit]
        inv = self.lower_bounds(segs)
        n_obl = 0
        for start, steps, end in segs:
            wit = flow.describe_path(cfg, [s_[0] for s_ in steps])
            # ---- running totals: value on arrival from the entry, and the advance per iteration
            ups = sorted({(h, y) for h, (_lp, _d, up) in self.loops.items() for y in up if h == end})
            if ups:
                env = self.start_env()
                for (h2, x2), c2 in inv.items():
                    if h2 == start and c2 is not None:
                        env.add_le(c2, env.var(x2))
                for e in _run_steps(env, cfg, steps):
                    if any(k == 'raise' for k, _v, _n in e.log):
                        continue
                    for (h, y) in ups:
                        val = e.eval(ast.Name(id=y, ctx=ast.Load()))
                        aug = next(x for x in walk_self(self.loops[h][0]) if (_step_of(x) or ('',))[0] == y)
                        if not isinstance(val, Lin):
                            v.unknown('%s: %s is not a number' % (f.qual, y))
                            continue
                        if start == cfg.entry:
                            n_obl += 1
                            d = val - e.ghost['app']
                            if d.tainted():
                                v.unknown('%s: %s' % (f.qual, '; '.join(e.notes[-2:])))
                                continue
                            v.note(f, 'running total %s starts at what was collected' % y, 'the running total `%s` enters the collecting loop with the number of bytes '
                                   'collected so far (0)' % y, e.prove_eq(val, e.ghost['app']), aug, '`%s` enters the loop as %r with %r byte(s) collected' % (y, val, e.ghost['app']),
                                   wit, 'BufferedReader over b"ab\\ncd\\nef\\n": readlines(4) -> [b"ab\\n"] instead of [b"ab\\n", b"cd\\n"] (the total starts at 1)')
                        elif start == h and val != e.var(y):
                            n_obl += 1
                            d = val - e.var(y) - e.ghost['app']
                            if d.tainted():
                                v.unknown('%s: %s' % (f.qual, '; '.join(e.notes[-2:])))
                                continue
                            ok = e.prove_eq(val - e.var(y), e.ghost['app'])
                            v.note(f, 'running total %s advances by what is collected' % y, 'an iteration that advances the running total `%s` advances it by exactly the '
                                   'length handed to the sinks on that path' % y, ok, aug, '`%s` advances by %r while %r byte(s) are collected' % (y, val - e.var(y), e.ghost['app']),
                                   wit, 'read_until() joins a backlog whose recorded length is wrong: bytes are skipped or returned twice')
                            if ok:
                                self.pairs |= {(snk, y) for snk in e.ghost['per']}
            # ---- countdowns: how the loop is left
            if start not in self.loops or not self.loops[start][1]:
                continue
            lp, down, _up = self.loops[start]
            head_exit = steps[0][1] in ('F', 'done')
            has_brk = any(l == 'brk' for (_n, l) in steps)
            if not (head_exit or has_brk):
                continue
            if head_exit and steps[0][1] == 'done':
                continue                                    # the iterator is exhausted: nothing more to collect
            for x in down:
                env = self.start_env()
                c = inv.get((start, x))
                if c is not None:
                    env.add_le(c, env.var(x))
                x0 = env.var(x)
                verdicts = []

                def on_node(e, n, label, x0=x0, verdicts=verdicts):
                    if label == 'brk':
                        empty = any(e.prove_eq(Lin.atom(('len', r)), 0) for r in e.ghost['got'])
                        left = x0 - e.ghost['app']
                        verdicts.append((empty or e.prove_le(left, 0), left, left.tainted() and not empty, list(e.notes[-2:])))

                last_test = None
                for (nid, l) in steps:
                    if l == 'brk':
                        break
                    if cfg.node(nid).kind == 'test':
                        last_test = cfg.node(nid).ast
                outs = _run_steps(env, cfg, steps, on_node)
                if head_exit:
                    for e in outs:
                        verdicts.append((e.prove_le(x0, 0), x0, False, []))
                    last_test = cfg.node(start).ast
                for (ok, left, taint, notes) in verdicts:
                    if taint:
                        v.unknown('%s: %s' % (f.qual, '; '.join(notes) or repr(left)))
                        continue
                    n_obl += 1
                    v.note(f, 'countdown %s exhausted @%s' % (x, 'loop condition' if head_exit else 'break'),
                           'a loop that collects data under the countdown `%s` is left only when nothing is wanted any more (countdown minus what this iteration '
                           'collected <= 0), the iterator is exhausted, or the piece just read is empty' % x, ok, last_test if last_test is not None else lp,
                           'the loop is left with %r byte(s) still wanted (not provably <= 0)' % (left,), wit,
                           'sync pipe_until(b"--", dest, _size=n) / read_until with a large size leaves the last byte unread; asgi read(n) with n > max join size '
                           'returns n - 1 bytes although more data follows')
        return n_obl


def _backlog_consumers(run, v, rd, producer, pairs):
    """(sink, total) pairs of `producer` handed to a reader method: in the callee a return value that leaves the backlog out needs total == 0."""
    n = 0
    seen = set()
    for c in walk_self(producer.node):
        if not (isinstance(c, ast.Call) and isinstance(c.func, ast.Attribute) and dotted(c.func.value) == 'self' and c.func.attr in rd.methods):
            continue
        callee = rd.methods[c.func.attr]
        bound = _bind_call(callee, c)
        if bound is None:
            continue
        for (snk, tot) in sorted(pairs):
            ps = [k for k, x in bound.items() if isinstance(x, ast.Name) and x.id == snk]
            pt = [k for k, x in bound.items() if isinstance(x, ast.Name) and x.id == tot]
            if len(ps) != 1 or len(pt) != 1 or (callee.qual, ps[0], pt[0]) in seen:
                continue
            seen.add((callee.qual, ps[0], pt[0]))
            P, T = ps[0], pt[0]
            cfg = cfg_of(callee, run.project)
            run.use_cfg(cfg)
            if loop_heads(cfg):
                v.unknown('%s: a backlog handed to a method with loops is not followed' % callee.qual)
                continue
            stores = [x.id for x in walk_self(callee.node) if isinstance(x, ast.Name) and isinstance(x.ctx, (ast.Store, ast.Del)) and x.id in (P, T)]
            if stores:
                v.unknown('%s: the backlog parameters %s / %s are re-assigned' % (callee.qual, P, T))
                continue

            def joins(e_):
                return any(isinstance(y, ast.Call) and isinstance(y.func, ast.Attribute) and y.func.attr == 'join' and any(isinstance(z, ast.Name) and z.id == P for a in y.args for z in ast.walk(a))
                           for y in ast.walk(e_))

            model = _CollectModel(run, v, rd, callee)
            for start, steps, end in segments(cfg):
                if end != cfg.exit:
                    continue
                env = model.start_env()
                env.add_le(0, env.var(T))            # a total of lengths
                env.kind[('v', T)] = 'nat'
                env.ghost['joined'] = frozenset()

                def on_node(e, nd, label):
                    if label == 'exc' or nd.kind != 'stmt':
                        return
                    st = nd.ast
                    if isinstance(st, (ast.Assign, ast.AnnAssign)) and getattr(st, 'value', None) is not None:
                        tg = st.targets if isinstance(st, ast.Assign) else [st.target]
                        names = {t.id for t in tg if isinstance(t, ast.Name)}
                        inc = joins(st.value) or any(isinstance(z, ast.Name) and z.id in e.ghost['joined'] for z in ast.walk(st.value))
                        e.ghost['joined'] = (e.ghost['joined'] | names) if inc else (e.ghost['joined'] - names)
                    elif isinstance(st, ast.Return) and st.value is not None:
                        inc = joins(st.value) or any(isinstance(z, ast.Name) and z.id in e.ghost['joined'] for z in ast.walk(st.value))
                        e.ghost['ret'] = (st, inc)

                for e in _run_steps(env, cfg, steps, on_node):
                    if any(k == 'raise' for k, _v, _n in e.log) or 'ret' not in e.ghost:
                        continue
                    st, inc = e.ghost['ret']
                    n += 1
                    v.note(callee, 'backlog %s included' % P, 'the backlog `%s` (total length `%s`, kept by %s) is part of the return value unless its total length is 0'
                           % (P, T, producer.name), inc or e.prove_eq(e.var(T), 0), st, 'the value returned leaves the backlog out although `%s` is not provably 0' % T,
                           flow.describe_path(cfg, [s_[0] for s_ in steps]),
                           'BufferedReader(BytesIO(b"bb").read, 5, 1): read_until(b"a", 3) -> b"b" instead of b"bb" (a one-byte backlog is dropped)')
    return n


def r18_collect_loops(run):
    """Countdown loops end only when served / source dry / empty piece; running totals equal what was collected; a backlog with a non-zero
    total is part of the result.  W: pipe_until leaves the last byte; asgi read(n) one byte short; readlines(hint) stops early; read_until drops a byte."""
    v = Verdicts(run)
    run.assume('C14 R18: `<local>.append(x)` / `<local>.write(x)` hand x to the result; a loop over an iterator ends when the iterator is exhausted; '
               'the value a reader method returns is a byte string (empty = nothing more before the delimiter / the end)')
    n = 0
    for qual in (SYNC, ASYNC):
        rd = Reader(run.project, qual)
        for name, f in sorted(rd.methods.items()):
            if not any(isinstance(x, (ast.While, ast.For, ast.AsyncFor)) for x in walk_self(f.node)):
                continue
            m = _CollectModel(run, v, rd, f)
            n += m.execute()
            if m.pairs:
                n += _backlog_consumers(run, v, rd, f, m.pairs)
    if n < 6:
        raise AnchorError('fewer than 6 countdown / running-total obligations in the collecting loops of the readers')
    v.flush()


# ---------------------------------------------------------------------------
# R19 the one-shot iteration guard belongs to __aiter__ alone (who-may-use;
# added after seeded change s9-c14-1: `pipe` iterated `self` instead of the
# internal generator)
# ---------------------------------------------------------------------------
# `async for chunk in reader` is the one operation of the async reader that is
# one-shot: __aiter__ tests a flag, raises when it is set, and sets it.  Every
# other operation (pipe, exhaust, read, readall, read_until, pipe_until, peek)
# must be repeatable and must work after a (partial) iteration - the flat
# cursor has no such state.  So: (a) the flag is read / set only by __aiter__
# (the constructor clears it); (b) no other method of the reader iterates the
# reader itself (`async for ... in self`, an async comprehension over `self`,
# `self.__aiter__`, `aiter(self)`, `self` handed to a method of the reader that
# iterates that parameter) - internal consumers use the internal generators.

_R19_RW = ('r = BufferedReader(source); await r.exhaust(); await r.exhaust() -> OperationNotAllowed (the cursor: a no-op at the end); '
           '`async for c in r: break` then `await r.pipe(dst)` raises instead of delivering the rest')
_R19_SELF_OK = ('type', 'isinstance', 'super', 'id', 'repr', 'str', 'hash', 'getattr', 'setattr', 'hasattr')     # builtins that do not iterate their argument


def _one_shot_guards(rd, f):
    """self attributes that __aiter__ both tests in front of a `raise` and stores: the one-shot guard."""
    stored = set()
    for n in ast.walk(f.node):
        if isinstance(n, ast.Attribute) and isinstance(n.ctx, ast.Store) and dotted(n) and dotted(n).startswith('self.'):
            stored.add(dotted(n))
    local = {}          # local name -> expressions it is bound to (a test may go through `started = self._flag`)
    for n in ast.walk(f.node):
        if isinstance(n, ast.Assign) and len(n.targets) == 1 and isinstance(n.targets[0], ast.Name):
            local.setdefault(n.targets[0].id, []).append(n.value)
        elif isinstance(n, ast.NamedExpr) and isinstance(n.target, ast.Name):
            local.setdefault(n.target.id, []).append(n.value)
    out = []

    def scan(e, depth=0):
        for x in ast.walk(e):
            if isinstance(x, ast.Attribute) and dotted(x) in stored and dotted(x) not in out:
                out.append(dotted(x))
            elif isinstance(x, ast.Name) and depth < 3:
                for v in local.get(x.id, []):
                    scan(v, depth + 1)

    for n in ast.walk(f.node):
        if isinstance(n, ast.If) and any(isinstance(s, ast.Raise) for s in n.body + n.orelse):
            scan(n.test)
    return out


def _iterated_names(f):
    """names an (async) loop / comprehension / aiter() / .__aiter__ of `f` iterates over."""
    out = {}
    for n in ast.walk(f.node):
        its = []
        if isinstance(n, (ast.AsyncFor, ast.For)):
            its.append(n.iter)
        elif isinstance(n, ast.comprehension):
            its.append(n.iter)
        elif isinstance(n, ast.Call) and isinstance(n.func, ast.Name) and n.func.id in ('aiter', 'iter', 'anext', 'next') and n.args:
            its.append(n.args[0])
        elif isinstance(n, ast.Attribute) and n.attr in ('__aiter__', '__iter__', '__anext__', '__next__'):
            its.append(n.value)
        elif isinstance(n, (ast.YieldFrom,)):
            its.append(n.value)
        for e in its:
            if isinstance(e, ast.Name):
                out.setdefault(e.id, n)
    return out


def r19_one_shot_guard(run):
    """The one-shot iteration guard of the async reader is used by __aiter__ only, and no other method iterates `self`.
    Runtime witness: exhaust(); exhaust() raises OperationNotAllowed where the flat cursor does nothing."""
    p = run.project
    rd = Reader(p, ASYNC)
    it = rd.methods.get('__aiter__')
    if it is None:
        raise AnchorError('%s.__aiter__ not found' % ASYNC)
    run.use(it)
    guards = _one_shot_guards(rd, it)
    if not guards:
        raise AnchorError('%s.__aiter__: no one-shot guard (a self attribute tested in front of a raise and set) found' % ASYNC)
    run.sample({'rule': 'R19', 'one-shot guard of __aiter__': guards})
    n_consumers = 0
    for name, f in sorted(rd.methods.items()):
        if f is it:
            continue
        # (a) the guard
        for n in ast.walk(f.node):
            if not (isinstance(n, ast.Attribute) and dotted(n) in guards):
                continue
            run.use(f)
            if name == '__init__':
                st = [a for a in ast.walk(f.node) if isinstance(a, (ast.Assign, ast.AnnAssign)) and a.value is not None
                      and any(t is n for t in (a.targets if isinstance(a, ast.Assign) else [a.target]))]
                if st and isinstance(st[0].value, ast.Constant) and st[0].value.value is False:
                    run.ok('async reader: the constructor clears the one-shot iteration guard %s' % dotted(n), f.loc(st[0]), short(st[0]))
                    continue
                raise UnknownIdiom('%s: %s is used in the constructor other than by being cleared' % (f.qual, dotted(n)))
            if isinstance(n.ctx, ast.Store):
                st = [a for a in ast.walk(f.node) if isinstance(a, ast.Assign) and any(t is n for t in a.targets)]
                if st and isinstance(st[0].value, ast.Constant) and st[0].value.value is False:
                    raise UnknownIdiom('%s: the one-shot iteration guard is cleared outside the constructor (`%s`)' % (f.qual, short(st[0])))
            run.fail('async reader: the one-shot iteration guard %s is tested / set by __aiter__ only: %s() is repeatable and works after an '
                     'iteration was started' % (dotted(n), name), f, '%s %s' % ('sets' if isinstance(n.ctx, ast.Store) else 'reads', dotted(n)),
                     where=f.loc(n), runtime_witness=_R19_RW)
        # (b) iteration of the reader itself
        sites = []
        for n in ast.walk(f.node):
            if isinstance(n, (ast.AsyncFor, ast.For)) and dotted(n.iter) == 'self':
                sites.append((n, '%s ... in self' % ('async for' if isinstance(n, ast.AsyncFor) else 'for')))
            elif isinstance(n, ast.comprehension) and dotted(n.iter) == 'self':
                sites.append((n.iter, '%s ... in self (comprehension)' % ('async for' if n.is_async else 'for')))
            elif isinstance(n, ast.Attribute) and n.attr in ('__aiter__', '__anext__') and dotted(n.value) == 'self':
                sites.append((n, 'self.%s' % n.attr))
            elif isinstance(n, ast.Call):
                args = list(n.args) + [k.value for k in n.keywords]
                if not any(dotted(a) == 'self' or (isinstance(a, ast.Starred) and dotted(a.value) == 'self') for a in args):
                    continue
                if isinstance(n.func, ast.Name) and n.func.id in ('aiter', 'anext'):
                    sites.append((n, '%s(self)' % n.func.id))
                    continue
                if isinstance(n.func, ast.Name) and n.func.id in _R19_SELF_OK and n.func.id not in f.params():
                    continue
                callee = p.callee(f, n)
                if isinstance(callee, Func) and callee.cls is not None and callee.cls.qual == rd.qual and isinstance(n.func, ast.Attribute) \
                        and dotted(n.func.value) == 'self':
                    try:
                        bound = _bind_call(callee, n)
                    except UnknownIdiom:
                        bound = None
                    if bound is None:
                        raise UnknownIdiom('%s: `self` is handed to %s in a way the rule does not read' % (f.qual, short(n, 60)))
                    ps = [k for k, a in bound.items() if isinstance(a, ast.AST) and dotted(a) == 'self']
                    iterated = _iterated_names(callee)
                    hit = [k for k in ps if k in iterated]
                    if hit:
                        sites.append((n, 'self handed to %s(), which iterates its parameter `%s`' % (callee.name, hit[0])))
                        continue
                    if any(isinstance(x, ast.Name) and x.id in ps for c2 in ast.walk(callee.node) if isinstance(c2, ast.Call)
                           for x in list(c2.args) + [k.value for k in c2.keywords]):
                        raise UnknownIdiom('%s: `self` is handed to %s(), which passes it on' % (f.qual, callee.name))
                    continue
                raise UnknownIdiom('%s: `self` escapes into `%s`' % (f.qual, short(n, 60)))
        loops = [n for n in ast.walk(f.node) if isinstance(n, (ast.AsyncFor,)) or (isinstance(n, ast.comprehension) and n.is_async)]
        for n, how in sites:
            run.use(f)
            run.fail('async reader: %s() does not iterate the reader itself (__aiter__ is one-shot: it raises once an iteration was started); internal '
                     'consumers draw from the internal generators' % name, f, how, where=f.loc(n), runtime_witness=_R19_RW)
        if loops and not sites:
            run.use(f)
            n_consumers += 1
            run.ok('async reader: %s() draws from %s, never from the reader\'s own one-shot __aiter__' % (
                name, ', '.join(sorted({short(n.iter, 40) for n in loops}))), f.loc(), '%s: async iteration sources' % name)
    if n_consumers < 3:
        raise AnchorError('%s: fewer than 3 methods with an async loop found' % ASYNC)
    run.extra['c14_async_consumers'] = n_consumers


def check(run):
    run.assume('C14: only falcon/util/reader.py and falcon/asgi/reader.py are decided; falcon/cyutil/reader.pyx (the compiled twin) is not analysed')
    run.extra['twin_drift_note'] = 'falcon/cyutil/reader.pyx is a hand-maintained Cython twin of falcon/util/reader.py; not parsed, not compared'
    run.rule('R1', r1_cached_length, 'cached buffer length invariant on every acyclic path', floor=8)
    run.rule('R2', r2_budget, 'sync reader: single, clamped, accounted source reads; the gate asks until served, EOF is marked', floor=6)
    run.rule('R3', r3_delimiter, 'delimiter consumption is verified; delimiter length confined', floor=4)
    run.rule('R4', r4_position, 'async reader: tell()/eof/_consumed; eof is the conjunction of exhausted and drained', floor=5)
    run.rule('R5', r5_normalize, 'sync reader: size normalisation covers the domain of the size argument', floor=6)
    run.rule('R6', r6_search_start, 'no delimiter search looks at bytes in front of the cursor', floor=6)
    run.rule('R7', r7_delimiter_not_split, 'async reader: a size-capped early hand-out never splits a delimiter', floor=1)
    run.rule('R8', r8_cursor_conservation, 'async reader: bytes yielded from the buffer are exactly the bytes the cursor moves over', floor=9)
    run.rule('R9', r9_sync_cursor_conservation, 'sync reader: the cursor stands behind the last byte handed out after every replacement / trim / return', floor=8)
    run.rule('R10', r10_sync_delimiter_not_split, 'sync reader: "enough is buffered" after a failed search keeps len(delimiter) - 1 bytes back', floor=1)
    run.rule('R11', r11_min_chunk, 'async reader: every chunk of the normalising source iterator but the last covers the one-chunk look-ahead of the delimiter search', floor=3)
    run.rule('R12', r12_size_cap, 'sync reader: a read with a non-negative size returns at most `size` bytes (per-method contracts)', floor=10)
    run.rule('R13', r13_cursor_in_buffer, 'both readers: 0 <= _buffer_pos <= _buffer_len on every acyclic path (sync: a cursor stored after a refill is clamped to what was delivered; '
             'async: a public method that replaces the buffer does not leave the cursor behind)', floor=10)
    run.rule('R14', r14_subreader_chunk_size, 'both readers: a delimited sub-reader is constructed with the parent reader\'s chunk size', floor=2)
    run.rule('R15', r15_declared_length_is_the_budget, 'sync reader: the constructor stores the declared maximum length as the initial budget for every '
             'declared length, 0 included (evaluated on {0, 1, 5}); a truthiness default is a violation', floor=3)
    run.rule('R16', r16_peek_window, 'both readers: peek() returns the window [cursor, cursor + n), n decided by the size partition (default / negative / oversize -> '
             'chunk_size, 0 -> 0, else size); short only at the end of the stream', floor=10)
    run.rule('R17', r17_none_before_ordering, 'both readers: a None argument of an Optional parameter of a public method never reaches an ordering comparison / '
             'arithmetic (type partition; reader callees followed)', floor=6)
    run.rule('R18', r18_collect_loops, 'both readers: collecting loops are left only when the countdown is used up / the source is dry / the piece is empty; running totals '
             'equal what was collected; a non-empty backlog is part of the result', floor=6)
    run.rule('R19', r19_one_shot_guard, 'async reader: the one-shot iteration guard is tested / set by __aiter__ only and no other method iterates the reader itself '
             '(pipe / exhaust / read* are repeatable and work after an iteration was started)', floor=6)
