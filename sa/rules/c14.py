"""C14 - buffered readers (DESIGN.md section 3, C14).

Declined as a whole (history x chunking equivalence with a flat cursor is
value-level).  Decided with E4 (sa/linexpr.py):
R1 `_buffer_len == len(_buffer)` is preserved by every acyclic path of every
method of both readers; R2 (sync) the source is read only in one place, never
for more than the remaining budget, and the budget is decreased by what was
obtained; R3 a delimiter is skipped only after it was verified, and delimiter
lengths are confined to [1, chunk_size]; R4 (async) tell()/eof are functions of
the cursor fields, `_consumed` grows by the length of every chunk handed out.
"""

from __future__ import annotations

import ast

from .. import flow
from ..cfg import cfg_of
from ..linexpr import Env, Lin, NONE, Seq, fresh, local_edges, loop_heads, paths_from, run_steps, segments
from ..model import AnchorError, Func, UnknownIdiom, dotted, short, unparse
from .c07_helpers import Verdicts, require_attrs
from .common import strip_await, walk_self

SYNC = 'falcon.util.reader.BufferedReader'
ASYNC = 'falcon.asgi.reader.BufferedReader'
BUF, BLEN, BPOS = 'self._buffer', 'self._buffer_len', 'self._buffer_pos'
BUDGET, SOURCE_FN, CHUNK = 'self._max_bytes_remaining', 'self._read_func', 'self._chunk_size'
DELIM = 'delimiter'          # public keyword parameter of read_until / pipe_until / delimit


def _expr(text):
    return ast.parse(text, mode='eval').body


def _stores(f):
    """self attributes stored (assigned / augmented) directly in f."""
    out = set()
    for n in walk_self(f.node):
        if isinstance(n, ast.Attribute) and isinstance(n.ctx, (ast.Store, ast.Del)) and dotted(n) and dotted(n).startswith('self.'):
            out.add(dotted(n))
    return out


class Reader:
    def __init__(self, p, qual):
        self.p = p
        self.qual = qual
        self.cls = p.cls(qual)
        require_attrs(p, qual, [BUF, BLEN, BPOS, CHUNK])
        self.methods = dict(self.cls.methods)
        self._writes = {}
        changed = True
        direct = {n: _stores(f) for n, f in self.methods.items()}
        self._writes = {n: set(s) for n, s in direct.items()}
        while changed:      # close over self.m() calls
            changed = False
            for n, f in self.methods.items():
                for c in walk_self(f.node):
                    if isinstance(c, ast.Call) and isinstance(c.func, ast.Attribute) and dotted(c.func.value) == 'self' and c.func.attr in self._writes:
                        add = self._writes[c.func.attr] - self._writes[n]
                        if add:
                            self._writes[n] |= add
                            changed = True

    def writes(self, name):
        return self._writes.get(name)

    def len_pairs(self, f):
        """[(x, x_len)] parameter pairs following the cached-length naming convention."""
        ps = f.params()
        return [(a, a + '_len') for a in ps if a + '_len' in ps]


# ---------------------------------------------------------------------------
# R1 cached-length invariant
# ---------------------------------------------------------------------------

def _start_env(rd, f, on_call, assume_inv=True):
    env = Env(on_call)
    env.kind[('v', BUF)] = 'seq'
    blen, bpos = env.declare(BLEN, 'int'), env.declare(BPOS, 'int')
    if assume_inv:
        env.add_eq(blen, Lin.atom(('len', ('v', BUF))))
        env.add_le(0, bpos)
        env.add_le(bpos, blen)
    for x, xl in rd.len_pairs(f):
        env.vars[xl] = Lin.atom(('len', ('v', x)))      # the declared convention, checked at every call site
    return env


def _inv_holds(env):
    cur = env.eval(_expr(BLEN))
    ln = env.length(env.eval(_expr(BUF)), BUF)
    if not isinstance(cur, Lin):
        return False, None
    return env.prove_eq(cur, ln), (cur - ln)


def _r1_method(run, v, rd, f):
    p = run.project
    cfg = cfg_of(f, p)
    run.use_cfg(cfg)
    what = '%s == len(%s) is preserved' % (BLEN.split('.')[1], BUF.split('.')[1])
    kind = 'cached length'

    def check(env, at, wit=None):
        ok, diff = _inv_holds(env)
        last = env.ghost.get('last', f.name)
        if not ok and diff is not None and diff.tainted():
            v.unknown('%s: %s' % (f.qual, '; '.join(env.notes[-2:])))
            return
        params = set(f.params())
        if not ok and diff is not None and any((a[0] == 'v' and a[1] in params) or (a[0] == 'len' and a[1][0] == 'v' and a[1][1] in params) for a in diff.atoms()):
            # the verdict hinges on a relation between parameters that no declared convention (<x>_len) supplies
            v.unknown('%s: cached length depends on an undeclared relation between parameters (%r)' % (f.qual, diff))
            return
        v.note(f, kind, what, ok, last, '%s: %s != len(%s) %s (difference %r)' % (f.name, BLEN, BUF, at, diff), wit,
               'a read/peek after this point slices the buffer with a stale length: bytes are skipped or returned twice')

    def on_call(env, call):
        fn = call.func
        if isinstance(fn, ast.Attribute) and dotted(fn.value) == 'self' and fn.attr in rd.methods:
            callee = rd.methods[fn.attr]
            args = [env.eval(a) for a in call.args if not isinstance(a, ast.Starred)]
            kw = {k.arg: env.eval(k.value) for k in call.keywords if k.arg}
            w = rd.writes(fn.attr) or set()
            touches = bool({BUF, BLEN, BPOS} & (w | {dotted(n) for n in walk_self(callee.node) if isinstance(n, ast.Attribute) and dotted(n)}))
            if touches:
                check(env, 'when %s() is called' % fn.attr)
            # cached-length parameter pairs must be passed consistently
            ps = [a for a in callee.params() if a != 'self']
            bound = dict(zip(ps, args))
            bound.update(kw)
            for x, xl in rd.len_pairs(callee):
                if x in bound and xl in bound:
                    ok = isinstance(bound[xl], Lin) and env.prove_eq(bound[xl], env.length(bound[x], x))
                elif x not in bound and xl not in bound:
                    ok = True
                else:
                    ok = False
                v.note(f, 'length argument of %s' % fn.attr, 'the %s argument passed to %s() is the length of %s' % (xl, fn.attr, x), ok, call,
                       rw='the callee splices a chunk into the buffer with a wrong cached length')
            hv = [a for a in (BUF, BLEN, BPOS) if a in w]
            if hv:
                env.havoc(hv, 'after %s' % fn.attr)
                nb = env.vars[BUF].lone() if BUF in env.vars else None
                if BUF in hv and nb is not None:
                    env.kind[nb] = 'seq'
                # the callee preserves the invariant (its own obligation)
                env.add_eq(env.eval(_expr(BLEN)), env.length(env.eval(_expr(BUF)), BUF))
                env.add_le(0, env.eval(_expr(BPOS)))
                env.add_le(env.eval(_expr(BPOS)), env.eval(_expr(BLEN)))
            return Lin.atom(fresh('result of ' + short(call, 30)))
        return None

    def on_node(env, n, label):
        if label == 'exc':
            return
        if n.kind == 'stmt' and any(isinstance(x, (ast.Yield, ast.YieldFrom)) for x in n.walk()):
            check(env, 'at `%s`' % short(n.ast, 40))
        if n.kind == 'stmt' and isinstance(n.ast, (ast.Assign, ast.AugAssign, ast.AnnAssign)):
            tg = n.ast.targets if isinstance(n.ast, ast.Assign) else [n.ast.target]
            if any(dotted(t) in (BUF, BLEN) for t in tg):
                env.ghost['last'] = n.ast

    for start, steps, end in segments(cfg):
        if end == cfg.xexit:
            continue
        env = _start_env(rd, f, on_call, assume_inv=not (f.name == '__init__' and start == cfg.entry))
        wit = flow.describe_path(cfg, [s[0] for s in steps])
        for e in run_steps(env, cfg, steps, on_node):
            if any(k == 'raise' for k, _v, _n in e.log):
                continue
            check(e, 'at the end of the path', wit)


def r1_cached_length(run):
    v = Verdicts(run)
    run.assume('C14 R1: class invariant 0 <= _buffer_pos <= _buffer_len is assumed (side condition of len(x[p:]) = len(x) - p); '
               'parameters named <x>_len next to <x> are cached lengths (checked at every call site)')
    for qual in (SYNC, ASYNC):
        rd = Reader(run.project, qual)
        pair_callees = {n for n, f in rd.methods.items() if rd.len_pairs(f)}
        n = 0
        for name, f in sorted(rd.methods.items()):
            calls = {c.func.attr for c in walk_self(f.node) if isinstance(c, ast.Call) and isinstance(c.func, ast.Attribute) and dotted(c.func.value) == 'self'}
            if {BUF, BLEN} & _stores(f) or calls & pair_callees:
                _r1_method(run, v, rd, f)
                n += 1
        if n < 3:
            raise AnchorError('%s: fewer than 3 methods write the buffer' % qual)
    v.flush()


# ---------------------------------------------------------------------------
# R2 budget of the synchronous reader
# ---------------------------------------------------------------------------

def r2_budget(run):
    p = run.project
    rd = Reader(p, SYNC)
    require_attrs(p, SYNC, [BUDGET, SOURCE_FN])
    v = Verdicts(run)
    users = {}
    for name, f in sorted(rd.methods.items()):
        if name == '__init__':
            continue
        for n in walk_self(f.node):
            if isinstance(n, ast.Attribute) and dotted(n) == SOURCE_FN and isinstance(n.ctx, ast.Load):
                users.setdefault(name, []).append(n)
    if not users:
        raise AnchorError('%s: %s is never used' % (SYNC, SOURCE_FN))
    gate = max(users, key=lambda k: len(users[k]))
    for name, nodes in users.items():
        for n in nodes:
            v.note(rd.methods[name], 'single reader @%s' % name, 'the source callable is used in one method only (%s)' % gate, name == gate, n,
                   rw='a read that bypasses the budget takes bytes beyond the declared maximum length')
    f = rd.methods[gate]
    cfg = cfg_of(f, p)
    run.use_cfg(cfg)

    def is_src(c):
        return isinstance(c, ast.Call) and dotted(c.func) == SOURCE_FN

    call_nodes = {}
    for n in cfg.live_nodes():
        cs = [c for c in n.calls() if is_src(c)]
        if cs:
            if len(cs) > 1 or len(cs[0].args) != 1 or cs[0].keywords:
                raise UnknownIdiom('%s: unexpected shape of the source call %s' % (f.qual, n.text()))
            call_nodes[n.id] = cs[0]
    cuts = set(call_nodes)
    ordinal = {nid: '#%d %s' % (i + 1, unparse(call_nodes[nid])) for i, nid in enumerate(sorted(cuts, key=lambda i: cfg.node(i).lineno))}

    def on_call(env, call):
        if is_src(call):
            r = fresh('chunk')
            env.kind[r] = 'seq'
            env.ghost['got'] = env.ghost.get('got', ()) + (r,)
            env.eval(call.args[0])
            return Lin.atom(r)
        if isinstance(call.func, ast.Attribute) and dotted(call.func.value) == 'self':
            env.havoc([BUDGET], 'after ' + short(call, 30))
        return None

    bexpr = _expr(BUDGET)
    for start in [cfg.entry] + sorted(cuts):
        for steps, end in paths_from(cfg, start, cuts, local_edges(cfg)):
            env = Env(on_call)
            rem0 = env.declare(BUDGET, 'int')
            if start != cfg.entry:      # inductive hypothesis: this call respected the budget
                env.add_le(env.eval(call_nodes[start].args[0]), rem0)
            wit = flow.describe_path(cfg, [s[0] for s in steps])
            for e in run_steps(env, cfg, steps):
                rem = e.eval(bexpr)
                if end in cuts:
                    arg = e.eval(call_nodes[end].args[0])
                    ok = isinstance(arg, Lin) and isinstance(rem, Lin) and e.prove_le(arg, rem)
                    v.note(f, 'clamped @%s' % ordinal[end], 'the size requested from the source never exceeds the remaining budget', ok,
                           call_nodes[end], 'requested %r with a remaining budget of %r' % (arg, rem), wit,
                           'max_stream_len 3 over a 10-byte source: read(10) asks the source for more than 3 bytes')
                if start != cfg.entry:
                    got = e.ghost.get('got', ())
                    ok = isinstance(rem, Lin) and len(got) == 1 and (e.prove_eq(rem, rem0 - Lin.atom(('len', got[0]))) or e.prove_eq(rem, 0))
                    v.note(f, 'deducted @%s' % ordinal[start], 'after each source call the budget decreases by len(chunk), or is zeroed at EOF', ok,
                           call_nodes[start], 'budget %r after a call that returned %s' % (rem, 'one chunk' if len(got) == 1 else '%d chunks' % len(got)), wit,
                           'a short read from the source: later reads are allowed to exceed the declared maximum length')
    v.flush()


# ---------------------------------------------------------------------------
# R3 delimiter consumption
# ---------------------------------------------------------------------------

def _raises(cfg, p, f, nid, label, cls_tail):
    """Does the out-edge `label` of test node nid lead straight to `raise <cls_tail>(...)`?"""
    for (y, l) in cfg.succ[nid]:
        if l != label:
            continue
        n = cfg.node(y)
        while n.kind == 'join' and len(cfg.succ[n.id]) == 1:
            n = cfg.node(cfg.succ[n.id][0][0])
        if n.kind == 'stmt' and isinstance(n.ast, ast.Raise) and n.ast.exc is not None:
            e = n.ast.exc.func if isinstance(n.ast.exc, ast.Call) else n.ast.exc
            q = p.resolve_expr(f.module, e, f) or ''
            return q.endswith(cls_tail)
    return False


def _arm_values(env, caller, expr):
    """Values an argument may take, looking through one `name = a if c else b` binding of the caller."""
    if isinstance(expr, ast.Name):
        asg = [s for s in walk_self(caller.node) if isinstance(s, ast.Assign) and any(isinstance(t, ast.Name) and t.id == expr.id for t in s.targets)]
        if len(asg) == 1 and isinstance(asg[0].value, ast.IfExp):
            return [env.eval(asg[0].value.body), env.eval(asg[0].value.orelse)]
    if isinstance(expr, ast.IfExp):
        return [env.eval(expr.body), env.eval(expr.orelse)]
    return [env.eval(expr)]


def _delim_params(rd, run):
    """{(method name, param)}: parameters that always carry len(delimiter) or 0."""
    out = set()
    dl = Lin.atom(('len', ('v', DELIM)))
    for name, g in rd.methods.items():
        for q in [a for a in g.params() if a not in ('self', DELIM)]:
            sites, good = 0, True
            for cname, caller in rd.methods.items():
                if DELIM not in caller.params():
                    continue
                for c in walk_self(caller.node):
                    if not (isinstance(c, ast.Call) and isinstance(c.func, ast.Attribute) and dotted(c.func.value) == 'self' and c.func.attr == name):
                        continue
                    ps = [a for a in g.params() if a != 'self']
                    arg = next((k.value for k in c.keywords if k.arg == q), None)
                    if arg is None and q in ps and ps.index(q) < len(c.args):
                        arg = c.args[ps.index(q)]
                    if arg is None:
                        good = False
                        continue
                    sites += 1
                    env = Env()
                    for s in walk_self(caller.node):    # straight-line prelude bindings of the caller (no branches needed)
                        if isinstance(s, ast.Assign) and len(s.targets) == 1 and isinstance(s.targets[0], ast.Name) and not isinstance(s.value, ast.IfExp) \
                                and s in caller.node.body:
                            env.exec(s)
                    vals = _arm_values(env, caller, arg)
                    good = good and all(isinstance(x, Lin) and (x == dl or x == Lin.const(0)) for x in vals) and any(x == dl for x in vals)
            if sites and good:
                out.add((name, q))
    return out


def r3_delimiter(run):
    p = run.project
    v = Verdicts(run)
    n_sites = 0
    for qual in (SYNC, ASYNC):
        rd = Reader(p, qual)
        dparams = _delim_params(rd, run)
        dl = Lin.atom(('len', ('v', DELIM)))
        guarded = 0
        for name, f in sorted(rd.methods.items()):
            if DELIM not in f.params():
                continue
            cfg = cfg_of(f, p)
            advances = [n for n in cfg.live_nodes() if n.kind == 'stmt' and isinstance(n.ast, (ast.AugAssign, ast.Assign))
                        and any(dotted(t) == BPOS for t in (n.ast.targets if isinstance(n.ast, ast.Assign) else [n.ast.target]))]
            has_len_guard = any(isinstance(n.ast, ast.Raise) and _raise_class(p, f, n.ast).endswith('builtins.ValueError') for n in cfg.live_nodes() if n.kind == 'stmt')
            if not advances and not has_len_guard:
                continue
            run.use_cfg(cfg)
            len_params = {q for (m, q) in dparams if m == name}

            def is_delim_len(x):
                return isinstance(x, Lin) and (x == dl or (x.lone() is not None and x.lone()[0] == 'v' and x.lone()[1] in len_params))

            def on_node(env, n, label):
                if n.kind == 'test' and label in ('T', 'F'):
                    other = 'F' if label == 'T' else 'T'
                    if _raises(cfg, p, f, n.id, other, 'DelimiterError'):
                        t = n.ast.operand if isinstance(n.ast, ast.UnaryOp) and isinstance(n.ast.op, ast.Not) else n.ast
                        if isinstance(t, ast.Compare) and len(t.ops) == 1 and isinstance(t.ops[0], (ast.Eq, ast.NotEq)):
                            sides = [strip_await(t.left), strip_await(t.comparators[0])]
                            names = [dotted(s) for s in sides]
                            if DELIM in names:
                                val = env.eval(sides[1 - names.index(DELIM)])       # peek(n) directly or through a temporary
                                amt = env.ghost.get('peeks', {}).get(val.lone()) if isinstance(val, Lin) else None
                                if amt is not None:
                                    env.ghost['peeked'] = env.ghost.get('peeked', ()) + (amt,)
                            elif BPOS in names:
                                env.ghost['pos_checked'] = True
                if n in advances and label != 'exc':
                    if isinstance(n.ast, ast.AugAssign) and isinstance(n.ast.op, ast.Add):
                        amount = env.eval(n.ast.value)
                    else:
                        new = env.eval(n.ast.value)
                        amount = new - env.eval(_expr(BPOS)) if isinstance(new, Lin) else None
                    if is_delim_len(amount):
                        ok = env.ghost.get('pos_checked', False) or any(isinstance(x, Lin) and x == amount for x in env.ghost.get('peeked', ()))
                        env.ghost['sites'] = env.ghost.get('sites', ()) + ((n.ast, ok),)

            def on_call(env, call):
                fn = call.func
                if isinstance(fn, ast.Attribute) and fn.attr == 'peek' and dotted(fn.value) == 'self' and len(call.args) == 1 and not call.keywords:
                    a = fresh('peek')
                    env.ghost['peeks'] = {**env.ghost.get('peeks', {}), a: env.eval(call.args[0])}
                    return Lin.atom(a)
                return None

            for start, steps, end in segments(cfg):
                env = Env(on_call)
                env.kind[('v', DELIM)] = 'seq'
                for e in run_steps(env, cfg, steps, on_node):
                    for (node, ok) in e.ghost.get('sites', ()):
                        v.note(f, 'verified @%s' % unparse(node), 'the cursor skips a delimiter only after the bytes at the cursor were compared with it '
                               '(peek-compare or position equality, DelimiterError otherwise)', ok, node,
                               witness=flow.describe_path(cfg, [s[0] for s in steps]),
                               rw='read_until(b"--", consume_delimiter=True) with a size cap that ends before the delimiter: two payload bytes are silently skipped')
                        n_sites += 1
                    if has_len_guard and start == cfg.entry and not any(k == 'raise' for k, _v, _n in e.log):
                        ok = e.prove_le(1, dl) and e.prove_le(dl, e.var(CHUNK))
                        v.note(f, 'delimiter length', 'past the ValueError guard the delimiter length lies in [1, chunk_size]', ok, 'delimiter length guard',
                               'len(delimiter) is not confined to [1, chunk_size] on a path that continues',
                               flow.describe_path(cfg, [s[0] for s in steps]),
                               'an empty delimiter (or one longer than a chunk) is searched for: endless loop / missed boundary match')
                        guarded += 1
        if not guarded:
            raise AnchorError('%s: no method rejects delimiter lengths outside [1, chunk_size]' % qual)
    if n_sites == 0:
        raise AnchorError('no delimiter-consuming cursor advance found')
    v.flush()


def _raise_class(p, f, r):
    if r.exc is None:
        return ''
    e = r.exc.func if isinstance(r.exc, ast.Call) else r.exc
    return p.resolve_expr(f.module, e, f) or ''


# ---------------------------------------------------------------------------
# R4 tell()/eof of the asynchronous reader
# ---------------------------------------------------------------------------

def r4_position(run):
    p = run.project
    rd = Reader(p, ASYNC)
    CONS, EXH = 'self._consumed', 'self._exhausted'
    require_attrs(p, ASYNC, [CONS, EXH, 'self._source'])
    v = Verdicts(run)

    def attrs(f):
        return {dotted(n) for n in walk_self(f.node) if isinstance(n, ast.Attribute) and dotted(n) and dotted(n).startswith('self.')}

    tell = p.func(ASYNC + '.tell')
    cfg = cfg_of(tell, p)
    run.use_cfg(cfg)
    for steps, end in paths_from(cfg, cfg.entry, loop_heads(cfg), local_edges(cfg)):
        env = Env()
        for e in run_steps(env, cfg, steps):
            rv = [val for k, val, _n in e.log if k == 'return']
            want = e.var(CONS) - (e.var(BLEN) - e.var(BPOS))
            ok = bool(rv) and isinstance(rv[-1], Lin) and e.same(rv[-1], want)
            v.note(tell, 'tell', 'tell() is consumed - (buffer_len - buffer_pos)', ok, [n for k, _v, n in e.log if k == 'return'][-1] if rv else 'tell',
                   'tell() returns %r' % (rv[-1] if rv else None,), rw='tell() disagrees with the number of bytes handed to the application')
    eof = p.func(ASYNC + '.eof')
    run.use(eof)
    run_ok = attrs(eof) == {EXH, BLEN, BPOS}
    v.note(eof, 'eof', 'eof is expressed through _exhausted, _buffer_len and _buffer_pos only', run_ok, eof.node.body[-1],
           rw='eof is reported while unread bytes remain in the buffer (or never reported)')
    # the normalising source iterator
    init = p.func(ASYNC + '.__init__')
    srcs = [strip_await(s.value) for s in walk_self(init.node) if isinstance(s, ast.Assign) and any(dotted(t) == 'self._source' for t in s.targets)]
    norm = None
    for s in srcs:
        if isinstance(s, ast.Call) and isinstance(s.func, ast.Attribute) and dotted(s.func.value) == 'self' and s.func.attr in rd.methods:
            norm = rd.methods[s.func.attr]
    if norm is None:
        raise AnchorError('%s.__init__: self._source is not built by a method of the reader' % ASYNC)
    for name, f in sorted(rd.methods.items()):
        for n in walk_self(f.node):
            if isinstance(n, ast.Attribute) and dotted(n) == CONS and isinstance(n.ctx, ast.Store):
                v.note(f, 'owner @%s' % name, '_consumed is written only by the constructor and the source iterator', f is norm or name == '__init__', n,
                       rw='tell() drifts from the bytes actually delivered')
    cfg = cfg_of(norm, p)
    run.use_cfg(cfg)
    for start, steps, end in segments(cfg):
        env = Env()
        c0 = env.declare(CONS, 'int')
        for e in run_steps(env, cfg, steps):
            out, last = Lin.const(0), None
            for k, val, node in e.log:
                if k == 'yield':
                    out = out + e.length(val, short(node, 30))
                    last = node
            d = e.eval(_expr(CONS)) - c0
            v.note(norm, 'consumed', '_consumed grows by exactly the length of every chunk the source iterator yields', isinstance(d, Lin) and e.prove_eq(d, out),
                   last if last is not None else norm.name, '_consumed grows by %r while %r bytes are yielded' % (d, out),
                   flow.describe_path(cfg, [s[0] for s in steps]), 'tell() lags behind / runs ahead of the bytes returned by read()')
    v.flush()


# ---------------------------------------------------------------------------
# R5 size normalisation of the synchronous reader (sign/partition analysis, as C07 R2)
# ---------------------------------------------------------------------------

def r5_normalize(run):
    from .c07 import CELLS
    p = run.project
    Reader(p, SYNC)
    require_attrs(p, SYNC, [BUDGET])
    f = p.func(SYNC + '._normalize_size')
    ps = [a for a in f.params() if a != 'self']
    if len(ps) != 1:
        raise UnknownIdiom('%s: expected one size parameter' % f.qual)
    cfg = cfg_of(f, p)
    run.use_cfg(cfg)
    if loop_heads(cfg):
        raise UnknownIdiom('%s: loops are not expected' % f.qual)
    run.assume('C14 R5: on entry 0 <= _buffer_pos <= _buffer_len and _max_bytes_remaining >= 0, so the readable amount is non-negative')
    pending = []
    for cname, cset in CELLS:
        bad, n = {}, 0
        for steps, end in paths_from(cfg, cfg.entry, (), local_edges(cfg)):
            env = Env()
            avail = env.declare(BUDGET, 'nat') + env.declare(BLEN, 'int') - env.declare(BPOS, 'int')
            env.add_le(env.var(BPOS), env.var(BLEN))
            env.add_le(0, env.var(BPOS))
            sz = env.var(ps[0])
            if cname != 'is None':
                env.is_none[sz.lone()] = False
            if not cset(env, sz, avail):
                continue
            for e in run_steps(env, cfg, steps):
                for k, r, node in e.log:
                    if k != 'return':
                        continue
                    n += 1
                    if isinstance(r, Lin) and not (r.lone() is not None and e.is_none.get(r.lone())) and e.prove_le(0, r) and e.prove_le(r, avail):
                        continue
                    if not isinstance(r, Lin) or (r.lone() is not None and e.is_none.get(r.lone())) or e.prove_lt(r, 0) or e.prove_lt(avail, r):
                        bad['%s [%s %s]' % (unparse(node), ps[0], cname)] = (node, r)
                    else:
                        pending.append('%s: cannot bound %r for %s %s' % (f.qual, r, ps[0], cname))
        for cons, (node, r) in sorted(bad.items()):
            run.fail('for %s %s the normalised size is %r, outside [0, readable amount]: the cursor moves backwards / past the data' % (ps[0], cname, r),
                     f, cons, where=f.loc(node),
                     runtime_witness='BufferedReader(BytesIO(b"abcdefgh").read, 8, 4): read(3) -> b"abc", read(-2) -> b"", read() -> b"bcdefgh" (b"bc" returned twice)')
        if not bad:
            run.ok('for %s %s the normalised size lies in [0, readable amount] (%d return(s))' % (ps[0], cname, n), f.loc(), '%s [%s]' % (f.name, cname))
    if pending:
        raise UnknownIdiom('; '.join(pending[:3]))


def check(run):
    run.assume('C14: only falcon/util/reader.py and falcon/asgi/reader.py are decided; falcon/cyutil/reader.pyx (the compiled twin) is not analysed')
    run.extra['twin_drift_note'] = 'falcon/cyutil/reader.pyx is a hand-maintained Cython twin of falcon/util/reader.py; not parsed, not compared'
    run.rule('R1', r1_cached_length, 'cached buffer length invariant on every acyclic path', floor=8)
    run.rule('R2', r2_budget, 'sync reader: single, clamped, accounted source reads', floor=5)
    run.rule('R3', r3_delimiter, 'delimiter consumption is verified; delimiter length confined', floor=4)
    run.rule('R4', r4_position, 'async reader: tell()/eof/_consumed', floor=4)
    run.rule('R5', r5_normalize, 'sync reader: size normalisation covers the domain of the size argument', floor=6)
