"""C15 - response headers and cookies (DESIGN.md section 3, C15).

R1  every key of a response's `_headers` dict is lower-case.
R2  Set-Cookie is kept out of `_headers` (guards, extra-header route).
R3  both emitters merge the three stores, in order, one line per cookie, no appended line filtered out.
R4  cookie attributes: parameter -> morsel key wiring and presence guards; Domain / Path are the parameter itself.
R12 presence of a plain header is decided by the key, never by the truth of the stored value (append and every reader).
R5  URI-bearing helpers are URI-encoded.
R6  the header-property factory.
R16 every plain-header writer stores str(value) (= C05 R12, shared).
R17 a failed jar store (illegal cookie name) is not swallowed.
R18 the ETag formatter leaves ready entity-tags alone (= C09 R4, shared).
"""

from __future__ import annotations

import ast
from typing import Dict, FrozenSet, List, Optional, Set, Tuple

from .. import flow
from ..cfg import cfg_of
from ..flow import ERROR
from ..model import UNKNOWN, AnchorError, Func, UnknownIdiom, attr_chain, local_names, short, walk_no_nested
from .c13_helpers import Defs, resolve_alias
from .c15_helpers import (ASGI_RESPONSE, RESPONSE, Provenance, Site, controlling_edges, header_sites, bound_args, helper_returns, is_lower_call, key_case,
                          key_helper, raises_only,
                          reaching, response_receiver, store_exprs)
from .c17_helpers import param_values, single_return_expr
from .common import enclosing_map, implied, single, strip_await, walk_self, stmts_walk

FACTORY = 'falcon.response_helpers._header_property'
WSGI_EMIT = RESPONSE + '._wsgi_headers'
ASGI_EMIT = ASGI_RESPONSE + '._asgi_headers'
URI_MOD = 'falcon.util.uri'


def _sites(run) -> List[Site]:
    s = getattr(run, '_c15_sites', None)
    if s is None:
        s = header_sites(run.project)
        run._c15_sites = s
        for f in {x.func.qual: x.func for x in s}.values():
            run.use_cfg(cfg_of(f, run.project))
    return s


# ---------------------------------------------------------------------------
# R1
# ---------------------------------------------------------------------------

def r1_lower_keys(run):
    p = run.project
    for s in _sites(run):
        rd = reaching(p, s.func)
        nid = rd.cfg_node(s.node)
        case, why = key_case(p, s.func, s.key, nid)
        if case == 'unknown':
            raise UnknownIdiom('%s: cannot decide the letter case of the header key in `%s`: %s' % (s.func.qual, short(s.node), why))
        run.check(case == 'lower', 'the key of this %s access to the response header dict is lower-case (%s)' % (s.kind, why),
                  s.func, s.node, runtime_witness='a header stored/looked up under a mixed-case key: readable in one letter case '
                                                  'and not another, or emitted twice')


# ---------------------------------------------------------------------------
# R2
# ---------------------------------------------------------------------------

def _cookie_atom(p, f, keyname: str, want_eq: bool, depth: int = 0):
    """atom(e): e is `<keyname> == 'set-cookie'` (want_eq) / `<keyname> != 'set-cookie'`, written in place or as a call of a
    one-expression predicate helper handed the name (`_is_set_cookie(name)` with `return name == 'set-cookie'`)."""
    def atom(e):
        if isinstance(e, ast.Call) and depth < 2:
            g = key_helper(p, f, e)
            body = single_return_expr(g) if g is not None else None
            if body is not None:
                qs = [q for q, a in bound_args(g, e).items() if isinstance(a, ast.Name) and a.id == keyname]
                if len(qs) == 1:
                    return _cookie_atom(p, g, qs[0], want_eq, depth + 1)(strip_await(body))
            return False
        if not (isinstance(e, ast.Compare) and len(e.ops) == 1):
            return False
        a, b = e.left, e.comparators[0]
        if isinstance(b, ast.Name) and b.id == keyname:
            a, b = b, a
        if not (isinstance(a, ast.Name) and a.id == keyname):
            return False
        if p.fold(f.module, b, None, f) != 'set-cookie':
            return False
        return isinstance(e.ops[0], ast.Eq if want_eq else ast.NotEq)
    return atom


def _guard_edges(p, f, cfg, keyname):
    """[(edge, is_cookie_edge)] for every test outcome that decides
    `key == 'set-cookie'`."""
    out = []
    for t in cfg.live_nodes():
        if t.kind != 'test':
            continue
        for (y, l) in cfg.succ[t.id]:
            if l not in ('T', 'F'):
                continue
            r = implied(t.ast, l == 'T', _cookie_atom(p, f, keyname, True))
            if r is None:
                r2 = implied(t.ast, l == 'T', _cookie_atom(p, f, keyname, False))
                r = None if r2 is None else (not r2)
            if r is not None:
                out.append(((t.id, y, l), r))
    return out


def _extra_writes(p, f, cfg) -> List[int]:
    denotes, _al = store_exprs(p, f, '_extra_headers')
    out = []
    for n in cfg.live_nodes():
        if n.kind != 'stmt':
            continue
        a = n.ast
        hit = False
        if isinstance(a, (ast.Assign, ast.AnnAssign, ast.AugAssign)):
            tg = a.targets if isinstance(a, ast.Assign) else [a.target]
            hit = any(denotes(t) for t in tg)
        for c in n.calls():
            if isinstance(c.func, ast.Attribute) and c.func.attr in ('append', 'extend', 'insert') and denotes(c.func.value):
                hit = True
        if hit:
            out.append(n.id)
    return out


def _not_cookie(p, f: Func, name: str, nid: int, refusing: List[Func], depth: int = 0) -> bool:
    """The value of the local `name` at cfg node `nid` of f is proven to differ from 'set-cookie':
    (a) the node is dominated by the "not set-cookie" outcome of a comparison of that same value (same reaching
        definitions) with 'set-cookie', or
    (b) every reaching definition binds the result of a module-level helper (`name = _plain_header_name(name, msg)`)
        and every return of that helper is a literal other than set-cookie or a local proven by (a)/(b) inside the
        helper.  The helpers relied upon are collected in `refusing`: what they do on the set-cookie outcome is judged
        by the caller (it must raise)."""
    cfg = cfg_of(f, p)
    rd = reaching(p, f)
    here = {d.idx for d in rd.at(nid, name)}
    for (edge, is_cookie) in _guard_edges(p, f, cfg, name):
        if is_cookie:
            continue
        if not flow.dominated_by_edge(cfg, nid, edge):
            continue
        # the compared value is the value used as the key
        there = {d.idx for d in rd.at(edge[0], name)}
        if there == here:
            return True
    ds = rd.at(nid, name)
    if not ds or depth >= 2:
        return False
    # (c) a vetting helper called as a statement before the access: `_refuse_set_cookie(name, msg)` returns normally only
    #     for a name other than set-cookie (every normal path through it takes the "not set-cookie" outcome of a comparison
    #     of the parameter that receives the name)
    for cn in cfg.live_nodes():
        if cn.kind != 'stmt' or not isinstance(cn.ast, ast.Expr) or cn.id == nid:
            continue
        call = strip_await(cn.ast.value)
        g = key_helper(p, f, call) if isinstance(call, ast.Call) else None
        if g is None:
            continue
        qs = [q for q, a in bound_args(g, call).items() if isinstance(a, ast.Name) and a.id == name]
        if len(qs) != 1 or {d.idx for d in rd.at(cn.id, name)} != here:
            continue
        if not any(flow.dominated_by_edge(cfg, nid, (cn.id, y, l)) for (y, l) in cfg.succ[cn.id] if l != 'exc'):
            continue
        gcfg = cfg_of(g, p)
        grd = reaching(p, g)
        good = [edge for (edge, is_cookie) in _guard_edges(p, g, gcfg, qs[0]) if not is_cookie
                and all(d.kind == 'param' for d in grd.at(edge[0], qs[0]))]
        if good and flow.find_path(gcfg, [gcfg.entry], [gcfg.exit], avoid_edges=good, edge_filter=flow.no_exc) is None:
            if g not in refusing:
                refusing.append(g)
            return True
    helpers = []
    for d in ds:
        g = key_helper(p, f, d.value) if d.kind == 'assign' and d.value is not None else None
        if g is None:
            return False
        helpers.append(g)
    for g in helpers:
        for (rn, rv) in helper_returns(p, g):
            rv = strip_await(rv)
            v = p.fold(g.module, rv, None, g)
            if isinstance(v, str):
                if v.lower() == 'set-cookie':
                    return False
                continue
            if not (isinstance(rv, ast.Name) and rv.id in local_names(g)):
                raise UnknownIdiom('%s: the helper returns %s as a header name' % (g.qual, short(rv)))
            if not _not_cookie(p, g, rv.id, rn, refusing, depth + 1):
                return False
        if g not in refusing:
            refusing.append(g)
    return True


def r2_set_cookie_guard(run):
    p = run.project
    _require_stores(p)
    n_guarded = 0
    via_helper: Dict[str, Tuple[Func, List[Func]]] = {}
    for s in _sites(run):
        f = s.func
        key = strip_await(s.key)
        v = p.fold(f.module, key, None, f)
        if isinstance(v, str):
            run.check(v.lower() != 'set-cookie', 'a literal header key is never set-cookie', f, s.node)
            continue
        if not isinstance(key, ast.Name):
            raise UnknownIdiom('%s: header key %s' % (f.qual, short(key)))
        if key.id not in local_names(f):
            # closure variable of the property factory: decided at the call sites below
            continue
        rd = reaching(p, f)
        nid = rd.cfg_node(s.node)
        if nid is None:
            raise UnknownIdiom('%s: no CFG node for %s' % (f.qual, short(s.node)))
        refusing: List[Func] = []
        ok = _not_cookie(p, f, key.id, nid, refusing)
        if ok and refusing:
            via_helper.setdefault(f.qual, (f, []))[1].extend(g for g in refusing if g not in via_helper[f.qual][1])
        n_guarded += 1
        run.check(ok, 'the %s access to the header dict with a caller-supplied name is dominated by the "not set-cookie" outcome of a '
                  'comparison of that same name with \'set-cookie\' (made in place or inside the module-level helper that returns the name)'
                  % s.kind, f, s.node,
                  runtime_witness="resp.%s('Set-Cookie', ...) reads/overwrites/deletes cookie lines through the plain-header API" % f.name)
    if n_guarded == 0:
        raise AnchorError('no header access keyed by a caller-supplied name found')
    # what happens on the set-cookie outcome: raise, or route to _extra_headers
    seen_funcs = {}
    for s in _sites(run):
        if isinstance(strip_await(s.key), ast.Name) and s.key.id in local_names(s.func):
            seen_funcs.setdefault(s.func.qual, (s.func, s.key.id))
    n_extra = 0
    for q, (f, keyname) in sorted(seen_funcs.items()):
        cfg = cfg_of(f, p)
        cookie_edges = [e for (e, is_cookie) in _guard_edges(p, f, cfg, keyname) if is_cookie]
        for g in (via_helper.get(q, (f, []))[1] if not cookie_edges else []):
            # the comparison lives in a helper: its set-cookie outcome must refuse (a helper cannot route to _extra_headers
            # of a response it is not handed; if it is, the shape is not read)
            gcfg = cfg_of(g, p)
            run.use_cfg(gcfg)
            gedges = []
            for lname in sorted(local_names(g)):
                gedges += [e for (e, is_cookie) in _guard_edges(p, g, gcfg, lname) if is_cookie]
            if not gedges:
                raise UnknownIdiom('%s: no set-cookie outcome found in the helper %s relied upon' % (f.qual, g.qual))
            for e in gedges:
                run.check(raises_only(gcfg, e[1]), '%s: a Set-Cookie name is refused with an exception (inside %s)' % (f.name, g.name), g,
                          gcfg.node(e[0]).ast, where='%s:%s' % (g.file, gcfg.node(e[0]).lineno),
                          runtime_witness="resp.%s('Set-Cookie', ...) silently succeeds" % f.name)
        if not cookie_edges:
            continue   # reported above (no guard at all)
        extra = _extra_writes(p, f, cfg)
        for e in cookie_edges:
            reach = flow.reachable(cfg, [e[1]], edge_filter=flow.no_exc)
            if set(extra) & reach:
                n_extra += 1
                path = flow.find_path(cfg, [e[1]], [cfg.exit], avoid_nodes=extra, edge_filter=flow.no_exc)
                run.check(path is None, '%s: a Set-Cookie value is always recorded in _extra_headers (one separate line each)' % f.name, f,
                          cfg.node(e[0]).ast, where='%s:%s' % (f.file, cfg.node(e[0]).lineno),
                          witness=flow.describe_path(cfg, path) if path else None,
                          runtime_witness="append_header('Set-Cookie', v) loses the value")
                for w in extra:
                    run.check(flow.dominated_by_edge(cfg, w, e) or any(flow.dominated_by_edge(cfg, w, e2) for e2 in cookie_edges),
                              '%s: _extra_headers only receives Set-Cookie lines' % f.name, f, cfg.node(w).ast,
                              where='%s:%s' % (f.file, cfg.node(w).lineno),
                              runtime_witness='a plain header is emitted from _extra_headers as well as from _headers (twice)')
            else:
                run.check(raises_only(cfg, e[1]), '%s: a Set-Cookie name is refused with an exception' % f.name, f, cfg.node(e[0]).ast,
                          where='%s:%s' % (f.file, cfg.node(e[0]).lineno),
                          runtime_witness="resp.%s('Set-Cookie', ...) silently succeeds" % f.name)
    if n_extra == 0:
        raise AnchorError('no method routes Set-Cookie to _extra_headers (append_header)')
    # the typed header properties never name Set-Cookie
    for (c, attr, call) in _factory_calls(p):
        v = p.fold(c.module, call.args[0], c, None) if call.args else UNKNOWN
        if not isinstance(v, str):
            raise UnknownIdiom('%s.%s: header name of the property is not a constant' % (c.qual, attr))
        run.check(v.lower() != 'set-cookie', 'header property %s does not name Set-Cookie' % attr, c.qual, call, where=c.loc(call))


def _factory_calls(p):
    """(class, attribute, call) for every `X = _header_property(...)` class attribute."""
    p.func(FACTORY)
    out = []
    for cq, c in sorted(p.classes.items()):
        if not (cq.startswith('falcon.') and not cq.startswith('falcon.bench')):
            continue
        for attr, val in c.attrs.items():
            if isinstance(val, ast.Call) and resolve_alias(p, c.module, val.func) == FACTORY:
                out.append((c, attr, val))
    if not out:
        raise AnchorError('no call of %s found' % FACTORY)
    return out


# ---------------------------------------------------------------------------
# R3
# ---------------------------------------------------------------------------

STORES = ('_headers', '_extra_headers', '_cookies')


def _mentions_store(p, f, e, denoters) -> Set[str]:
    """the stores an expression reads: named in place, or read by a one-expression helper method of the class it calls
    (`items += self._cookie_lines()` with `return [... for c in self._cookies.values()]`)"""
    out = set()
    for x in ast.walk(e):
        for st, (den, _al) in denoters.items():
            if den(x):
                out.add(st)
        if isinstance(x, ast.Call):
            g = key_helper(p, f, x)
            body = single_return_expr(g) if g is not None and g.cls is not None else None
            if body is not None:
                for st in denoters:
                    gden, _al = store_exprs(p, g, st)
                    if any(gden(y) for y in ast.walk(body)):
                        out.add(st)
    return out


def _pair_encoder(p, g: Func) -> Tuple[bool, str]:
    """Does function g(d) return [(k.encode(c), v.encode(c)) for k, v in d.items()]
    (comprehension or append loop), names untouched but for the encoding?"""
    params = g.params()
    if not params:
        return False, 'no parameter'
    d = params[0]
    for n in walk_no_nested(g.node):
        loops = []
        if isinstance(n, (ast.For,)):
            loops.append((n.target, n.iter, [c.args[0] for c in ast.walk(n) if isinstance(c, ast.Call) and isinstance(c.func, ast.Attribute)
                                             and c.func.attr == 'append' and c.args]))
        elif isinstance(n, (ast.ListComp, ast.GeneratorExp)) and len(n.generators) == 1 and not n.generators[0].ifs:
            loops.append((n.generators[0].target, n.generators[0].iter, [n.elt]))
        for (tgt, it, elts) in loops:
            if not (isinstance(it, ast.Call) and isinstance(it.func, ast.Attribute) and it.func.attr == 'items'
                    and isinstance(it.func.value, ast.Name) and it.func.value.id == d):
                continue
            if not (isinstance(tgt, ast.Tuple) and len(tgt.elts) == 2 and all(isinstance(x, ast.Name) for x in tgt.elts)):
                continue
            k = tgt.elts[0].id
            if len(elts) == 1 and isinstance(elts[0], ast.Tuple) and len(elts[0].elts) == 2 and _only_encoded(elts[0].elts[0], k):
                return True, 'names are the dict keys, encoded only'
            return False, 'tuple built from the items is not (key.encode(..), value.encode(..))'
    return False, 'no loop over %s.items()' % d


def _only_encoded(e, name: str) -> bool:
    """e is `name` or `name.encode(<consts>)`."""
    if isinstance(e, ast.Name) and e.id == name:
        return True
    return (isinstance(e, ast.Call) and isinstance(e.func, ast.Attribute) and e.func.attr == 'encode'
            and isinstance(e.func.value, ast.Name) and e.func.value.id == name
            and all(isinstance(a, ast.Constant) for a in e.args) and all(isinstance(k.value, ast.Constant) for k in e.keywords))


def _presence_test(edge, cfg, den) -> Optional[bool]:
    """Does traversing `edge` mean exactly "the store is present / non-empty"?
    True yes; False it means absent; None not a presence test of this store."""
    t = cfg.node(edge[0])

    def atom(e):
        if den(e):
            return True
        if isinstance(e, ast.Compare) and len(e.ops) == 1 and den(e.left) and isinstance(e.comparators[0], ast.Constant) \
                and e.comparators[0].value is None and isinstance(e.ops[0], ast.IsNot):
            return True
        if isinstance(e, ast.Call) and isinstance(e.func, ast.Name) and e.func.id == 'len' and len(e.args) == 1 and den(e.args[0]):
            return True
        return False

    def atom_absent(e):
        return (isinstance(e, ast.Compare) and len(e.ops) == 1 and den(e.left) and isinstance(e.comparators[0], ast.Constant)
                and e.comparators[0].value is None and isinstance(e.ops[0], ast.Is))

    # the whole test must be the atom (possibly negated): a conjunction with
    # something else would withhold lines for another reason
    e = t.ast
    neg = False
    while isinstance(e, ast.UnaryOp) and isinstance(e.op, ast.Not):
        e = e.operand
        neg = not neg
    if atom(e):
        return (edge[2] == 'T') != neg
    if atom_absent(e):
        return (edge[2] == 'F') != neg
    return None


def _emitter(run, tag, f: Func, want_bytes: bool):
    p = run.project
    cfg = cfg_of(f, p)
    run.use_cfg(cfg)
    denoters = {st: store_exprs(p, f, st) for st in STORES}
    rets = [n for n in cfg.live_nodes() if n.kind == 'stmt' and isinstance(n.ast, ast.Return)]
    rnames = {n.ast.value.id for n in rets if isinstance(n.ast.value, ast.Name)}
    if len(rnames) != 1 or any(not isinstance(n.ast.value, ast.Name) for n in rets):
        raise UnknownIdiom('%s: does not return a single accumulator variable' % f.qual)
    R = rnames.pop()
    # contributions
    contrib: Dict[int, Tuple[str, ast.AST, Set[str]]] = {}
    for n in cfg.live_nodes():
        if n.kind != 'stmt':
            continue
        a = n.ast
        if isinstance(a, (ast.Assign, ast.AnnAssign)) and a.value is not None:
            tg = a.targets if isinstance(a, ast.Assign) else [a.target]
            if any(isinstance(t, ast.Name) and t.id == R for t in tg):
                v = a.value
                # `R = R + <expr>` accumulates exactly like `R += <expr>`
                if isinstance(v, ast.BinOp) and isinstance(v.op, ast.Add) and isinstance(v.left, ast.Name) and v.left.id == R:
                    contrib[n.id] = ('add', v.right, _mentions_store(p, f, v.right, denoters))
                else:
                    contrib[n.id] = ('set', a.value, _mentions_store(p, f, a.value, denoters))
        elif isinstance(a, ast.AugAssign) and isinstance(a.target, ast.Name) and a.target.id == R:
            if not isinstance(a.op, ast.Add):
                raise UnknownIdiom('%s: %s' % (f.qual, short(a)))
            contrib[n.id] = ('add', a.value, _mentions_store(p, f, a.value, denoters))
        elif isinstance(a, ast.Expr) and isinstance(a.value, ast.Call) and isinstance(a.value.func, ast.Attribute) \
                and isinstance(a.value.func.value, ast.Name) and a.value.func.value.id == R:
            if a.value.func.attr in ('extend', 'append') and a.value.args:
                contrib[n.id] = ('add', a.value.args[0], _mentions_store(p, f, a.value.args[0], denoters))
            else:
                raise UnknownIdiom('%s: accumulator method %s' % (f.qual, short(a)))
    if not contrib:
        raise AnchorError('%s: accumulator %s is never filled' % (f.qual, R))
    by_store: Dict[str, List[int]] = {st: [nid for nid, (_k, _e, m) in contrib.items() if st in m] for st in STORES}
    for st in STORES:
        run.check(bool(by_store[st]), '%s: the emitted header list receives the contents of %s' % (tag, st), f,
                  '%s <- %s' % (R, st), where=f.loc(),
                  runtime_witness={'_headers': 'plain headers are not sent', '_extra_headers': "append_header('Set-Cookie', ...) lines are not sent",
                                   '_cookies': 'set_cookie()/unset_cookie() lines are not sent'}[st])
    # order / no kill: H E C, a plain re-assignment of the accumulator loses what came before
    rank = {'_headers': 0, '_extra_headers': 1, '_cookies': 2}

    def lab(n):
        if n.id in contrib:
            kind, _e, m = contrib[n.id]
            return ['%s:%s' % (kind, ','.join(sorted(m, key=rank.get)))]
        return []

    def delta(st, l):
        kind, _, ms = l.partition(':')
        ms = [m for m in ms.split(',') if m]
        hi = st
        if kind == 'set' and st >= 0:
            return ERROR
        for m in ms:
            if rank[m] < hi:
                return ERROR
            hi = max(hi, rank[m])
        if kind == 'set' and not ms:
            return st
        return hi

    cex, _ns, _nt = flow.typestate(cfg, lab, delta, -1)
    if cex is None:
        run.ok('%s: the stores are merged in the order _headers, _extra_headers, _cookies and nothing merged is overwritten' % tag,
               f.loc(), 'merge order')
    else:
        path, st, reason = cex
        bad = cfg.node(path[-1])
        run.fail('%s: stores merged out of order or overwritten (%s)' % (tag, reason), f, bad.ast, where='%s:%s' % (f.file, bad.lineno),
                 witness=flow.describe_path(cfg, path),
                 runtime_witness='unset_cookie() after append_header(\'Set-Cookie\') does not win / lines are lost')
    # guards of each contribution
    ret_ids = [n.id for n in rets]
    for st in STORES:
        den = denoters[st][0]
        for nid in by_store[st]:
            n = cfg.node(nid)
            edges = controlling_edges(cfg, nid)
            if st == '_headers':
                run.check(not edges and all(flow.dominated_by_nodes(cfg, r, [nid]) for r in ret_ids),
                          '%s: the plain headers are merged unconditionally' % tag, f, n.ast, where='%s:%s' % (f.file, n.lineno))
                continue
            verdicts = [_presence_test(e, cfg, den) for e in edges]
            # a condition on *another* store withholds these lines for a reason the property excludes
            cross = [e for e, v in zip(edges, verdicts) if v is None and any(
                denoters[o][0](x) for o in STORES if o != st for x in ast.walk(cfg.node(e[0]).ast))]
            if cross:
                run.fail('%s: whether %s is emitted depends on another store' % (tag, st), f, cfg.node(cross[0][0]).ast,
                         where='%s:%s' % (f.file, cfg.node(cross[0][0]).lineno),
                         runtime_witness='a response with both a cookie and an appended raw Set-Cookie line loses one of them')
                continue
            if any(v is None for v in verdicts):
                raise UnknownIdiom('%s: %s is merged under a condition that is not a presence test of it: %s' % (
                    f.qual, st, '; '.join(short(cfg.node(e[0]).ast, 50) for e, v in zip(edges, verdicts) if v is None)))
            run.check(all(verdicts), '%s: %s is merged whenever it is present' % (tag, st), f, n.ast, where='%s:%s' % (f.file, n.lineno),
                      runtime_witness='lines of %s are only sent when it is empty' % st)
    # shapes
    lit = b'set-cookie' if want_bytes else 'set-cookie'
    for nid in by_store['_cookies']:
        e = contrib[nid][1]
        ok, why = _cookie_lines(p, f, e, denoters['_cookies'][0], lit, want_bytes)
        run.check(ok, '%s: one (%r, <morsel>.OutputString()) tuple per cookie in the jar' % (tag, lit), f, e, witness=[why],
                  runtime_witness='two cookies set -> not exactly two Set-Cookie lines, or a wrongly named line')
    for nid in by_store['_extra_headers']:
        _sf, e, den = _inlined(p, f, contrib[nid][1], denoters['_extra_headers'][0], '_extra_headers')
        if den(e):
            ok, why = (not want_bytes), 'stored (name, value) tuples are passed through'
        elif isinstance(e, (ast.ListComp, ast.GeneratorExp)) and len(e.generators) == 1 and den(e.generators[0].iter) \
                and not e.generators[0].ifs and isinstance(e.generators[0].target, ast.Tuple) and len(e.generators[0].target.elts) == 2 \
                and all(isinstance(x, ast.Name) for x in e.generators[0].target.elts) and isinstance(e.elt, ast.Tuple) and len(e.elt.elts) == 2:
            k, v = [x.id for x in e.generators[0].target.elts]
            ok = _only_encoded(e.elt.elts[0], k) and _only_encoded(e.elt.elts[1], v)
            if want_bytes:
                ok = ok and isinstance(e.elt.elts[0], ast.Call) and isinstance(e.elt.elts[1], ast.Call)
            why = 'one tuple per stored line, name and value only encoded'
        elif isinstance(e, (ast.ListComp, ast.GeneratorExp)) and len(e.generators) == 1 and den(e.generators[0].iter) and e.generators[0].ifs:
            # a FILTER over the appended lines: some line handed to append_header('Set-Cookie', v) is not emitted.  Whatever the
            # condition says, "one separate Set-Cookie line per appended raw cookie" quantifies over every appended line; the
            # only legitimate reason to withhold the store is that it is empty (the presence test judged above)
            run.fail('%s: every appended raw Set-Cookie line is emitted: the lines of _extra_headers are not filtered' % tag, f,
                     e.generators[0].ifs[0], where=f.loc(e), witness=['filter: %s' % short(e, 140)],
                     runtime_witness="resp.append_header('Set-Cookie', 'sid=raw; Path=/legacy'); resp.set_cookie('sid', 'v'): "
                                     'the appended line is sent on one interface and dropped on the other')
            continue
        else:
            raise UnknownIdiom('%s: shape of the _extra_headers merge: %s' % (f.qual, short(e)))
        run.check(ok, '%s: every appended raw Set-Cookie line is emitted once, name and value unchanged%s' % (
            tag, ' (bytes)' if want_bytes else ''), f, e, witness=[why])
    for nid in by_store['_headers']:
        e = strip_await(contrib[nid][1])
        den = denoters['_headers'][0]
        ok, why = False, ''
        if isinstance(e, ast.Call) and isinstance(e.func, ast.Name) and e.func.id == 'list' and len(e.args) == 1 \
                and isinstance(e.args[0], ast.Call) and isinstance(e.args[0].func, ast.Attribute) and e.args[0].func.attr == 'items' \
                and den(e.args[0].func.value):
            ok, why = (not want_bytes), 'list(headers.items())'
        elif isinstance(e, ast.Call) and len(e.args) == 1 and den(e.args[0]):
            g = p.resolve_callable(f, e.func)
            if not isinstance(g, Func):
                raise UnknownIdiom('%s: cannot resolve %s' % (f.qual, short(e.func)))
            run.use(g)
            ok, why = _pair_encoder(p, g)
            why = '%s: %s' % (g.qual, why)
        else:
            raise UnknownIdiom('%s: shape of the _headers merge: %s' % (f.qual, short(e)))
        run.check(ok, '%s: every plain header is emitted exactly once under its stored (lower-case) name%s' % (
            tag, ', encoded to bytes' if want_bytes else ''), f, e, witness=[why],
            runtime_witness='ASGI header names not lower-case / not bytes')


def _inlined(p, f: Func, e, den, store: str):
    """(scope, expression, denoter): `e` itself, or - when `e` is a call of a one-expression helper of the class / module that
    is handed the store (`_cookie_lines(self._cookies)` / `self._cookie_lines()`) - the helper's returned expression with the
    parameter that receives the store (or the helper's own `self.<store>`) denoting it."""
    e = strip_await(e)
    if isinstance(e, ast.Call) and not den(e):
        g = key_helper(p, f, e)
        body = single_return_expr(g) if g is not None else None
        if body is not None:
            qs = [q for q, a in bound_args(g, e).items() if den(strip_await(a))]
            gden, _al = store_exprs(p, g, store)
            rebound = set(Defs(g).defs)
            if len(qs) == 1 and qs[0] not in rebound:
                return g, strip_await(body), (lambda x, q=qs[0], gden=gden: (isinstance(x, ast.Name) and x.id == q) or gden(x))
            if not qs and g.cls is not None and any(gden(x) for x in ast.walk(body)):
                return g, strip_await(body), gden
    return f, e, den


def _cookie_lines(p, f, e, den, lit, want_bytes) -> Tuple[bool, str]:
    f, e, den = _inlined(p, f, e, den, '_cookies')
    if not (isinstance(e, (ast.ListComp, ast.GeneratorExp)) and len(e.generators) == 1):
        raise UnknownIdiom('%s: shape of the cookie merge: %s' % (f.qual, short(e)))
    gen = e.generators[0]
    if gen.ifs:
        return False, 'cookies are filtered'
    it = gen.iter
    if not (isinstance(it, ast.Call) and isinstance(it.func, ast.Attribute) and it.func.attr == 'values' and den(it.func.value) and not it.args):
        return False, 'does not iterate <jar>.values()'
    if not isinstance(gen.target, ast.Name):
        return False, 'loop target'
    c = gen.target.id
    if not (isinstance(e.elt, ast.Tuple) and len(e.elt.elts) == 2):
        return False, 'element is not a (name, value) tuple'
    name, val = e.elt.elts
    if p.fold(f.module, name, None, None) != lit:
        return False, 'line name is %s, expected %r' % (short(name), lit)
    # value: c.OutputString() [.encode(...)]
    v = val
    if want_bytes:
        if not (isinstance(v, ast.Call) and isinstance(v.func, ast.Attribute) and v.func.attr == 'encode'):
            return False, 'value is not encoded to bytes'
        v = v.func.value
    if not (isinstance(v, ast.Call) and isinstance(v.func, ast.Attribute) and v.func.attr == 'OutputString'
            and isinstance(v.func.value, ast.Name) and v.func.value.id == c and not v.args and not v.keywords):
        return False, 'value is not <morsel>.OutputString()'
    return True, 'one tuple per morsel'


def _require_stores(p):
    """The three stores are attributes initialised by Response.__init__
    (otherwise the rule would look for the wrong names)."""
    init = p.lookup_method(RESPONSE, '__init__')
    if init is None:
        raise AnchorError('Response.__init__ not found')
    have = {attr_chain(t)[1] for n in walk_no_nested(init.node) if isinstance(n, (ast.Assign, ast.AnnAssign))
            for t in (n.targets if isinstance(n, ast.Assign) else [n.target])
            if attr_chain(t) is not None and len(attr_chain(t)) == 2 and attr_chain(t)[0] == 'self'}
    missing = [s_ for s_ in STORES if s_ not in have]
    if missing:
        raise AnchorError('Response.__init__ does not initialise %s' % ', '.join(missing))


def r3_emitters(run):
    p = run.project
    _require_stores(p)
    _emitter(run, 'WSGI', p.func(WSGI_EMIT), False)
    _emitter(run, 'ASGI', p.func(ASGI_EMIT), True)


# ---------------------------------------------------------------------------
# R4
# ---------------------------------------------------------------------------

SET_COOKIE_TABLE = {'expires': 'expires', 'max_age': 'max-age', 'domain': 'domain', 'path': 'path', 'secure': 'secure',
                    'http_only': 'httponly', 'same_site': 'samesite', 'partitioned': 'partitioned'}
UNSET_COOKIE_TABLE = {'samesite': 'samesite', 'domain': 'domain', 'path': 'path'}


def _deciding_edges(cfg, nid: int):
    """The T/F edges that dominate `nid`, without the reject guards: a test
    whose other outcome only raises (`if <invalid>: raise ValueError`) decides
    whether the call succeeds at all, not which attributes a cookie that IS
    written carries - moving a validation to the top of the function must not
    make every later store look governed by the validated parameter."""
    out = []
    for (t, y, l) in controlling_edges(cfg, nid):
        others = [y2 for (y2, l2) in cfg.succ[t] if l2 in ('T', 'F') and l2 != l]
        if others and all(raises_only(cfg, y2) for y2 in others):
            continue
        out.append((t, y, l))
    return out


def _taint(f: Func, params: List[str], p=None) -> Dict[str, Set[str]]:
    """local name -> parameters it derives from (flow-insensitive closure).

    A name derives from a parameter through the expression bound to it, and
    (given the project `p`) through CONTROL: a (re)binding that only executes
    under a test of a parameter is decided by that parameter -
        if same_site == 'none': is_secure = True
    makes `is_secure` (and whatever it guards later) a function of same_site,
    although no value flows.  The tests are the T/F edges that dominate the
    binding's CFG node (reject guards excepted, `_deciding_edges`), the same
    notion `_cookie_wiring` applies to the morsel stores themselves.  A parameter that is rebound is treated like a local."""
    defs = Defs(f)
    t: Dict[str, Set[str]] = {x: {x} for x in params}
    controls: Dict[int, List[ast.AST]] = {}
    if p is not None:
        cfg = cfg_of(f, p)
        rd = reaching(p, f)
        iters = {id(n.stmt): n.id for n in cfg.live_nodes() if n.kind == 'iter'}
        withs = {id(n.stmt): n.id for n in cfg.live_nodes() if n.kind == 'with'}
        handlers = {id(n.ast): n.id for n in cfg.live_nodes() if n.kind == 'handler'}
        for ds in defs.defs.values():
            for d in ds:
                node = d[-1]
                nid = rd.cfg_node(node)
                if nid is None:
                    nid = iters.get(id(node), withs.get(id(node), handlers.get(id(node))))
                if nid is None:
                    continue        # dead code: the binding is on no path
                controls[id(node)] = [cfg.node(e[0]).ast for e in _deciding_edges(cfg, nid)]
    changed = True
    while changed:
        changed = False
        for name, ds in defs.defs.items():
            cur = t.setdefault(name, set())
            for d in ds:
                vals = []
                if d[0] == 'assign':
                    vals = [d[1]]
                elif d[0] == 'aug':
                    vals = [d[2]]
                elif d[0] == 'unpack':
                    vals = [d[2]]
                elif d[0] in ('iter', 'with'):
                    vals = [d[1]]
                for v in vals + controls.get(id(d[-1]), []):
                    for x in ast.walk(v):
                        if isinstance(x, ast.Name) and x.id in t and not t[x.id] <= cur:
                            cur |= t[x.id]
                            changed = True
    return t


def _expr_params(e, taint) -> Set[str]:
    out = set()
    for x in ast.walk(e):
        if isinstance(x, ast.Name) and x.id in taint:
            out |= taint[x.id]
    return out


def _numeric_optional(ann) -> bool:
    """Optional[int] / Optional[float] / Union[int, None] / int | None ..."""
    if ann is None:
        return False
    names = set()
    has_none = False
    for x in ast.walk(ann):
        if isinstance(x, ast.Name):
            names.add(x.id)
        elif isinstance(x, ast.Attribute):
            names.add(x.attr)
        elif isinstance(x, ast.Constant) and x.value is None:
            has_none = True
    if 'Optional' in names:
        has_none = True
    types = names - {'Optional', 'Union', 'typing', 't'}
    return has_none and bool(types) and types <= {'int', 'float'}


def _morsel_stores_raw(p, f: Func, cfg, name_param: str):
    """[(cfg node, key EXPRESSION, value expr, stmt)] for `<this cookie's morsel>[K] = V`, and [(cfg node, value expr, stmt)]
    for `<jar>[name] = V`.  This cookie's morsel is `<jar>[name]`, a local bound only to it (`morsel = <jar>[name]`), or the
    result of a one-expression helper of the class / module that is handed the name (`self._morsel(name)` with
    `return self._cookies[name]`)."""
    den, _al = store_exprs(p, f, '_cookies')
    defs = Defs(f)

    def this_morsel(e) -> bool:
        e = strip_await(e)
        if isinstance(e, ast.Subscript) and den(e.value):
            if not (isinstance(e.slice, ast.Name) and e.slice.id == name_param):
                raise UnknownIdiom('%s: morsel of another cookie: %s' % (f.qual, short(e)))
            return True
        if isinstance(e, ast.Call):
            g = key_helper(p, f, e)
            body = single_return_expr(g) if g is not None else None
            body = strip_await(body) if body is not None else None
            if isinstance(body, ast.Subscript) and isinstance(body.slice, ast.Name):
                bound = bound_args(g, e)
                gden, _ = store_exprs(p, g, '_cookies')
                jar_ok = gden(body.value) or (isinstance(body.value, ast.Name) and body.value.id in bound and den(bound[body.value.id]))
                if jar_ok:
                    arg = bound.get(body.slice.id)
                    if not (isinstance(arg, ast.Name) and arg.id == name_param):
                        raise UnknownIdiom('%s: morsel of another cookie: %s' % (f.qual, short(e)))
                    return True
        return False

    # `morsel = <jar>[name]`: a local bound only to this cookie's morsel stands for it
    morsels = {nm for nm, ds in defs.defs.items() if nm not in defs.params and ds and all(
        d[0] == 'assign' and isinstance(strip_await(d[1]), (ast.Subscript, ast.Call)) and this_morsel(d[1]) for d in ds)}
    attrs, values = [], []
    for n in cfg.live_nodes():
        if n.kind != 'stmt' or not isinstance(n.ast, (ast.Assign, ast.AnnAssign)):
            continue
        tg = n.ast.targets if isinstance(n.ast, ast.Assign) else [n.ast.target]
        for t in tg:
            if isinstance(t, ast.Subscript) and isinstance(t.value, ast.Name) and t.value.id in morsels:
                attrs.append((n, t.slice, n.ast.value, n.ast))
            elif isinstance(t, ast.Subscript) and isinstance(t.value, ast.Subscript) and den(t.value.value):
                if not (isinstance(t.value.slice, ast.Name) and t.value.slice.id == name_param):
                    raise UnknownIdiom('%s: morsel of another cookie is written: %s' % (f.qual, short(n.ast)))
                attrs.append((n, t.slice, n.ast.value, n.ast))
            elif isinstance(t, ast.Subscript) and isinstance(t.value, ast.Call) and this_morsel(t.value):
                attrs.append((n, t.slice, n.ast.value, n.ast))
            elif isinstance(t, ast.Subscript) and den(t.value):
                if not (isinstance(t.slice, ast.Name) and t.slice.id == name_param):
                    raise UnknownIdiom('%s: another cookie is written: %s' % (f.qual, short(n.ast)))
                values.append((n, n.ast.value, n.ast))
    return attrs, values


def _morsel_stores(p, f: Func, cfg, name_param: str):
    """[(cfg node, key constant, value expr, stmt)] for `<jar>[name][K] = V`, and [(cfg node, value expr, stmt)] for
    `<jar>[name] = V` - written in place, or inside a helper of the class / module called as a statement with the name
    (`self._set_attr(name, 'domain', domain)` with `self._cookies[name][key] = value`): the helper's unconditional stores count
    as stores of the calling statement, key and value read through the call's arguments."""
    raw_attrs, values = _morsel_stores_raw(p, f, cfg, name_param)
    attrs = []
    for (n, kexpr, val, stmt) in raw_attrs:
        k = p.fold(f.module, kexpr, None, f)
        if not isinstance(k, str):
            raise UnknownIdiom('%s: morsel key is not a constant: %s' % (f.qual, short(stmt)))
        attrs.append((n, k.lower(), val, stmt))
    for n in cfg.live_nodes():
        if n.kind != 'stmt' or not isinstance(n.ast, ast.Expr):
            continue
        call = strip_await(n.ast.value)
        g = key_helper(p, f, call) if isinstance(call, ast.Call) else None
        if g is None:
            continue
        bound = bound_args(g, call)
        qn = [q for q, a in bound.items() if isinstance(a, ast.Name) and a.id == name_param]
        if len(qn) != 1:
            continue
        gcfg = cfg_of(g, p)
        ga, gv = _morsel_stores_raw(p, g, gcfg, qn[0])
        if not ga and not gv:
            continue
        rebound = {nm for nm in Defs(g).defs if nm in g.params()}

        def through(e, g=g, bound=bound, rebound=rebound, call=call):
            """the helper's expression as the caller sees it: a parameter is the argument, a constant is itself"""
            e = strip_await(e)
            if isinstance(e, ast.Name) and e.id in g.params() and e.id not in rebound:
                if e.id not in bound:
                    raise UnknownIdiom('%s: %s relies on a default of %s' % (f.qual, short(call), g.name))
                return bound[e.id]
            if isinstance(p.fold(g.module, e, None, g), (str, int, float, bool)):
                return ast.Constant(p.fold(g.module, e, None, g))
            raise UnknownIdiom('%s: what the helper %s stores (%s) is not one of its arguments' % (f.qual, g.name, short(e)))

        for (gn, kexpr, val, gstmt) in ga:
            if controlling_edges(gcfg, gn.id):
                raise UnknownIdiom('%s: the helper %s stores a cookie attribute under a condition of its own' % (f.qual, g.qual))
            k = p.fold(f.module, through(kexpr), None, f)
            if not isinstance(k, str):
                raise UnknownIdiom('%s: morsel key is not a constant: %s' % (f.qual, short(n.ast)))
            attrs.append((n, k.lower(), through(val), n.ast))
        for (gn, val, gstmt) in gv:
            if controlling_edges(gcfg, gn.id):
                raise UnknownIdiom('%s: the helper %s stores the cookie under a condition of its own' % (f.qual, g.qual))
            values.append((n, through(val), n.ast))
    return attrs, values


def _cookie_wiring(run, f: Func, table: Dict[str, str], name_param: str, fixed: Dict[str, object]):
    p = run.project
    cfg = cfg_of(f, p)
    run.use_cfg(cfg)
    params = [x for x in f.params() if x != 'self']
    for prm in table:
        if prm not in params:
            raise AnchorError('%s has no parameter %s' % (f.qual, prm))
    if name_param not in params:
        raise AnchorError('%s has no parameter %s' % (f.qual, name_param))
    taint = _taint(f, params, p)
    attrs, values = _morsel_stores(p, f, cfg, name_param)
    if not values:
        raise AnchorError('%s: the cookie value is never stored' % f.qual)
    inverse = {v: k for k, v in table.items()}
    ignore = {name_param, 'value'}
    seen_keys: Dict[str, int] = {}
    for (n, key, val, stmt) in attrs:
        infl = _expr_params(val, taint)
        for e in _deciding_edges(cfg, n.id):
            infl |= _expr_params(cfg.node(e[0]).ast, taint)
        infl -= ignore
        seen_keys[key] = seen_keys.get(key, 0) + 1
        if key in fixed:
            continue
        want = inverse.get(key)
        if want is None:
            run.fail('%s writes the cookie attribute %r, which no parameter requests' % (f.name, key), f, stmt,
                     runtime_witness='%s(...) emits an attribute nobody asked for' % f.name)
            continue
        run.check(infl == {want}, '%s: the cookie attribute %r is governed by the parameter %s and by no other' % (f.name, key, want),
                  f, stmt, witness=['influencing parameters: %s' % sorted(infl)],
                  runtime_witness='%s(name, v, %s=...) changes the wrong attribute / %s is driven by %s' % (f.name, want, key, sorted(infl)))
    for prm, key in sorted(table.items()):
        run.check(seen_keys.get(key, 0) > 0, '%s: the parameter %s reaches the cookie attribute %r' % (f.name, prm, key), f,
                  '%s -> %s' % (prm, key), where=f.loc(), runtime_witness='%s(name, v, %s=x) emits no %s attribute' % (f.name, prm, key))
    return cfg, attrs, values, taint


def _truthiness_atoms(test) -> List[ast.Name]:
    """Names evaluated for truthiness by `test` (bare, under not/and/or)."""
    out = []

    def rec(e):
        e = strip_await(e)
        if isinstance(e, ast.Name):
            out.append(e)
        elif isinstance(e, ast.UnaryOp) and isinstance(e.op, ast.Not):
            rec(e.operand)
        elif isinstance(e, ast.BoolOp):
            for v in e.values:
                rec(v)
    rec(test)
    return out


# text attributes whose stored value is the parameter ITSELF, in set_cookie and in unset_cookie alike (parameter -> morsel key).
# The other attributes have a tabled rendering that exists today and is judged elsewhere: int(max_age) (RFC 6265 5.2.2: digits
# only), strftime of expires in GMT (R4 astimezone / R13), the case normalisation of same_site, the flags secure / httponly /
# partitioned (True under the parameter's control).
COOKIE_TEXT_ATTRS = {'domain': 'domain', 'path': 'path'}
_CELLS = ('None', "''", 'non-empty str')


def _cell_eval(prov: Provenance, nid: int, e, cell: str) -> Optional[bool]:
    """Truth of the test `e` when the tracked parameter lies in `cell` (None / '' / some non-empty str); None = not readable.
    A name stands for the parameter when every definition reaching the test is the parameter itself (identity provenance)."""
    e = strip_await(e)

    def is_param(x):
        return isinstance(x, ast.Name) and prov._name(x.id, nid).identical

    if isinstance(e, ast.Constant):
        return bool(e.value)
    if isinstance(e, ast.Name):
        return (cell == 'non-empty str') if is_param(e) else None
    if isinstance(e, ast.UnaryOp) and isinstance(e.op, ast.Not):
        v = _cell_eval(prov, nid, e.operand, cell)
        return None if v is None else (not v)
    if isinstance(e, ast.BoolOp):
        vs = [_cell_eval(prov, nid, x, cell) for x in e.values]
        if any(v is None for v in vs):
            return None
        return all(vs) if isinstance(e.op, ast.And) else any(vs)
    if isinstance(e, ast.Compare) and len(e.ops) == 1 and is_param(e.left) and isinstance(e.comparators[0], ast.Constant):
        c, op = e.comparators[0].value, e.ops[0]
        if c is None and isinstance(op, (ast.Is, ast.IsNot, ast.Eq, ast.NotEq)):
            r = cell == 'None'
            return r if isinstance(op, (ast.Is, ast.Eq)) else (not r)
        if c == '' and isinstance(c, str) and isinstance(op, (ast.Eq, ast.NotEq)):
            r = cell == "''"
            return r if isinstance(op, ast.Eq) else (not r)
    return None


def _cookie_text_attrs(run, f: Func, cfg, attrs) -> Dict[str, FrozenSet[str]]:
    """The text attributes Domain / Path carry the parameter itself (provenance over the may-reaching definitions: identity,
    str(), copies through locals; any narrowing or rewriting step - strip, rstrip('/'), lower, slice, replace, `x or '/'`
    around one - is a violation, an unread step UnknownIdiom).  Returns per attribute the cells of the parameter's
    None / '' / non-empty partition for which the attribute is written (for the sibling comparison)."""
    p = run.project
    cells: Dict[str, FrozenSet[str]] = {}
    for prm, key in sorted(COOKIE_TEXT_ATTRS.items()):
        if prm not in f.params():
            raise AnchorError('%s has no parameter %s' % (f.qual, prm))
        prov = Provenance(p, f, prm)
        written: Set[str] = set()
        for (n, k, val, stmt) in attrs:
            if k != key:
                continue
            what = ('%s: the cookie attribute %r carries the parameter %s itself - the user agent matches Domain/Path exactly, a cookie '
                    'set with one spelling is not replaced or removed by another' % (f.name, key, prm))
            rw = "resp.set_cookie('sid', 'v', path='/app/') emits Path=/app/, resp.unset_cookie('sid', path='/app/') emits Path=/app: " \
                 'the browser keeps the cookie'
            o = prov.classify(val, n.id)
            if not o.derived:
                run.fail(what, f, stmt, where=f.loc(stmt), witness=['%s does not derive from the parameter %s' % (short(val), prm)], runtime_witness=rw)
            else:
                bad = o.xforms
                run.check(not bad, what, f, bad[0][1] if bad else stmt, where=f.loc(stmt), witness=(o.describe() + ['stored by %s' % short(stmt, 100)]) if bad else None,
                          runtime_witness=rw)
            edges = _deciding_edges(cfg, n.id)
            for cell in _CELLS:
                vals = [_cell_eval(prov, e[0], cfg.node(e[0]).ast, cell) for e in edges]
                if any(v is None for v in vals):
                    raise UnknownIdiom('%s: cannot evaluate the guard of %s over the None / empty / non-empty cells of %s: %s' % (
                        f.qual, short(stmt, 60), prm, '; '.join(short(cfg.node(e[0]).ast, 50) for e, v in zip(edges, vals) if v is None)))
                if all(v == (e[2] == 'T') for e, v in zip(edges, vals)):
                    written.add(cell)
        cells[key] = frozenset(written)
    return cells


def _cookie_text_siblings(run, fs: Func, cs, fu: Func, cu):
    """set_cookie and unset_cookie agree on WHEN Domain / Path are written (same cells of the None / '' / non-empty partition of
    the parameter): the cookie that unset_cookie(name, domain=d, path=x) expires must be the one set_cookie(name, v, domain=d,
    path=x) created."""
    for key in sorted(COOKIE_TEXT_ATTRS.values()):
        a, b = cs.get(key, frozenset()), cu.get(key, frozenset())
        run.check(a == b, 'set_cookie and unset_cookie write the cookie attribute %r for the same values of the parameter (cells of None / '
                  "'' / non-empty)" % key, fu, '%s written for: %s' % (key, ', '.join(c for c in _CELLS if c in b) or 'nothing'), where=fu.loc(),
                  witness=['set_cookie writes it for: %s' % (', '.join(c for c in _CELLS if c in a) or 'nothing'),
                           'unset_cookie writes it for: %s' % (', '.join(c for c in _CELLS if c in b) or 'nothing')],
                  runtime_witness='the expiring Set-Cookie line addresses a different (domain, path) than the line that set the cookie')


def r4_cookie_attributes(run):
    p = run.project
    _require_stores(p)
    set_cells = None
    set_func = None
    for cq in (RESPONSE, ASGI_RESPONSE):
        f = p.lookup_method(cq, 'set_cookie')
        if f is None:
            raise AnchorError('%s.set_cookie not found' % cq)
        if cq == ASGI_RESPONSE and f is p.lookup_method(RESPONSE, 'set_cookie'):
            continue
        # naive `expires` values are UTC by contract: astimezone() may only be
        # applied where the value is known to be aware (tzinfo is not None) --
        # on a naive datetime it assumes the process-local zone
        _cfg0 = cfg_of(f, p)
        for n0 in _cfg0.live_nodes():
            for c0 in n0.calls():
                if isinstance(c0.func, ast.Attribute) and c0.func.attr == 'astimezone' and isinstance(c0.func.value, ast.Name) \
                        and c0.func.value.id in f.params():
                    prm = c0.func.value.id

                    def tz_none(e, prm=prm):
                        return (isinstance(e, ast.Compare) and len(e.ops) == 1 and isinstance(e.ops[0], ast.Is)
                                and isinstance(e.left, ast.Attribute) and e.left.attr == 'tzinfo' and isinstance(e.left.value, ast.Name)
                                and e.left.value.id == prm and isinstance(e.comparators[0], ast.Constant) and e.comparators[0].value is None)

                    def tz_not_none(e, prm=prm):
                        return (isinstance(e, ast.Compare) and len(e.ops) == 1 and isinstance(e.ops[0], ast.IsNot)
                                and isinstance(e.left, ast.Attribute) and e.left.attr == 'tzinfo' and isinstance(e.left.value, ast.Name)
                                and e.left.value.id == prm and isinstance(e.comparators[0], ast.Constant) and e.comparators[0].value is None)

                    aware_edges = []
                    for t0 in _cfg0.live_nodes():
                        if t0.kind != 'test':
                            continue
                        for (y0, l0) in _cfg0.succ[t0.id]:
                            if l0 not in ('T', 'F'):
                                continue
                            r1 = implied(t0.ast, l0 == 'T', tz_none)
                            r2 = implied(t0.ast, l0 == 'T', tz_not_none)
                            if r1 is False or r2 is True:
                                aware_edges.append((t0.id, y0, l0))
                    ok0 = any(flow.dominated_by_edge(_cfg0, n0.id, e0) for e0 in aware_edges)
                    run.check(ok0, 'set_cookie converts `%s` with astimezone() only where it is known to be timezone-aware '
                                   '(a naive value is UTC by contract, astimezone() would read it as local time)' % prm, f, c0,
                              runtime_witness='TZ=EST5: set_cookie(expires=datetime(2030,1,1,12,0)) emits 17:00:00 GMT')
        cfg, attrs, values, taint = _cookie_wiring(run, f, SET_COOKIE_TABLE, 'name', {})
        if cq == RESPONSE:
            set_cells, set_func = _cookie_text_attrs(run, f, cfg, attrs), f
        else:
            _cookie_text_attrs(run, f, cfg, attrs)
        # secure=None defers to the app option.  The decision is read where it is made: in set_cookie itself, or in a
        # one-level helper of the class / module that is handed `secure` (`is_secure = self._cookie_secure(secure)`).
        def none_atoms(prm):
            is_none_atom = lambda e: (isinstance(e, ast.Compare) and len(e.ops) == 1 and isinstance(e.left, ast.Name)  # noqa: E731
                                      and e.left.id == prm and isinstance(e.ops[0], ast.Is)
                                      and isinstance(e.comparators[0], ast.Constant) and e.comparators[0].value is None)
            not_none_atom = lambda e: (isinstance(e, ast.Compare) and len(e.ops) == 1 and isinstance(e.left, ast.Name)  # noqa: E731
                                       and e.left.id == prm and isinstance(e.ops[0], ast.IsNot)
                                       and isinstance(e.comparators[0], ast.Constant) and e.comparators[0].value is None)

            def none_truth(test):
                r = implied(test, True, is_none_atom)
                if r is None:
                    r2 = implied(test, True, not_none_atom)
                    r = None if r2 is None else (not r2)
                return r
            return none_truth

        opt_init = p.lookup_method('falcon.response.ResponseOptions', '__init__')
        if opt_init is None or not any(attr_chain(t) == ('self', 'secure_cookies_by_default') for n_ in walk_no_nested(opt_init.node)
                                       if isinstance(n_, (ast.Assign, ast.AnnAssign))
                                       for t in (n_.targets if isinstance(n_, ast.Assign) else [n_.target])):
            raise AnchorError('ResponseOptions.secure_cookies_by_default not found')
        sec_sites = [(n, val, stmt) for (n, key, val, stmt) in attrs if key == 'secure']
        scopes = [(f, 'secure')]
        for c_ in walk_no_nested(f.node):
            if isinstance(c_, ast.Call):
                g_ = key_helper(p, f, c_)
                if g_ is not None:
                    scopes += [(g_, q_) for q_, a_ in bound_args(g_, c_).items() if isinstance(a_, ast.Name) and a_.id == 'secure'
                               and 'secure' in f.params() and not Defs(f).defs.get('secure')]
        reads_option = [x for (sf, _q) in scopes for x in walk_no_nested(sf.node)
                        if isinstance(x, ast.Attribute) and x.attr == 'secure_cookies_by_default']
        if sec_sites and not reads_option:
            run.fail('set_cookie: secure=None does not read options.secure_cookies_by_default', f, sec_sites[0][2],
                     runtime_witness='set_cookie(n, v) on an app with secure_cookies_by_default=True emits no Secure attribute (or always does)')
        elif sec_sites:
            found_default = False
            for (sf, prm_) in scopes:
                none_truth = none_atoms(prm_)
                for x in walk_no_nested(sf.node):
                    if isinstance(x, ast.IfExp) and none_truth(x.test) is not None:
                        r = none_truth(x.test)
                        dflt, other = (x.body, x.orelse) if r else (x.orelse, x.body)
                        ok = any(isinstance(y, ast.Attribute) and y.attr == 'secure_cookies_by_default' for y in ast.walk(dflt)) \
                            and isinstance(other, ast.Name) and other.id == prm_
                        found_default = True
                        run.check(ok, 'set_cookie: secure=None reads options.secure_cookies_by_default, anything else is taken as given',
                                  sf, x, runtime_witness='set_cookie(n, v) ignores secure_cookies_by_default / secure=False is overridden')
                    elif isinstance(x, ast.If) and none_truth(x.test) is not None:
                        r = none_truth(x.test)
                        branch = x.body if r else x.orelse
                        ok = any(isinstance(st_, (ast.Assign, ast.Return)) and st_.value is not None
                                 and any(isinstance(y, ast.Attribute) and y.attr == 'secure_cookies_by_default'
                                         for y in ast.walk(st_.value)) for st_ in branch)
                        found_default = True
                        run.check(ok, 'set_cookie: secure=None reads options.secure_cookies_by_default', sf, x.test)
            if not found_default:
                raise UnknownIdiom('%s: options.secure_cookies_by_default is read, but not under a `secure is None` decision' % f.qual)
        # presence guards of numeric optionals
        n_guard = 0
        for a in f.node.args.args + f.node.args.kwonlyargs:
            if a.arg not in SET_COOKIE_TABLE or not _numeric_optional(a.annotation):
                continue
            for t in cfg.live_nodes():
                if t.kind != 'test':
                    continue
                mentions = [x for x in ast.walk(t.ast) if isinstance(x, ast.Name) and x.id == a.arg]
                if not mentions:
                    continue
                n_guard += 1
                truthy = [x for x in _truthiness_atoms(t.ast) if x.id == a.arg]
                run.check(not truthy, 'set_cookie: the presence of the numeric parameter %s (annotated %s) is tested with `is not None`, '
                          'not by truthiness (0 is a requestable value)' % (a.arg, short(a.annotation)), f, t.ast,
                          where='%s:%s' % (f.file, t.lineno),
                          runtime_witness="set_cookie('a', 'b', %s=0) emits no %s attribute although 0 was requested" % (
                              a.arg, SET_COOKIE_TABLE[a.arg]))
        if n_guard == 0:
            raise AnchorError('%s: no numeric optional cookie parameter is guarded by a test' % f.qual)
    # unset_cookie
    g = p.lookup_method(RESPONSE, 'unset_cookie')
    if g is None:
        raise AnchorError('Response.unset_cookie not found')
    cfg, attrs, values, taint = _cookie_wiring(run, g, UNSET_COOKIE_TABLE, 'name', {'expires': None})
    _cookie_text_siblings(run, set_func, set_cells, g, _cookie_text_attrs(run, g, cfg, attrs))
    for (n, val, stmt) in values:
        run.check(p.fold(g.module, _omitted(p, g, val), None, g) == '', 'unset_cookie stores an empty cookie value', g, stmt)
    run.check(flow.dominated_by_nodes(cfg, cfg.exit, [n.id for (n, _v, _s) in values]),
              'unset_cookie clears the value on every path', g, values[0][2],
              runtime_witness='unset_cookie(name) after set_cookie(name, v) still sends the old value')
    exp = [(n, val, stmt) for (n, key, val, stmt) in attrs if key == 'expires']
    if not exp:
        run.fail('unset_cookie does not set an expires attribute', g, 'expires', where=g.loc(),
                 runtime_witness='unset_cookie(name) leaves the cookie alive in the user agent')
    for (n, val, stmt) in exp:
        v = p.fold(g.module, _omitted(p, g, val), None, g)
        run.check(isinstance(v, (int, float)) and not isinstance(v, bool) and v < 0 and flow.dominated_by_nodes(cfg, cfg.exit, [n.id])
                  and not controlling_edges(cfg, n.id),
                  'unset_cookie sets a negative expires (already expired) unconditionally', g, stmt,
                  runtime_witness='unset_cookie(name) emits a cookie that is not expired')


# ---------------------------------------------------------------------------
# R5
# ---------------------------------------------------------------------------

def _encoder_kind(p, q: Optional[str]) -> Optional[str]:
    """'uri' / 'value' for the encoders of falcon.util.uri (built by
    _create_str_encoder(is_value, ...))."""
    if not q or not q.startswith(URI_MOD + '.'):
        return None
    m = p.module(URI_MOD)
    name = q[len(URI_MOD) + 1:]
    val = m.consts.get(name)
    if isinstance(val, ast.Call) and isinstance(val.func, ast.Name) and val.func.id == '_create_str_encoder' and val.args:
        flag = p.fold(m, val.args[0])
        if flag is True:
            return 'value'
        if flag is False:
            return 'uri'
    return None


def _callee_qual(p, f: Func, call: ast.Call) -> Optional[str]:
    return resolve_alias(p, f.module, call.func, f)


def _uses_only_inside(f: Func, param: str, ok_call) -> Tuple[bool, List[ast.AST]]:
    """Every Load of `param` in f is either in a test position (`is None`
    comparison) or the sole argument of a call accepted by ok_call; returns
    (all ok, offending nodes)."""
    parent: Dict[int, ast.AST] = {}
    for n in ast.walk(f.node):
        for c in ast.iter_child_nodes(n):
            parent[id(c)] = n
    bad = []
    for n in ast.walk(f.node):
        if isinstance(n, ast.Name) and n.id == param and isinstance(n.ctx, ast.Load):
            par = parent.get(id(n))
            if isinstance(par, ast.Compare) and all(isinstance(o, (ast.Is, ast.IsNot)) for o in par.ops):
                continue
            if isinstance(par, ast.Call) and par.args == [n] and not par.keywords and ok_call(par):
                continue
            bad.append(par if par is not None else n)
    return (not bad), bad


def _template(e, lit=None) -> Optional[List[object]]:
    """String template as a list of literal pieces (str) and holes (ast).  `lit(expr)` (optional) gives the text of a name
    that stands for a string constant (a module-level `_FMT = '%s; filename="%s"'` bound once is its value)."""
    e = strip_await(e)
    if isinstance(e, ast.Constant) and isinstance(e.value, str):
        return [e.value]
    if lit is not None and isinstance(e, (ast.Name, ast.Attribute)) and isinstance(lit(e), str):
        return [lit(e)]
    if isinstance(e, ast.JoinedStr):
        out: List[object] = []
        for v in e.values:
            if isinstance(v, ast.Constant):
                out.append(str(v.value))
            elif isinstance(v, ast.FormattedValue):
                out.append(v.value)
        return out
    if isinstance(e, ast.BinOp) and isinstance(e.op, ast.Add):
        l, r = _template(e.left, lit), _template(e.right, lit)
        if l is None:
            l = [e.left]
        if r is None:
            r = [e.right]
        return l + r
    if isinstance(e, ast.BinOp) and isinstance(e.op, ast.Mod):
        fmt = e.left.value if isinstance(e.left, ast.Constant) else (lit(e.left) if lit is not None and isinstance(e.left, (ast.Name, ast.Attribute)) else None)
        if not isinstance(fmt, str):
            return None
        args = list(e.right.elts) if isinstance(e.right, ast.Tuple) else [e.right]
        pieces = fmt.split('%s')
        if len(pieces) != len(args) + 1 or '%' in ''.join(pieces).replace('%%', ''):
            return None
        out = []
        for i, pc in enumerate(pieces):
            out.append(pc.replace('%%', '%'))
            if i < len(args):
                out.append(args[i])
        return out
    return None


def _through_locals(p, f: Func, holes: List[object], nid: int) -> List[object]:
    """Template holes with once-bound locals replaced by what they are bound to (`encoded = uri.encode_value(value)` ...
    `'...%s' % encoded`): only when every name the binding reads still has, at the use, the definitions it had at the binding."""
    rd = reaching(p, f)

    def resolve(x, depth=0):
        if not (isinstance(x, ast.Name) and depth < 3):
            return x
        ds = rd.at(nid, x.id)
        if len(ds) != 1 or ds[0].kind != 'assign' or ds[0].value is None:
            return x
        d = ds[0]
        for y in ast.walk(d.value):
            if isinstance(y, ast.Name) and isinstance(y.ctx, ast.Load) and y.id in local_names(f):
                if {z.idx for z in rd.at(d.node, y.id)} != {z.idx for z in rd.at(nid, y.id)}:
                    return x
        return resolve(strip_await(d.value), depth + 1)

    return [h if isinstance(h, str) else resolve(h) for h in holes]


def _omitted(p, f: Func, e):
    """`e`, or - when it names a parameter of f that is never rebound, has a default and that no call of the analysed package
    supplies (an additive `_expires: int = -1`) - that default: the value it has for every call falcon makes."""
    if isinstance(e, ast.Name) and e.id in f.params() and not Defs(f).defs.get(e.id):
        pv = param_values(p, f, e.id)
        if pv is not None and len(pv) == 1 and pv[0][0] is None:
            return pv[0][1]
    return e


def _const_text(p, f: Func):
    """lit() for _template: the text of a non-local name that folds to a string constant"""
    def lit(x):
        v = p.fold(f.module, x, None, f)
        return v if isinstance(v, str) else None
    return lit


def r5_uri_helpers(run):
    p = run.project
    # (a) Location / Content-Location properties
    want = {'location', 'content-location'}
    found = set()
    for (c, attr, call) in _factory_calls(p):
        name = p.fold(c.module, call.args[0], c, None) if call.args else UNKNOWN
        if not isinstance(name, str) or name.lower() not in want:
            continue
        found.add(name.lower())
        tr = call.args[2] if len(call.args) > 2 else next((k.value for k in call.keywords if k.arg == 'transform'), None)
        kind = _encoder_kind(p, resolve_alias(p, c.module, tr)) if tr is not None else None
        run.check(kind == 'uri', 'the %s property URI-encodes its value (transform is a falcon.util.uri URI encoder)' % name, c.qual, call,
                  where=c.loc(call), witness=['transform: %s' % (short(tr) if tr is not None else 'none (str)')],
                  runtime_witness="resp.%s = 'http://x/é y' is emitted with raw non-ASCII/space characters" % attr)
    if found != want:
        raise AnchorError('header properties for %s not found' % sorted(want - found))
    # (b) append_link
    f = p.lookup_method(RESPONSE, 'append_link')
    if f is None:
        raise AnchorError('Response.append_link not found')
    run.use(f)
    params = f.params()
    for prm, kinds in (('target', {'uri'}), ('anchor', {'uri'})):
        if prm not in params:
            raise AnchorError('append_link has no parameter %s' % prm)
        ok, bad = _uses_only_inside(f, prm, lambda c: _encoder_kind(p, _callee_qual(p, f, c)) in kinds)
        uses = [n for n in ast.walk(f.node) if isinstance(n, ast.Name) and n.id == prm and isinstance(n.ctx, ast.Load)]
        if not uses:
            raise AnchorError('append_link never uses %s' % prm)
        run.check(ok, 'append_link: %s only enters the header through a URI encoder' % prm, f, bad[0] if bad else prm,
                  runtime_witness="append_link(%s='/café x', ...) emits raw non-ASCII/space characters" % prm)
    if 'title_star' not in params:
        raise AnchorError('append_link has no parameter title_star')
    # title_star[1] -> value encoder; title_star[0] (language tag) raw
    subs = [n for n in ast.walk(f.node) if isinstance(n, ast.Subscript) and isinstance(n.value, ast.Name) and n.value.id == 'title_star']
    texts = [n for n in subs if p.fold(f.module, n.slice, None, None) == 1]
    if not texts:
        raise AnchorError('append_link never reads title_star[1]')
    parent: Dict[int, ast.AST] = {}
    for n in ast.walk(f.node):
        for c in ast.iter_child_nodes(n):
            parent[id(c)] = n
    for n in texts:
        par = parent.get(id(n))
        ok = isinstance(par, ast.Call) and par.args == [n] and _encoder_kind(p, _callee_qual(p, f, par)) == 'value'
        run.check(ok, 'append_link: the title* text is percent-encoded as a value (RFC 8187 ext-value)', f, par if par is not None else n,
                  runtime_witness="append_link(..., title_star=('en', 'café; x')) emits raw characters in title*")
    # and the literal introducing it is UTF-8'<lang>'
    tpl_ok = False
    for n in ast.walk(f.node):
        t = _template(n, _const_text(p, f)) if isinstance(n, (ast.JoinedStr, ast.BinOp)) else None
        if t and any(isinstance(x, ast.Call) and x.args and x.args[0] in texts for x in t):
            i = next(i for i, x in enumerate(t) if isinstance(x, ast.Call) and x.args and x.args[0] in texts)
            before = ''.join(x if isinstance(x, str) else '\0' for x in t[:i])
            tpl_ok = before.replace(' ', '').endswith("title*=UTF-8'\0'")
            break
    run.check(tpl_ok, "append_link: title* is introduced by UTF-8'<language>' (the charset the encoder uses)", f, 'title*=UTF-8',
              where=f.loc())
    # (c) content-disposition
    g = p.func('falcon.response_helpers._format_content_disposition')
    cfg = cfg_of(g, p)
    run.use_cfg(cfg)
    vparam = g.params()[0]
    prov5 = Provenance(p, g, vparam)
    n_rets = 0
    for n in cfg.live_nodes():
        if n.kind != 'stmt' or not isinstance(n.ast, ast.Return) or n.ast.value is None:
            continue
        # returns only reached when value.isascii() holds may embed the raw name
        ascii_only = False
        for e in controlling_edges(cfg, n.id):
            r = implied(cfg.node(e[0]).ast, e[2] == 'T', lambda x: isinstance(x, ast.Call) and isinstance(x.func, ast.Attribute)
                        and x.func.attr == 'isascii' and isinstance(x.func.value, ast.Name) and x.func.value.id == vparam)
            if r is True:
                ascii_only = True
        if ascii_only:
            continue
        n_rets += 1
        t = _template(n.ast.value, _const_text(p, g))
        if t is None:
            raise UnknownIdiom('%s: cannot read the template of %s' % (g.qual, short(n.ast.value)))
        t = _through_locals(p, g, t, n.id)
        # holes that carry the name: the parameter, or a local built from it (whether the local still is the whole
        # name is R15's clause; here only the encoder in front of it is judged)
        def carries(x, nid=n.id):
            return any(isinstance(y, ast.Name) and y.id == vparam for y in ast.walk(x)) or prov5.classify_any(x, nid).derived

        raw = [x for x in t if not isinstance(x, str) and carries(x)]
        ok = bool(raw)
        star = False
        for x in raw:
            if isinstance(x, ast.Call) and len(x.args) == 1 and not x.keywords and carries(x.args[0]) \
                    and not any(isinstance(y, ast.Call) for y in ast.walk(x.args[0])):
                q = _callee_qual(p, g, x)
                i = t.index(x)
                before = ''.join(y for y in t[:i] if isinstance(y, str)) if all(isinstance(y, str) for y in t[i - 1:i]) else ''
                lead = t[i - 1] if i > 0 and isinstance(t[i - 1], str) else ''
                if _encoder_kind(p, q) == 'value':
                    if lead.replace(' ', '').endswith("filename*=UTF-8''"):
                        star = True
                    else:
                        ok = False
                elif q == 'falcon.util.misc.secure_filename':
                    pass   # ASCII fallback
                else:
                    ok = False
            else:
                ok = False
        run.check(ok and star, "a non-ASCII download name is emitted as filename*=UTF-8''<percent-encoded value> (plus ASCII fallback); "
                  'the raw name is not embedded', g, n.ast.value, where='%s:%s' % (g.file, n.lineno),
                  runtime_witness="resp.downloadable_as = 'café.pdf' emits raw non-ASCII bytes or an undecodable filename*")
    if n_rets == 0:
        raise AnchorError('%s: no return for non-ASCII names' % g.qual)
    # (d) downloadable_as / viewable_as use that formatter
    n_cd = 0
    for (c, attr, call) in _factory_calls(p):
        name = p.fold(c.module, call.args[0], c, None) if call.args else UNKNOWN
        if not isinstance(name, str) or name.lower() != 'content-disposition':
            continue
        n_cd += 1
        tr = call.args[2] if len(call.args) > 2 else next((k.value for k in call.keywords if k.arg == 'transform'), None)
        ok = False
        if tr is not None:
            base = tr
            if isinstance(tr, ast.Call) and resolve_alias(p, c.module, tr.func) == 'functools.partial' and tr.args:
                base = tr.args[0]
            ok = resolve_alias(p, c.module, base) == g.qual
        run.check(ok, 'the %s property formats its value with _format_content_disposition' % attr, c.qual, call, where=c.loc(call))
    if n_cd == 0:
        raise AnchorError('no Content-Disposition header property found')


# ---------------------------------------------------------------------------
# R6
# ---------------------------------------------------------------------------

def r6_property_factory(run):
    p = run.project
    fac = p.func(FACTORY)
    run.use(fac)
    params = fac.params()
    if len(params) < 3:
        raise AnchorError('%s(name, doc, transform) signature changed' % FACTORY)
    name_p, transform_p = params[0], params[2]
    sites = [s for s in _sites(run) if s.func.parent is fac]
    if not sites:
        raise AnchorError('%s: no header access in the accessors' % FACTORY)
    fdefs = Defs(fac)

    def canon(site) -> Optional[str]:
        """the factory-scope name the accessor's key stands for: the closure variable itself, looked through locals of the
        accessor and closure variables that are bound once to another name (`key = normalized_name`)"""
        k = strip_await(site.key)
        if not isinstance(k, ast.Name):
            return None
        nm = k.id
        if nm in local_names(site.func):
            ds = Defs(site.func).defs.get(nm, [])
            if nm in site.func.params() or len(ds) != 1 or ds[0][0] != 'assign' or not isinstance(ds[0][1], ast.Name) \
                    or ds[0][1].id in local_names(site.func):
                return None
            nm = ds[0][1].id
        for _ in range(4):
            ds = fdefs.defs.get(nm, [])
            if nm not in params and len(ds) == 1 and ds[0][0] == 'assign' and isinstance(ds[0][1], ast.Name):
                nm = ds[0][1].id
            else:
                break
        return nm

    keys = {canon(s) or short(s.key) for s in sites}
    # one key, derived from the name parameter by .lower()
    for s in sites:
        ok = False
        why = ''
        kn = canon(s)
        if kn is not None:
            ds = fdefs.defs.get(kn, [])
            ok = bool(ds) and kn not in params and all(
                d[0] == 'assign' and is_lower_call(d[1]) and isinstance(d[1].func.value, ast.Name) and d[1].func.value.id == name_p for d in ds)
            why = '; '.join(short(d[1], 40) for d in ds if d[0] == 'assign')
        # one obligation per cell of transform in {None, callable} in which this accessor variant is the one installed (two
        # variants selected by `transform is None` and one variant serving both cells are the same set of obligations)
        for _cell in sorted(_accessor_cells(p, fac, s.func, transform_p)):
            run.check(ok and len(keys) == 1, 'header property accessor %s uses the one normalised key `%s.lower()`' % (s.func.name, name_p),
                      s.func, s.node, witness=[why],
                      runtime_witness='getter, setter and deleter of a header property address different dict keys')
    # property(fget, fset, fdel, doc)
    rets = [n for n in walk_no_nested(fac.node) if isinstance(n, ast.Return) and n.value is not None]
    r = single(rets, 'return statement', fac.qual)
    call = r.value
    if not (isinstance(call, ast.Call) and isinstance(call.func, ast.Name) and call.func.id == 'property'):
        raise UnknownIdiom('%s does not return property(...)' % FACTORY)
    roles: Dict[str, ast.AST] = {}
    for i, a in enumerate(call.args[:3]):
        roles[('fget', 'fset', 'fdel')[i]] = a
    for k in call.keywords:
        if k.arg in ('fget', 'fset', 'fdel'):
            roles[k.arg] = k.value
    by_role: Dict[str, List[Func]] = {}
    for role, a in roles.items():
        if not isinstance(a, ast.Name):
            raise UnknownIdiom('%s: property(%s=%s)' % (FACTORY, role, short(a)))
        by_role[role] = [g for key, g in fac.nested.items() if g.name == a.id]
        if not by_role[role]:
            raise AnchorError('%s: accessor %s not found' % (FACTORY, a.id))
    for role, kinds in (('fget', {'load', 'get'}), ('fset', {'store', 'del', 'pop'}), ('fdel', {'del', 'pop'})):
        if role not in by_role:
            run.fail('header properties have no %s' % role, fac, call)
            continue
        for g in by_role[role]:
            gs = [s for s in sites if s.func is g]
            for _cell in sorted(_accessor_cells(p, fac, g, transform_p)):
                run.check(bool(gs) and {s.kind for s in gs} <= kinds, 'property(%s=%s): the accessor performs only %s on the header dict' % (
                    role, g.name, '/'.join(sorted(kinds))), g, call, where=g.loc())
    # setters: None deletes, anything else stores transform(value) / str(value)
    for g in by_role.get('fset', []):
        cfg = cfg_of(g, p)
        run.use_cfg(cfg)
        gp = g.params()
        if len(gp) < 2:
            raise UnknownIdiom('%s signature' % g.qual)
        vparam = gp[1]
        rd = reaching(p, g)
        is_none = lambda e: (isinstance(e, ast.Compare) and len(e.ops) == 1 and isinstance(e.left, ast.Name) and e.left.id == vparam  # noqa: E731
                             and isinstance(e.ops[0], ast.Is) and isinstance(e.comparators[0], ast.Constant) and e.comparators[0].value is None)
        none_edges, some_edges = [], []
        for t in cfg.live_nodes():
            if t.kind == 'test':
                for (y, l) in cfg.succ[t.id]:
                    if l in ('T', 'F'):
                        r_ = implied(t.ast, l == 'T', is_none)
                        if r_ is None:
                            r2 = implied(t.ast, l == 'T', lambda e: isinstance(e, ast.Compare) and len(e.ops) == 1 and isinstance(e.left, ast.Name)
                                         and e.left.id == vparam and isinstance(e.ops[0], ast.IsNot) and isinstance(e.comparators[0], ast.Constant)
                                         and e.comparators[0].value is None)
                            r_ = None if r2 is None else (not r2)
                        if r_ is True:
                            none_edges.append((t.id, y, l))
                        elif r_ is False:
                            some_edges.append((t.id, y, l))
        gs = [s for s in sites if s.func is g]
        dels = [s for s in gs if s.kind in ('del', 'pop')]
        stores = [s for s in gs if s.kind == 'store']
        ok_del = bool(none_edges) and bool(dels) and all(
            any(flow.dominated_by_edge(cfg, rd.cfg_node(s.node), e) for e in none_edges) for s in dels)
        # and on the None edge the delete is always attempted
        if ok_del:
            dn = [rd.cfg_node(s.node) for s in dels]
            for e in none_edges:
                if flow.find_path(cfg, [e[1]], [cfg.exit], avoid_nodes=dn, edge_filter=flow.no_exc) is not None:
                    ok_del = False
        g_cells = _accessor_cells(p, fac, g, transform_p)
        for _cell in sorted(g_cells):
            run.check(ok_del, 'setting a header property to None deletes the header (and only None does)', g,
                      'value is None -> delete', where=g.loc(),
                      runtime_witness='resp.etag = None leaves the header / stores the string "None"')
        ok_store = bool(stores) and bool(some_edges) and all(
            any(flow.dominated_by_edge(cfg, rd.cfg_node(s.node), e) for e in some_edges) for s in stores)
        for _cell in sorted(g_cells):
            run.check(ok_store, 'a non-None value is stored (never on the None branch)', g, 'value is not None -> store', where=g.loc(),
                      runtime_witness='resp.etag = "x" is dropped, or None is stored')
        # stored value: transform(value) when a transform is configured, else str(value).  Decided per cell of the finite
        # domain transform in {None, a callable}: the cells in which THIS setter variant is the one installed (the branch
        # tests on `transform` that control its definition), and in each of them the callee of the stored value - `str`,
        # the transform parameter, or a closure variable of the factory bound from them (conditional expression /
        # `transform or str` / one binding per branch), evaluated in that cell.
        fcfg = fac_cfg(p, fac)
        for s in stores:
            par = None
            for n in walk_no_nested(g.node):
                if isinstance(n, ast.Assign) and any(t is s.node for t in n.targets):
                    par = n
            if par is None:
                raise UnknownIdiom('%s: store shape' % g.qual)
            v = par.value
            callee = None
            fixed = None
            if isinstance(v, ast.Call) and isinstance(v.func, ast.Name) and len(v.args) == 1 and not v.keywords \
                    and isinstance(v.args[0], ast.Name) and v.args[0].id == vparam:
                callee = v.func
                if callee.id in local_names(g):
                    raise UnknownIdiom('%s: the stored value is produced by the local %s' % (g.qual, callee.id))
            elif isinstance(v, ast.Name) and v.id == vparam:
                fixed = 'the value itself, not converted'
            elif isinstance(v, ast.JoinedStr) and len(v.values) == 1 and isinstance(v.values[0], ast.FormattedValue) and v.values[0].format_spec is None \
                    and v.values[0].conversion in (-1, 115) and isinstance(v.values[0].value, ast.Name) and v.values[0].value.id == vparam:
                fixed = 'str'       # f'{value}' / f'{value!s}' is str(value) (format(value, '') is str(value) unless __format__ is overridden)
                if v.values[0].conversion == -1:
                    raise UnknownIdiom('%s: %s calls format(value, ""), which is str(value) only for types that do not override __format__'
                                       % (g.qual, short(v)))
            else:
                raise UnknownIdiom('%s: the stored value %s is neither <callable>(%s) nor %s itself' % (g.qual, short(v, 60), vparam, vparam))
            for tnone in sorted(g_cells, reverse=True):
                want = 'str' if tnone else 'transform'
                shape = fixed if fixed is not None else _callee_in_cell(p, fac, fcfg, fdefs, callee, transform_p, tnone)
                if shape is None:
                    raise UnknownIdiom('%s: what %s denotes when `%s is None` is %s is not understood' % (g.qual, callee.id, transform_p, tnone))
                run.check(shape == want, 'the setter stores %s(value) %s' % ('str' if tnone else transform_p,
                                                                             'when no transform is configured' if tnone else
                                                                             '(the configured transform is applied)'), g, par,
                          witness=['%s %s: the value is produced by %s' % (transform_p, 'is None' if tnone else 'is a callable', shape)],
                          runtime_witness='resp.location = x stores x without the configured transform' if not tnone else
                          'resp.content_length = 5 stores a non-str')


def _accessor_cells(p, fac: Func, g: Func, transform_p) -> Set[bool]:
    """cells of {`transform is None`: True, False} in which the nested accessor `g` is the one defined"""
    cells = _transform_cells(fac_cfg(p, fac), _def_node(p, fac, g), transform_p)
    if not cells:
        raise UnknownIdiom('%s: the accessor variant is installed for no value of `%s`' % (g.qual, transform_p))
    return cells


def _transform_truth(e, transform_p) -> Optional[bool]:
    """polarity of an atom about the transform parameter: True = 'it is None', False = 'it is not None'"""
    if isinstance(e, ast.Compare) and len(e.ops) == 1 and isinstance(e.left, ast.Name) and e.left.id == transform_p \
            and isinstance(e.comparators[0], ast.Constant) and e.comparators[0].value is None:
        if isinstance(e.ops[0], (ast.Is, ast.Eq)):
            return True
        if isinstance(e.ops[0], (ast.IsNot, ast.NotEq)):
            return False
    if isinstance(e, ast.Name) and e.id == transform_p:
        return False        # truth test: None is false; a transform is a function / functools.partial (always true)
    if isinstance(e, ast.Call) and isinstance(e.func, ast.Name) and e.func.id == 'callable' and len(e.args) == 1 \
            and isinstance(e.args[0], ast.Name) and e.args[0].id == transform_p:
        return False
    return None


def _transform_cells(cfg, nid: int, transform_p) -> Set[bool]:
    """cells of {transform is None: True, False} in which cfg node `nid` of the factory can execute"""
    cells = {True, False}
    for e in controlling_edges(cfg, nid):
        test = cfg.node(e[0]).ast
        for pol in (True, False):
            r_ = implied(test, e[2] == 'T', lambda x, pol=pol: _transform_truth(x, transform_p) is pol)
            if r_ is not None:
                is_none = r_ if pol else not r_
                cells &= {is_none}
    return cells


def _callee_in_cell(p, fac: Func, fcfg, fdefs: Defs, e, transform_p, tnone: bool, depth=0) -> Optional[str]:
    """what the expression `e` of the factory scope denotes when `transform is None` == tnone:
    'str' | 'transform' | 'None' | None (something else)"""
    if depth > 4:
        raise UnknownIdiom('%s: chain of aliases of the value coercion is too deep' % fac.qual)
    if isinstance(e, ast.Constant) and e.value is None:
        return 'None'
    if isinstance(e, ast.IfExp) or (isinstance(e, ast.BoolOp) and len(e.values) == 2):
        def truth(t) -> Optional[bool]:
            neg = False
            while isinstance(t, ast.UnaryOp) and isinstance(t.op, ast.Not):
                t, neg = t.operand, not neg
            r_ = _transform_truth(t, transform_p)
            if r_ is None:
                return None
            return (r_ == tnone) != neg
        if isinstance(e, ast.IfExp):
            tv = truth(e.test)
            if tv is None:
                raise UnknownIdiom('%s: the condition of `%s` is not a test on `%s`' % (fac.qual, short(e, 60), transform_p))
            return _callee_in_cell(p, fac, fcfg, fdefs, e.body if tv else e.orelse, transform_p, tnone, depth + 1)
        first = _callee_in_cell(p, fac, fcfg, fdefs, e.values[0], transform_p, tnone, depth + 1)
        if first is None:
            raise UnknownIdiom('%s: `%s`' % (fac.qual, short(e, 60)))
        first_true = first != 'None'
        take_first = first_true if isinstance(e.op, ast.Or) else not first_true
        return first if take_first else _callee_in_cell(p, fac, fcfg, fdefs, e.values[1], transform_p, tnone, depth + 1)
    if not isinstance(e, ast.Name):
        return None
    if e.id == transform_p:
        if fdefs.defs.get(transform_p):
            raise UnknownIdiom('%s rebinds its `%s` parameter' % (fac.qual, transform_p))
        return 'None' if tnone else 'transform'
    if e.id in fdefs.params:
        return None
    ds = fdefs.defs.get(e.id)
    if not ds:
        if e.id in fac.nested:
            return None
        return 'str' if p.resolve_expr(fac.module, e, fac) == 'builtins.str' else None
    vals = set()
    for d in ds:
        if d[0] != 'assign':
            raise UnknownIdiom('%s: %s is bound by %s' % (fac.qual, e.id, d[0]))
        stmt = next((n for n in walk_no_nested(fac.node) if isinstance(n, (ast.Assign, ast.AnnAssign)) and n.value is d[1]), None)
        ids = fcfg.nodes_for(stmt) if stmt is not None else []
        if not ids:
            raise UnknownIdiom('%s: binding of %s is not a statement of the factory' % (fac.qual, e.id))
        if tnone in _transform_cells(fcfg, ids[0], transform_p):
            vals.add(_callee_in_cell(p, fac, fcfg, fdefs, d[1], transform_p, tnone, depth + 1))
    if len(vals) != 1:
        raise UnknownIdiom('%s: %s has %d possible bindings when `%s is None` is %s' % (fac.qual, e.id, len(vals), transform_p, tnone))
    return vals.pop()


def fac_cfg(p, fac):
    return cfg_of(fac, p)


def _def_node(p, fac: Func, g: Func) -> int:
    cfg = cfg_of(fac, p)
    ids = cfg.nodes_for(g.node)
    if not ids:
        raise UnknownIdiom('%s: definition of %s is not a statement of the factory' % (fac.qual, g.name))
    return ids[0]


# ---------------------------------------------------------------------------
# R9 bulk set consumes its iterable argument in a single pass
# ---------------------------------------------------------------------------

_R9_MATERIALISERS = ('list', 'tuple', 'dict', 'sorted', 'OrderedDict')


def r9_single_pass(run):
    """`set_headers(headers)` documents an *iterable* of pairs.  A one-shot
    iterable (generator, zip, map, dict-items iterator) yields nothing on a
    second pass, so an implementation that walks the argument twice (a
    validation pass, then the store pass) silently sets nothing.  Decided: no
    CFG path iterates the (un-materialised) argument more than once.
    W: resp.set_headers((k, v) for ...) returns normally and sets no header."""
    p = run.project
    f = p.func('falcon.response.Response.set_headers')
    cfg = cfg_of(f, p)
    run.use_cfg(cfg)
    param = f.params()[1]
    # aliases of the argument: the parameter, and names bound to it / to its
    # items() view / to a call of the bound `items` attribute
    aliases = {param}
    getattr_names = set()
    changed = True
    while changed:
        changed = False
        for n in walk_self(f.node):
            if not (isinstance(n, ast.Assign) and len(n.targets) == 1 and isinstance(n.targets[0], ast.Name)):
                continue
            t = n.targets[0].id
            v = n.value
            src = None
            if isinstance(v, ast.Name) and v.id in aliases:
                src = 'alias'
            elif isinstance(v, ast.Call) and isinstance(v.func, ast.Attribute) and v.func.attr in ('items', '__iter__') \
                    and isinstance(v.func.value, ast.Name) and v.func.value.id in aliases:
                src = 'alias'
            elif isinstance(v, ast.Call) and isinstance(v.func, ast.Name) and v.func.id == 'getattr' and v.args \
                    and isinstance(v.args[0], ast.Name) and v.args[0].id in aliases:
                if t not in getattr_names:
                    getattr_names.add(t)
                    changed = True
                continue
            elif isinstance(v, ast.Call) and isinstance(v.func, ast.Name) and v.func.id in getattr_names:
                src = 'alias'
            elif isinstance(v, ast.Call) and isinstance(v.func, ast.Name) and v.func.id == 'iter' and v.args \
                    and isinstance(v.args[0], ast.Name) and v.args[0].id in aliases:
                src = 'alias'
            if src and t not in aliases:
                aliases.add(t)
                changed = True

    def consumes(node) -> bool:
        if node.kind == 'iter':
            it = node.stmt.iter
            return isinstance(it, ast.Name) and it.id in aliases
        for x in node.walk():
            if isinstance(x, (ast.ListComp, ast.SetComp, ast.DictComp, ast.GeneratorExp)):
                for g in x.generators:
                    if isinstance(g.iter, ast.Name) and g.iter.id in aliases:
                        return True
            if isinstance(x, ast.Call) and isinstance(x.func, ast.Name) and x.func.id in _R9_MATERIALISERS + ('set', 'frozenset', 'any', 'all', 'sum', 'max', 'min', 'len') \
                    and x.args and isinstance(x.args[0], ast.Name) and x.args[0].id in aliases and x.func.id != 'len':
                return True
        return False

    def rebinds_materialised(node) -> bool:
        """`headers = list(headers)`: from here on the alias is a real container"""
        a = node.ast
        return node.kind == 'stmt' and isinstance(a, ast.Assign) and len(a.targets) == 1 and isinstance(a.targets[0], ast.Name) \
            and a.targets[0].id in aliases and isinstance(a.value, ast.Call) and isinstance(a.value.func, ast.Name) \
            and a.value.func.id in _R9_MATERIALISERS

    sites = [n for n in cfg.live_nodes() if consumes(n) and not rebinds_materialised(n)]
    mats = [n.id for n in cfg.live_nodes() if rebinds_materialised(n)]
    if not sites:
        raise AnchorError('set_headers: no iteration over the headers argument found')
    bad = None
    for a in sites:
        succ = [y for (y, l) in cfg.succ[a.id] if l in ('done', '', 'T', 'F')]
        # a loop header reaches itself through its own body: start after the loop
        starts = [y for (y, l) in cfg.succ[a.id] if l == 'done'] if a.kind == 'iter' else succ
        for b in sites:
            if b.id == a.id:
                continue
            if flow.find_path(cfg, starts, [b.id], avoid_nodes=mats, edge_filter=flow.no_exc) is not None:
                bad = (a, b)
    run.check(bad is None, 'set_headers walks its iterable argument at most once on every path (one-shot iterables are legal arguments)', f,
              (bad[1].stmt.iter if bad and bad[1].kind == 'iter' else (bad[1].ast if bad else 'single pass')),
              where=f.loc(), witness=['first pass: %s:%s %s' % (f.file, bad[0].lineno, bad[0].text()),
                                      'second pass: %s:%s %s' % (f.file, bad[1].lineno, bad[1].text())] if bad else None,
              runtime_witness='resp.set_headers((k, v) for k, v in pairs) returns normally and sets nothing')


# ---------------------------------------------------------------------------
# R10 the ASCII fallback of a download filename really is ASCII
# ---------------------------------------------------------------------------

def r10_ascii_fallback(run):
    """For a non-ASCII download name the header carries `filename=<fallback>`
    produced by secure_filename().  The header must be pure ASCII, so whatever
    secure_filename lets through must be ASCII: its "unsafe character" pattern
    has to be a NEGATED class whose members are ASCII literals/ranges only.
    A category escape such as \\w or \\d in a str pattern without re.ASCII
    matches letters/digits of every script, i.e. lets them through.
    W: resp.downloadable_as = 'отчёт.pdf' emits a non-ASCII header (ASGI: ValueError)."""
    import re
    try:
        import re._parser as sre_parse  # py3.11+
    except ImportError:  # pragma: no cover
        import sre_parse
    p = run.project
    f = p.func('falcon.util.misc.secure_filename')
    run.use(f)
    mod = f.module
    subs = [c for c in walk_self(f.node) if isinstance(c, ast.Call) and isinstance(c.func, ast.Attribute) and c.func.attr == 'sub'
            and isinstance(c.func.value, ast.Name) and c.func.value.id in mod.consts]
    if not subs:
        raise AnchorError('secure_filename: no <module regex>.sub(...) call')
    last_ret = [r for r in walk_self(f.node) if isinstance(r, ast.Return) and r.value is not None]
    for c in subs:
        rx = mod.consts[c.func.value.id]
        if not (isinstance(rx, ast.Call) and rx.args):
            raise UnknownIdiom('secure_filename: %s is not re.compile(<literal>)' % c.func.value.id)
        pat = p.fold(mod, rx.args[0], None, None)
        if not isinstance(pat, str):
            raise UnknownIdiom('secure_filename: pattern of %s is not a str literal' % c.func.value.id)
        flags_ascii = any('ASCII' in unparse(a) or unparse(a).endswith('.A') for a in list(rx.args[1:]) + [k.value for k in rx.keywords])
        try:
            parsed = sre_parse.parse(pat)
        except Exception as e:
            raise UnknownIdiom('secure_filename: cannot parse pattern %r (%s)' % (pat, e))
        ok = len(parsed) == 1 and str(parsed[0][0]) == 'IN'
        why = ''
        if ok:
            items = list(parsed[0][1])
            if not items or str(items[0][0]) != 'NEGATE':
                ok, why = False, 'the class is not negated'
            for op, av in items[1:]:
                op = str(op)
                if op == 'LITERAL' and av < 128:
                    continue
                if op == 'RANGE' and av[1] < 128:
                    continue
                if op == 'CATEGORY' and flags_ascii:
                    continue
                ok, why = False, 'member %s %s admits non-ASCII characters' % (op, av)
        else:
            why = 'the pattern is not a single character class'
        run.check(ok, 'secure_filename replaces every character outside an ASCII-only allow-list (so the filename= fallback is ASCII)', f,
                  '%s = re.compile(%r)' % (c.func.value.id, pat), where=f.loc(c), witness=[why] if why else None,
                  runtime_witness="resp.downloadable_as = 'отчёт за 2024.pdf': filename=отче_т_за_2024.pdf goes out raw")
    # and the fallback used by the header formatter is that function
    g = p.func('falcon.response_helpers._format_content_disposition')
    run.use(g)
    uses = [c for c in walk_self(g.node) if isinstance(c, ast.Call) and p.resolve_callable(g, c.func) is f]
    run.check(bool(uses), 'the filename= fallback of a non-ASCII download name is secure_filename(name)', g,
              uses[0] if uses else 'secure_filename not used', where=g.loc())


# ---------------------------------------------------------------------------
# R12 append: "already present" is decided by presence, not by the value's truth
# ---------------------------------------------------------------------------

def _join_deciders(cfg, f: Func, den, got) -> List[Tuple[ast.AST, str]]:
    """The conditions under which append_* JOINS the new value onto the stored one, wherever they sit.
    A join site is a statement that reads the old value of the plain header dict (a subscript load, an augmented
    assignment of a subscript, or a local bound to `<headers>.get(k)`).  What decides that it runs is read off the
    CFG, not off the nesting: every T/F edge of a test that dominates the site (an enclosing `if`, the `else` of an
    inverted test, the fall-through after a guard clause that returns), the test of a conditional expression whose
    arm holds the read, and a `KeyError`/`LookupError` handler the read's failure is routed to.
    -> [(expression, how)] in source order, one entry per expression; how is 'test' or 'handler'."""
    parent = enclosing_map(f.node)

    def reads_old(x) -> bool:
        if isinstance(x, ast.Subscript) and den(x.value) and isinstance(x.ctx, ast.Load):
            return True
        if isinstance(x, ast.AugAssign) and isinstance(x.target, ast.Subscript) and den(x.target.value):
            return True
        return isinstance(x, ast.Name) and x.id in got and isinstance(x.ctx, ast.Load)

    out: List[Tuple[ast.AST, str]] = []
    seen: Set[int] = set()

    def add(e, how):
        if id(e) not in seen:
            seen.add(id(e))
            out.append((e, how))

    for n in sorted(cfg.live_nodes(), key=lambda n: (n.lineno or 0, n.id)):
        if n.kind != 'stmt':
            continue
        reads = [x for x in n.walk() if reads_old(x)]
        if not reads:
            continue
        for (t, _y, _l) in controlling_edges(cfg, n.id):
            add(cfg.node(t).ast, 'test')
        for x in reads:
            cur = x
            while cur is not n.ast and id(cur) in parent:
                par = parent[id(cur)]
                if isinstance(par, ast.IfExp) and par.test is not cur:
                    add(par.test, 'test')
                cur = par
            if not (isinstance(x, ast.Name)):
                # a direct subscript read of an absent key raises KeyError: a handler for it IS the "absent" branch
                for (h, l) in cfg.succ[n.id]:
                    hn = cfg.node(h)
                    if l == 'exc' and hn.kind == 'handler' and isinstance(hn.ast, ast.ExceptHandler) and hn.ast.type is not None:
                        types = hn.ast.type.elts if isinstance(hn.ast.type, ast.Tuple) else [hn.ast.type]
                        if types and all(isinstance(ty, ast.Name) and ty.id in ('KeyError', 'LookupError') for ty in types):
                            add(hn.ast.type, 'handler')
    return out


def r12_append_presence(run):
    """append_header / append_link join the new value onto an existing one.
    Whether the header exists is a question about the KEY: a header set to the
    empty string exists (the map model holds '' for it), so the join decision
    must be a membership test or an `is (not) None` test of a `.get()` result
    (or the KeyError of the subscript read itself), never the truthiness of the
    stored value.  The deciding condition is looked up on the CFG (see
    _join_deciders), so an inverted test, a guard clause with an early return
    and a conditional expression are read like the nested `if`.
    W: set_header('X-A', ''); append_header('X-A', 'a') -> get_header gives 'a', the model ', a'."""
    p = run.project
    judged: Set[int] = set()
    for q in ('falcon.response.Response.append_header', 'falcon.response.Response.append_link'):
        f = p.func(q)
        run.use(f)
        cfg = cfg_of(f, p)
        run.use_cfg(cfg)
        den, _al = store_exprs(p, f, '_headers')
        # locals bound to <headers>.get(k) / <headers>.get(k, None)
        got = {}
        for a in walk_self(f.node):
            if isinstance(a, ast.Assign) and len(a.targets) == 1 and isinstance(a.targets[0], ast.Name) and isinstance(a.value, ast.Call) \
                    and isinstance(a.value.func, ast.Attribute) and a.value.func.attr == 'get' and den(a.value.func.value):
                got[a.targets[0].id] = a
        n = 0
        for (t, how) in _join_deciders(cfg, f, den, got):
            ok = None
            if how == 'handler':
                ok = True
            base = t
            while isinstance(base, ast.UnaryOp) and isinstance(base.op, ast.Not):
                base = base.operand
            if ok is None and isinstance(base, ast.Compare) and len(base.ops) == 1:
                if isinstance(base.ops[0], (ast.In, ast.NotIn)) and den(base.comparators[0]):
                    ok = True
                elif isinstance(base.ops[0], (ast.Is, ast.IsNot)) and isinstance(base.left, ast.Name) and base.left.id in got \
                        and isinstance(base.comparators[0], ast.Constant) and base.comparators[0].value is None:
                    ok = True
            if ok is None:
                if (isinstance(base, ast.Name) and base.id in got) or (isinstance(base, ast.Subscript) and den(base.value)) \
                        or (isinstance(base, ast.Call) and isinstance(base.func, ast.Attribute) and base.func.attr == 'get' and den(base.func.value)):
                    ok = False
            if ok is None:
                # not a test about the header's presence (e.g. the Set-Cookie guard)
                continue
            n += 1
            judged.update(id(x) for x in ast.walk(t))
            run.check(ok, '%s decides "header already present" by the key (membership / is not None), not by the truth of the stored value' % f.name,
                      f, t, runtime_witness="resp.set_header('X-A', ''); resp.append_header('X-A', 'a'): get_header('x-a') == 'a' but the map model holds ', a'")
        if n < 1:
            raise AnchorError('%s: no presence test decides the join of old and new value' % f.qual)
    _presence_by_key_readers(run, judged)


_VALUE_READS = ('load', 'get', 'pop', 'setdefault')


def _truth_position(node, parent) -> Optional[ast.AST]:
    """The enclosing expression that decides something by the TRUTH (or emptiness) of `node`'s value, else None.
    The value passes through the last operand of and/or and through the arms of a conditional expression."""
    cur = node
    while True:
        par = parent.get(id(cur))
        if par is None:
            return None
        if isinstance(par, ast.Await):
            cur = par
            continue
        if isinstance(par, ast.BoolOp):
            if par.values[-1] is not cur:
                return par
            cur = par
            continue
        if isinstance(par, ast.IfExp):
            if par.test is cur:
                return par
            cur = par
            continue
        if isinstance(par, ast.UnaryOp) and isinstance(par.op, ast.Not):
            return par
        if isinstance(par, (ast.If, ast.While, ast.Assert)) and par.test is cur:
            return cur
        if isinstance(par, ast.comprehension) and any(x is cur for x in par.ifs):
            return cur
        if isinstance(par, ast.Call) and isinstance(par.func, ast.Name) and par.func.id == 'bool' and par.args == [cur]:
            return par
        if isinstance(par, ast.Compare) and len(par.ops) == 1 and isinstance(par.ops[0], (ast.Eq, ast.NotEq)):
            other = par.comparators[0] if par.left is cur else par.left
            if isinstance(other, ast.Constant) and other.value == '' and isinstance(other.value, str):
                return par       # `v == ''` / `v != ''` is the truth of a str spelled out
        return None


def _presence_by_key_readers(run, judged: Set[int]):
    """Second half of R12, over EVERY read of a value out of a response's plain header dict in the package
    (get_header, delete_header, append_header, the header-property getter, ...): a header set to '' is PRESENT, so
    whether a header exists is decided by the key (membership, `.get(k, default)`, `.pop(k, None)`, KeyError), never by
    the truth of the value read.  The value read (or a local bound only to such reads) must not stand in a truth
    position: operand of `or`/`and` other than the last, `not`, test of if/while/conditional expression/assert/
    comprehension filter, `bool(v)`, `v == ''`.
    W (seed s9-c15-1): `self._headers.get(name) or default`: set_header('X-Flags', ''); get_header('X-Flags', default='d')
    returns 'd', without a default None - the map model holds ''."""
    p = run.project
    by_func: Dict[str, List[Site]] = {}
    for s in _sites(run):
        by_func.setdefault(s.func.qual, []).append(s)
    n = 0
    rw = "resp.set_header('X-Flags', ''); resp.get_header('X-Flags', default='d') gives 'd' (None without a default) - the map model holds ''"
    for q, ss in sorted(by_func.items()):
        reads = [s for s in ss if s.kind in _VALUE_READS and not (isinstance(s.node, ast.Subscript) and not isinstance(s.node.ctx, ast.Load))]
        if not reads:
            continue
        f = ss[0].func
        parent = enclosing_map(f.node)
        read_ids = {id(s.node) for s in reads}
        defs = Defs(f)
        holders = {name for name, ds in defs.defs.items() if name not in defs.params and ds
                   and all(d[0] == 'assign' and id(strip_await(d[1])) in read_ids for d in ds)}
        uses: Dict[int, List[ast.AST]] = {id(s.node): [s.node] for s in reads}
        for x in walk_no_nested(f.node):
            if isinstance(x, ast.Name) and isinstance(x.ctx, ast.Load) and x.id in holders:
                for d in defs.defs[x.id]:
                    uses[id(strip_await(d[1]))].append(x)
        for s in reads:
            n += 1
            bad = []
            for u in uses[id(s.node)]:
                tp = _truth_position(u, parent)
                if tp is not None and id(tp) not in judged and not any(b is tp for b in bad):
                    bad.append(tp)
            what = ('%s: the value read from the header dict (%s) is never evaluated for its truth: whether the header is present '
                    'is decided by the key, a header set to the empty string is present' % (f.name, short(s.node, 50)))
            if not bad:
                run.ok(what, f.loc(s.node), s.node)
            for tp in bad:
                run.fail(what, f, tp, where=f.loc(tp), witness=['truth position: %s' % short(tp, 100)], runtime_witness=rw)
    if n < 2:
        raise AnchorError('value reads of the response header dict not found (%d: expected at least get_header and the property getter)' % n)


def r14_jar_only_grows(run):
    """One Set-Cookie line per cookie written, an unset cookie EXPIRED (not
    forgotten): an entry of the cookie jar, once written, stays until the
    response is sent.  Decided over every method of the response classes:
    no `del jar[...]`, no jar.pop()/popitem()/clear(), and the jar attribute
    is rebound only to None (constructor) or to a fresh SimpleCookie where it
    is None.  W: set_cookie('s', v) succeeds, a later rejected call for the
    same name "rolls back" with del -> the first cookie's line is never sent."""
    p = run.project
    _require_stores(p)
    jar = '_cookies'
    n = 0
    seen = set()
    for cq in (RESPONSE, ASGI_RESPONSE):
        for k in p.mro(cq):
            c = p.classes.get(k)
            if c is None:
                continue
            for f in c.methods.values():
                if id(f) in seen:
                    continue
                seen.add(id(f))

                def is_jar(e):
                    return isinstance(e, ast.Attribute) and e.attr == jar and isinstance(e.value, ast.Name)

                hits = [x for x in walk_self(f.node) if is_jar(x)]
                if not hits:
                    continue
                # a local bound only to the jar attribute (`jar = self._cookies`, `jar = self._cookies = SimpleCookie()`) is the jar
                _den, _aliases = store_exprs(p, f, jar)

                def is_jar(e, _aliases=_aliases):    # noqa: F811
                    return (isinstance(e, ast.Attribute) and e.attr == jar and isinstance(e.value, ast.Name)) \
                        or (isinstance(e, ast.Name) and e.id in _aliases)
                run.use(f)
                cfg = None
                for x in walk_self(f.node):
                    if isinstance(x, ast.Delete):
                        for t in x.targets:
                            if isinstance(t, ast.Subscript) and is_jar(t.value):
                                n += 1
                                run.fail('%s removes an entry of the cookie jar: a cookie written (or expired) earlier on this response is no longer sent'
                                         % f.name, f, x, runtime_witness="resp.set_cookie('s', 'v'); a later set_cookie('s', ..., same_site='bogus') is "
                                         "rejected -> no Set-Cookie line for 's' at all")
                    elif isinstance(x, ast.Call) and isinstance(x.func, ast.Attribute) and is_jar(x.func.value) \
                            and x.func.attr in ('pop', 'popitem', 'clear', '__delitem__'):
                        n += 1
                        run.fail('%s removes entries of the cookie jar (%s): cookies written earlier on this response are no longer sent'
                                 % (f.name, x.func.attr), f, x)
                    elif isinstance(x, (ast.Assign, ast.AnnAssign)) and getattr(x, 'value', None) is not None:
                        tg = x.targets if isinstance(x, ast.Assign) else [x.target]
                        if not any(isinstance(t, ast.Attribute) and is_jar(t) for t in tg):
                            continue        # (binding a local alias of the jar rebinds nothing)
                        n += 1
                        v = x.value
                        if isinstance(v, ast.Constant) and v.value is None:
                            run.check(f.name == '__init__', 'the cookie jar is reset to None only by the constructor', f, x)
                            continue
                        if cfg is None:
                            cfg = cfg_of(f, p)
                        nid = [nd.id for nd in cfg.live_nodes() if nd.ast is x]
                        none_edges = []
                        for t in cfg.live_nodes():
                            if t.kind != 'test':
                                continue
                            for (y, l) in cfg.succ[t.id]:
                                if l in ('T', 'F') and implied(t.ast, l == 'T', lambda e: isinstance(e, ast.Compare) and len(e.ops) == 1
                                                               and isinstance(e.ops[0], ast.Is) and is_jar(e.left)
                                                               and isinstance(e.comparators[0], ast.Constant) and e.comparators[0].value is None) is True:
                                    none_edges.append((t.id, y, l))
                        fresh = isinstance(v, ast.Call) and not v.args and not v.keywords
                        ok = fresh and bool(nid) and any(flow.dominated_by_edge(cfg, nid[0], e) for e in none_edges)
                        run.check(ok, '%s rebinds the cookie jar only to a fresh empty jar where it is None' % f.name, f, x,
                                  runtime_witness='cookies written earlier on this response are dropped when the jar is replaced')
                n += 0
    run.ok('cookie jar: no entry is ever removed (%d methods mention the jar)' % len([1 for _ in seen]), 'falcon/response.py', 'jar removal sweep')


# ---------------------------------------------------------------------------
# R15
# ---------------------------------------------------------------------------

def r15_disposition_text(run):
    """The text rendered by _format_content_disposition is its `value`
    parameter itself.  Between the parameter and the two renderings only the
    tabled rendering steps may stand (secure_filename for the quoted fallback
    next to a filename*, the value percent-encoder for filename*, plain
    %s / f-string embedding for the quoted ASCII form): a narrowing step
    (basename, split()[-1], strip, slice, case/Unicode normalisation, ...)
    before them means the header no longer decodes to the assigned name."""
    p = run.project
    g = p.func('falcon.response_helpers._format_content_disposition')
    cfg = cfg_of(g, p)
    run.use_cfg(cfg)
    params = g.params()
    if not params:
        raise AnchorError('%s has no parameter' % g.qual)
    vparam = params[0]
    prov = Provenance(p, g, vparam)
    n_star = 0
    rw = "resp.downloadable_as = 'TCP/IP notes.txt' (or ' a.txt ', 'A\u030a.txt'): the header decodes to a different name"

    def judge(o, clause, what, node, ret):
        bad = [x for x in o.xforms if clause == 'A' or x[0] == 'narrow']
        if o.xforms and not bad:
            raise UnknownIdiom('%s: %s is rewritten before the quoted form (%s); cannot tell an escaping from a corruption'
                               % (g.qual, vparam, '; '.join(o.describe())))
        if not o.derived:
            run.fail(what, g, node, where=g.loc(ret), witness=['%s does not derive from the parameter %s' % (short(node), vparam)], runtime_witness=rw)
            return
        cons = bad[0][1] if bad else node
        run.check(not bad, what, g, cons, where=g.loc(cons if hasattr(cons, 'lineno') else ret),
                  witness=o.describe() + ['reaches %s' % short(ret, 120)] if bad else None, runtime_witness=rw)

    for n in cfg.live_nodes():
        if n.kind != 'stmt' or not isinstance(n.ast, ast.Return) or n.ast.value is None:
            continue
        t = _template(n.ast.value, _const_text(p, g))
        if t is None:
            raise UnknownIdiom('%s: cannot read the template of %s' % (g.qual, short(n.ast.value)))
        t = _through_locals(p, g, t, n.id)
        for i, x in enumerate(t):
            if isinstance(x, str):
                continue
            lead = t[i - 1].replace(' ', '') if i > 0 and isinstance(t[i - 1], str) else ''
            if isinstance(x, ast.Call) and len(x.args) == 1 and not x.keywords:
                q = _callee_qual(p, g, x)
                if _encoder_kind(p, q) == 'value' and lead.endswith("filename*=UTF-8''"):
                    n_star += 1
                    judge(prov.classify(x.args[0], n.id), 'A',
                          "the filename* form percent-encodes the function's value parameter itself (the whole assigned name)", x.args[0], n.ast)
                    continue
                if q == 'falcon.util.misc.secure_filename':
                    continue     # lossy ASCII fallback next to a filename*: no round trip is claimed for it (ASCII-ness is R10)
            o = prov.classify(x, n.id)
            if not o.derived:
                continue
            judge(o, 'B', "the quoted filename form embeds the function's value parameter itself (the whole assigned name)", x, n.ast)
    if not n_star:
        raise AnchorError("%s: no filename*=UTF-8''<value-encoded> rendering found" % g.qual)


# ---------------------------------------------------------------------------
# R17: a failed jar store is not swallowed
# ---------------------------------------------------------------------------

# what `BaseCookie.__setitem__` raises for an illegal / reserved key, and the classes a handler may name to catch it
JAR_STORE_FAILURES = ('http.cookies.CookieError', 'builtins.Exception', 'builtins.BaseException')


def stmt_of_try_body(tr: ast.Try, stmt):
    """the statement of tr.body that is or contains `stmt`"""
    for x in tr.body:
        if x is stmt or any(y is stmt for y in ast.walk(x)):
            return x
    return None


def _handler_outcomes(f: Func, stmts) -> Tuple[Set[str], bool]:
    """How a handler body can end: subset of {'raise', 'return', 'fall'} (fall = completes, control goes on behind the try), and
    whether it binds anything on the way.  Only straight-line code and if/else are read."""
    assigns = False
    out: Set[str] = set()
    for st in stmts:
        if isinstance(st, ast.Raise):
            return out | {'raise'}, assigns
        if isinstance(st, ast.Return):
            return out | {'return'}, assigns
        if isinstance(st, (ast.Pass, ast.Expr)):
            continue
        if isinstance(st, (ast.Assign, ast.AugAssign, ast.AnnAssign)):
            assigns = True
            continue
        if isinstance(st, ast.If):
            o1, a1 = _handler_outcomes(f, st.body)
            o2, a2 = _handler_outcomes(f, st.orelse) if st.orelse else ({'fall'}, False)
            assigns = assigns or a1 or a2
            both = o1 | o2
            out |= both - {'fall'}
            if 'fall' not in both:
                return out, assigns
            continue
        raise UnknownIdiom('%s: statement `%s` in the handler of the jar store' % (f.qual, short(st, 60)))
    return out | {'fall'}, assigns


def r17_cookie_store_failure(run):
    """One Set-Cookie line per cookie written.  The jar store ``<jar>[name] = value`` is where http.cookies validates the
    cookie NAME (BaseCookie raises CookieError for an illegal or reserved key; the code documents it by catching it).  When
    that store fails the cookie is not in the jar, so the call must not complete normally: from every handler that can
    receive an exception of the jar store, every path leaves the function by raising (or passes a jar store again).
    W (auto-mutation seed sa-am02224): ``raise KeyError(str(e))`` -> ``pass``: set_cookie('bad name', 'v', secure=False,
    http_only=False) returns normally and no Set-Cookie line is emitted; with any attribute requested a KeyError surfaces
    only by accident from ``jar[name][attr]``."""
    p = run.project
    _require_stores(p)
    n = 0
    for cq, mname in ((RESPONSE, 'set_cookie'), (ASGI_RESPONSE, 'set_cookie'), (RESPONSE, 'unset_cookie'), (ASGI_RESPONSE, 'unset_cookie')):
        f = p.lookup_method(cq, mname)
        if f is None:
            raise AnchorError('%s.%s not found' % (cq, mname))
        if cq == ASGI_RESPONSE and f is p.lookup_method(RESPONSE, mname):
            continue
        cfg = cfg_of(f, p)
        run.use_cfg(cfg)
        _attrs, values = _morsel_stores(p, f, cfg, 'name')
        if not values:
            raise AnchorError('%s: the cookie value is never stored' % f.qual)
        vids = [nd.id for (nd, _v, _s) in values]
        parent = enclosing_map(f.node)
        for (nd, _v, stmt) in values:
            # handlers that can receive the store's failure.  The engine's CFG gives a subscript STORE no exceptional edge, so
            # the handlers are found syntactically (the store is in the body of their try) and their bodies are walked on the CFG.
            handlers = []
            cur, child = parent.get(id(stmt)), stmt
            while cur is not None and cur is not f.node:
                if isinstance(cur, ast.Try) and any(child is x for x in cur.body):
                    for h in cur.handlers:
                        types = [] if h.type is None else (list(h.type.elts) if isinstance(h.type, ast.Tuple) else [h.type])
                        quals = [p.resolve_expr(f.module, t, f) for t in types]
                        if any(q is None for q in quals):
                            raise UnknownIdiom('%s: exception class of `%s` not resolved' % (f.qual, short(h, 60)))
                        if h.type is None or any(q in JAR_STORE_FAILURES for q in quals):
                            handlers.append((h, cur))
                child, cur = cur, parent.get(id(cur))
            if not handlers:
                n += 1
                run.ok('%s: a failure of the jar store propagates (no handler for it around the store)' % f.name, f.loc(stmt), stmt)
                continue
            for (h, tr) in handlers:
                n += 1
                outcomes, assigns = _handler_outcomes(f, h.body)
                rw = "resp.%s('bad name', ...%s) returns normally and no Set-Cookie line is emitted for it" % (
                    f.name, ', secure=False, http_only=False' if f.name == 'set_cookie' else '')
                what = ('%s: when the jar store fails (illegal or reserved cookie name) the call does not complete normally: '
                        'every path from the handler raises' % f.name)
                if 'return' in outcomes:
                    run.fail(what, f, h, where=f.loc(h), witness=['the handler returns'], runtime_witness=rw)
                    continue
                if 'fall' not in outcomes:
                    run.ok(what, f.loc(h), h)
                    continue
                # the handler can complete: control continues behind the try statement, with the cookie missing from the jar
                if assigns:
                    raise UnknownIdiom('%s: the handler `%s` records something and goes on; what follows is not related to it' % (f.qual, short(h, 60)))
                if tr.orelse or tr.finalbody or tr.body[-1] is not stmt_of_try_body(tr, stmt):
                    raise UnknownIdiom('%s: continuation of the try statement around the jar store' % f.qual)
                cont = [y for (y, l) in cfg.succ[nd.id] if l != 'exc']
                path = flow.find_path(cfg, cont, [cfg.exit], avoid_nodes=vids, edge_filter=flow.no_exc)
                run.check(path is None, what, f, h, where=f.loc(h),
                          witness=(['the handler completes; then:'] + flow.describe_path(cfg, path)) if path else None, runtime_witness=rw)
    if n == 0:
        raise AnchorError('no jar store found in set_cookie/unset_cookie')


def check(run):
    run.assume('receivers: `self` inside Response classes, parameters annotated Response, and the conventional name `resp` denote a response (A.6)')
    run.assume('http.cookies.Morsel semantics are library behaviour: keys are the RFC 6265 attribute names, OutputString() renders one cookie')
    run.assume('falcon/cyutil/misc.pyx (encode_items_to_latin1) is not analysed; the pure-Python twin is')
    run.rule('R1', r1_lower_keys, 'every key of a response header dict is lower-case', floor=25)
    run.rule('R2', r2_set_cookie_guard, 'Set-Cookie never enters/leaves through the plain header dict', floor=38)
    run.rule('R3', r3_emitters, 'three stores, two emitters; every stored line is emitted (no filter over the appended raw lines)', floor=20)
    run.rule('R4', r4_cookie_attributes, 'cookie parameter -> attribute wiring (value flow and control: a local rebound under a test of another parameter '
             'carries that parameter; reject guards excepted) and presence guards; Domain / Path carry the parameter itself in set_cookie and '
             'unset_cookie alike (provenance), written for the same cells of the parameter', floor=32)
    from . import c09 as _c09

    run.rule('R13', _c09.localtime_sweep, 'cookie expiry and date headers are formatted as UTC, never through the process-local zone (shared with C09 R4)', floor=1)
    run.rule('R5', r5_uri_helpers, 'URI-bearing helpers are percent-encoded', floor=9)
    run.rule('R6', r6_property_factory, 'header property factory: one key, None deletes, transform applied', floor=20)
    run.rule('R14', r14_jar_only_grows, 'the cookie jar only grows: no entry removed, jar rebound only from None to a fresh jar', floor=3)
    run.rule('R12', r12_append_presence, 'presence is decided by the key, not by the truth of the stored value: the append/join decision and every '
             'reader of the header dict (get_header, delete_header, the property getter)', floor=4)
    run.rule('R10', r10_ascii_fallback, 'the ASCII fallback of a download filename is ASCII', floor=2)
    run.rule('R9', r9_single_pass, 'set_headers consumes its iterable argument in a single pass', floor=1)
    # the URI-bearing helpers (Location, Content-Location, Link) go through the
    # "check escaped" encoder: its already-escaped heuristic and escape shape
    # are necessary for "decoding returns the original" (shared with C10)
    from . import c10 as _c10

    run.rule('R11', _c10._safe(_c10.r1_alphabets), 'allowed alphabets and pass-through guard of the encoders behind the URI-bearing helpers (shared with C10 R1)', floor=14)
    run.rule('R7', _c10._safe(_c10.r5_check_escaped), 'check-escaped encoder behind the URI-bearing helpers (shared with C10 R5)', floor=8)
    run.rule('R8', _c10._safe(_c10.r2_escape_shape), 'escape shape and decoder table behind the URI-bearing helpers (shared with C10 R2)', floor=10)
    run.rule('R15', r15_disposition_text, 'the download name rendered in Content-Disposition is the assigned value itself, not a narrowed copy', floor=2)
    # tabled normalisation of the plain-header writers (set_header, append_header, set_headers; the property factory's str() is R6):
    # whatever the caller passed goes through str() before it reaches the header store, so that a header reads back as the str
    # the map model holds and the header list handed to the server contains str values only (the rule is C05's R12, shared)
    from . import c05 as _c05

    run.rule('R16', _c05.r12_native_header_values, 'every plain-header writer stores str(value): set_header, append_header and set_headers agree '
                                                   '(shared with C05 R12)', floor=4)
    run.rule('R17', r17_cookie_store_failure, 'a failed jar store (illegal cookie name) is never swallowed: every path from its handler raises', floor=2)
    run.rule('R18', _c09.r4_writer_reader, 'the typed ETag property leaves a ready entity-tag (strong or weak) unchanged: the quote-wrapping branch '
                                           'tests the LAST character (shared with C09 R4)', floor=6)
