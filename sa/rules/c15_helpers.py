"""Helpers for C15 (response headers and cookies): reaching definitions,
inventory of the keyed accesses to a response's header dict, small CFG
queries."""

from __future__ import annotations

import ast
from typing import Dict, FrozenSet, Iterator, List, Optional, Set, Tuple

from .. import flow
from ..cfg import CFG, cfg_of
from ..model import (UNKNOWN, AnchorError, Func, Project, UnknownIdiom, attr_chain, func_owner_class, local_names, short,
                     walk_no_nested)
from .c13_helpers import Defs, resolve_alias
from .common import implied, strip_await, walk_self

RESPONSE = 'falcon.response.Response'
ASGI_RESPONSE = 'falcon.asgi.response.Response'


# ---------------------------------------------------------------------------
# reaching definitions (may)
# ---------------------------------------------------------------------------

class Def:
    __slots__ = ('name', 'kind', 'value', 'node', 'idx')

    def __init__(self, name, kind, value, node, idx):
        self.name = name
        self.kind = kind      # param assign unpack aug iter with except
        self.value = value    # defining expression (assign) / iterated expr / None
        self.node = node      # cfg node id (None for params)
        self.idx = idx

    def __repr__(self):
        return '<def %s %s %s>' % (self.name, self.kind, short(self.value, 40) if self.value is not None else '')


class ReachingDefs:
    def __init__(self, cfg: CFG, func: Func):
        self.cfg = cfg
        self.func = func
        self.defs: List[Def] = []
        self.gen: Dict[int, List[int]] = {}
        for name in func.params():
            self._new(name, 'param', None, None)
        init = frozenset(range(len(self.defs)))
        for n in cfg.live_nodes():
            g: List[int] = []
            if n.kind == 'stmt':
                a = n.ast
                if isinstance(a, ast.Assign):
                    for t in a.targets:
                        self._target(t, a.value, n.id, g)
                elif isinstance(a, ast.AnnAssign) and a.value is not None:
                    self._target(a.target, a.value, n.id, g)
                elif isinstance(a, ast.AugAssign) and isinstance(a.target, ast.Name):
                    g.append(self._new(a.target.id, 'aug', a, n.id))
                elif isinstance(a, (ast.Import, ast.ImportFrom)):
                    for al in a.names:
                        g.append(self._new((al.asname or al.name).split('.')[0], 'import', None, n.id))
            elif n.kind == 'iter':
                for x in ast.walk(n.stmt.target):
                    if isinstance(x, ast.Name):
                        g.append(self._new(x.id, 'iter', n.stmt.iter, n.id))
            elif n.kind == 'with':
                for it in n.stmt.items:
                    if it.optional_vars is not None:
                        for x in ast.walk(it.optional_vars):
                            if isinstance(x, ast.Name):
                                g.append(self._new(x.id, 'with', it.context_expr, n.id))
            elif n.kind == 'handler' and n.ast.name:
                g.append(self._new(n.ast.name, 'except', n.ast.type, n.id))
            if g:
                self.gen[n.id] = g
        by_name: Dict[str, Set[int]] = {}
        for d in self.defs:
            by_name.setdefault(d.name, set()).add(d.idx)
        self.by_name = by_name

        def transfer(node, facts, label):
            g = self.gen.get(node.id)
            if not g:
                return facts
            if node.kind == 'iter' and label != 'next':
                return facts
            if label == 'exc':
                return facts | frozenset(g)
            kill = set()
            for i in g:
                kill |= by_name[self.defs[i].name]
            return (facts - kill) | frozenset(g)

        self.IN = flow.forward(cfg, transfer, init, must=False)
        # ast node -> cfg node
        self.node_of: Dict[int, int] = {}
        for n in cfg.live_nodes():
            for x in n.walk():
                self.node_of.setdefault(id(x), n.id)

    def _new(self, name, kind, value, node) -> int:
        d = Def(name, kind, value, node, len(self.defs))
        self.defs.append(d)
        return d.idx

    def _target(self, t, value, nid, g):
        if isinstance(t, ast.Name):
            g.append(self._new(t.id, 'assign', value, nid))
        elif isinstance(t, (ast.Tuple, ast.List)):
            for e in t.elts:
                for x in ast.walk(e):
                    if isinstance(x, ast.Name):
                        g.append(self._new(x.id, 'unpack', value, nid))

    def at(self, nid: int, name: str) -> List[Def]:
        return [self.defs[i] for i in sorted(self.IN.get(nid, frozenset())) if self.defs[i].name == name]

    def cfg_node(self, astnode) -> Optional[int]:
        return self.node_of.get(id(astnode))


_RD_CACHE: Dict[Tuple[int, int], ReachingDefs] = {}


def reaching(p: Project, f: Func) -> ReachingDefs:
    key = (id(p), id(f.node))
    if key not in _RD_CACHE:
        _RD_CACHE[key] = ReachingDefs(cfg_of(f, p), f)
    return _RD_CACHE[key]


# ---------------------------------------------------------------------------
# response-typed receivers and the header dict
# ---------------------------------------------------------------------------

def is_response_class(p: Project, q: Optional[str]) -> bool:
    return bool(q) and p.is_subclass(q, RESPONSE) is True


def response_receiver(p: Project, f: Func, e) -> Optional[bool]:
    """True: `e` denotes a Response; False: it denotes something else;
    None: unknown."""
    if not isinstance(e, ast.Name):
        return None
    g = f
    while g is not None:
        for a in g.node.args.posonlyargs + g.node.args.args + g.node.args.kwonlyargs:
            if a.arg == e.id:
                if a.annotation is not None:
                    ann = a.annotation
                    if isinstance(ann, ast.Constant) and isinstance(ann.value, str):
                        try:
                            ann = ast.parse(ann.value, mode='eval').body
                        except SyntaxError:
                            ann = None
                    q = resolve_alias(p, g.module, ann, None) if ann is not None else None
                    if q and q in p.classes:
                        return is_response_class(p, q)
                if e.id in ('self', 'cls') and g.cls is not None:
                    return is_response_class(p, g.cls.qual)
                if e.id == 'resp':
                    return True   # A.6: the framework's conventional parameter name
                return None
        g = g.parent
    if e.id == 'resp':
        return True
    # a local bound only to a fresh instance: `<ResponseClass>(...)`, or `self.<attr>(...)` where the class declares
    # `<attr>: Type[<ResponseClass>]` (App._response_type) - whatever the local is called
    ds = Defs(f).defs.get(e.id, [])
    if ds and all(d[0] == 'assign' and isinstance(strip_await(d[1]), ast.Call) for d in ds):
        verdicts = []
        for d in ds:
            fn = strip_await(d[1]).func
            q = resolve_alias(p, f.module, fn, f)
            if q and q in p.classes:
                verdicts.append(is_response_class(p, q))
                continue
            own = func_owner_class(f)
            v = None
            if own is not None and isinstance(fn, ast.Attribute) and isinstance(fn.value, ast.Name) and fn.value.id == 'self':
                for cq in p.mro(own.qual):
                    c = p.classes.get(cq)
                    for st in (c.node.body if c is not None else []):
                        if isinstance(st, ast.AnnAssign) and isinstance(st.target, ast.Name) and st.target.id == fn.attr:
                            ann = st.annotation
                            if isinstance(ann, ast.Subscript) and isinstance(ann.value, (ast.Name, ast.Attribute)) \
                                    and (getattr(ann.value, 'id', None) or getattr(ann.value, 'attr', None)) in ('Type', 'type'):
                                qq = resolve_alias(p, c.module, ann.slice, None)
                                if qq and qq in p.classes:
                                    v = is_response_class(p, qq)
                    if v is not None:
                        break
            verdicts.append(v)
        if verdicts and all(v is True for v in verdicts):
            return True
        if verdicts and all(v is False for v in verdicts):
            return False
    return None


class Site:
    """One keyed access to a response's `_headers` dict."""

    def __init__(self, func: Func, node, kind: str, key, via: str):
        self.func = func
        self.node = node      # Subscript / Call / Compare
        self.kind = kind      # load store del contains get pop setdefault
        self.key = key
        self.via = via        # 'attr' or alias name

    def __repr__(self):
        return '<site %s %s %s>' % (self.func.qual, self.kind, short(self.node, 60))


KEYED_METHODS = {'get': 'get', 'pop': 'pop', 'setdefault': 'setdefault', '__getitem__': 'load', '__setitem__': 'store',
                 '__delitem__': 'del', '__contains__': 'contains'}
UNKEYED_METHODS = {'copy', 'items', 'keys', 'values'}


def store_exprs(p: Project, f: Func, attr: str):
    """(predicate on expressions denoting `<response>.<attr>`, alias names)."""
    defs = Defs(f)

    def is_attr(e) -> bool:
        return isinstance(e, ast.Attribute) and e.attr == attr and response_receiver(p, f, e.value) is True

    # `jar = self._cookies = SimpleCookie()`: a chained assignment that also targets the attribute binds the local to it
    chained = set()
    for n in walk_no_nested(f.node):
        if isinstance(n, ast.Assign) and len(n.targets) > 1 and any(is_attr(t) for t in n.targets):
            chained |= {id(t) for t in n.targets if isinstance(t, ast.Name)}
    aliases = set()
    for name, ds in defs.defs.items():
        if name in defs.params:
            continue
        if ds and all(d[0] == 'assign' and (is_attr(strip_await(d[1])) or id(d[-1]) in chained) for d in ds):
            aliases.add(name)

    def denotes(e) -> bool:
        return is_attr(e) or (isinstance(e, ast.Name) and e.id in aliases)

    return denotes, aliases


def header_sites(p: Project, scope_prefixes=('falcon.',), exclude=('falcon.bench', 'falcon.cmd', 'falcon.testing')) -> List[Site]:
    out: List[Site] = []
    for q, f in sorted(p.funcs.items()):
        if not any(q.startswith(s) for s in scope_prefixes) or any(q.startswith(x) for x in exclude):
            continue
        if not any(isinstance(n, ast.Attribute) and n.attr == '_headers' for n in walk_no_nested(f.node)):
            continue
        # sites of another class's `_headers` (multipart BodyPart, ...) are not ours
        recvs = [response_receiver(p, f, n.value) for n in walk_no_nested(f.node)
                 if isinstance(n, ast.Attribute) and n.attr == '_headers']
        if all(r is False for r in recvs):
            continue
        if any(r is None for r in recvs):
            raise UnknownIdiom('%s: receiver of `._headers` is neither a Response nor a known other class' % q)
        denotes, aliases = store_exprs(p, f, '_headers')
        for n in walk_no_nested(f.node):
            if isinstance(n, ast.Subscript) and denotes(n.value):
                kind = {ast.Load: 'load', ast.Store: 'store', ast.Del: 'del'}[type(n.ctx)]
                out.append(Site(f, n, kind, n.slice, 'attr' if isinstance(n.value, ast.Attribute) else n.value.id))
            elif isinstance(n, ast.Call) and isinstance(n.func, ast.Attribute) and denotes(n.func.value):
                m = n.func.attr
                if m in KEYED_METHODS:
                    if not n.args:
                        raise UnknownIdiom('%s: %s without a positional key' % (q, short(n)))
                    out.append(Site(f, n, KEYED_METHODS[m], n.args[0], 'attr' if isinstance(n.func.value, ast.Attribute) else n.func.value.id))
                elif m in UNKEYED_METHODS:
                    pass
                else:
                    raise UnknownIdiom('%s: header dict method .%s() is not modelled: %s' % (q, m, short(n)))
            elif isinstance(n, ast.Compare) and any(denotes(c) for c in n.comparators):
                if len(n.ops) == 1 and isinstance(n.ops[0], (ast.In, ast.NotIn)):
                    out.append(Site(f, n, 'contains', n.left, 'attr' if isinstance(n.comparators[0], ast.Attribute) else n.comparators[0].id))
                else:
                    raise UnknownIdiom('%s: comparison on the header dict: %s' % (q, short(n)))
            elif isinstance(n, (ast.Assign, ast.AnnAssign)):
                tg = n.targets if isinstance(n, ast.Assign) else [n.target]
                for t in tg:
                    if isinstance(t, ast.Attribute) and t.attr == '_headers' and response_receiver(p, f, t.value) is True:
                        v = n.value
                        if isinstance(v, ast.Dict) and all(k is not None for k in v.keys):
                            for k in v.keys:
                                out.append(Site(f, n, 'store', k, 'attr'))
                        else:
                            raise UnknownIdiom('%s: the header dict is replaced by %s' % (q, short(v)))
    return out


# ---------------------------------------------------------------------------
# case of a key
# ---------------------------------------------------------------------------

def is_lower_call(e) -> bool:
    e = strip_await(e)
    return (isinstance(e, ast.Call) and isinstance(e.func, ast.Attribute) and e.func.attr == 'lower'
            and not e.args and not e.keywords)


def key_case(p: Project, site_func: Func, key, at_node: Optional[int] = None, _seen=None) -> Tuple[str, str]:
    """('lower'|'raw'|'unknown', reason) for a key expression evaluated in
    `site_func` (at cfg node `at_node` when it is a local)."""
    _seen = _seen or set()
    key = strip_await(key)
    v = p.fold(site_func.module, key, None, site_func)
    if isinstance(v, str):
        return ('lower', 'literal %r' % v) if v == v.lower() else ('raw', 'literal %r is not lower-case' % v)
    if is_lower_call(key):
        return ('lower', '.lower() result')
    if isinstance(key, ast.Name):
        name = key.id
        if name in local_names(site_func):
            rd = reaching(p, site_func)
            nid = at_node
            if nid is None:
                return ('unknown', 'no CFG node for the use of %s' % name)
            ds = rd.at(nid, name)
            if not ds:
                return ('unknown', 'no definition of %s reaches the access' % name)
            worst = ('lower', 'every reaching definition of %s is a .lower() result' % name)
            for d in ds:
                r = _def_case(p, site_func, d, _seen)
                if r[0] == 'raw':
                    return r
                if r[0] == 'unknown':
                    worst = r
            return worst
        # free variable of a closure: flow-insensitive over the defining scope
        g = site_func.parent
        while g is not None:
            if name in local_names(g):
                ds = Defs(g)
                cases = []
                if name in ds.params:
                    cases.append(('raw', 'closure variable %s is a parameter of %s' % (name, g.qual)))
                for d in ds.defs.get(name, []):
                    if d[0] == 'assign':
                        cases.append(_value_case(p, g, d[1], None, _seen, name))
                    else:
                        cases.append(('raw', 'closure variable %s bound by %s' % (name, d[0])))
                if not cases:
                    return ('unknown', 'closure variable %s has no definition' % name)
                for c in cases:
                    if c[0] != 'lower':
                        return c
                return ('lower', 'closure variable %s is only ever bound to .lower() results in %s' % (name, g.qual))
            g = g.parent
        return ('unknown', 'name %s is not a local, closure variable or constant' % name)
    return ('unknown', 'key expression %s' % short(key, 60))


def _value_case(p, f, value, at_node, seen, name):
    value = strip_await(value)
    if is_lower_call(value):
        return ('lower', '%s = %s' % (name, short(value, 50)))
    v = p.fold(f.module, value, None, f)
    if isinstance(v, str):
        return ('lower', 'literal') if v == v.lower() else ('raw', '%s = %r is not lower-case' % (name, v))
    if isinstance(value, ast.Call):
        g = key_helper(p, f, value)
        if g is not None and ('helper', g.qual) not in seen:
            # a module-level helper handed the name: its result is what its returns are
            worst = ('lower', '%s = %s: every return of %s is lower-case' % (name, short(value, 40), g.name))
            inner = {x for x in seen if isinstance(x, tuple) and x[0] == 'helper'} | {('helper', g.qual)}   # def indices are per function
            for (rn, rv) in helper_returns(p, g):
                r = key_case(p, g, rv, rn, inner)
                if r[0] == 'raw':
                    return ('raw', '%s = %s: %s' % (name, short(value, 40), r[1]))
                if r[0] == 'unknown':
                    worst = r
            return worst
    if isinstance(value, ast.Name):
        if at_node is None and value.id in local_names(f):
            # flow-insensitive (closure variables): every binding must be lower
            ds = Defs(f)
            if value.id in ds.params:
                return ('raw', '%s = %s, a parameter of %s' % (name, value.id, f.qual))
            cases = [(_value_case(p, f, d[1], None, seen | {('fi', value.id)}, value.id) if d[0] == 'assign' and ('fi', value.id) not in seen
                      else ('raw', '%s bound by %s' % (value.id, d[0]))) for d in ds.defs.get(value.id, [])]
            for c in cases:
                if c[0] != 'lower':
                    return c
            return ('lower', '%s = %s' % (name, value.id)) if cases else ('unknown', 'no binding of %s' % value.id)
        return key_case(p, f, value, at_node, seen)
    return ('unknown', '%s = %s' % (name, short(value, 60)))


def key_helper(p: Project, f: Func, call) -> Optional[Func]:
    """The synchronous helper of the analysed package that `call` invokes with plain positional/keyword arguments - a
    module-level function, or a method of the caller's own class family reached through self/cls (plain, static or class
    method) - i.e. the shapes a "normalise / vet this header name" helper has; None for anything else."""
    call = strip_await(call)
    if not isinstance(call, ast.Call) or any(isinstance(a, ast.Starred) for a in call.args) or any(k.arg is None for k in call.keywords):
        return None
    g = p.callee(f, call)
    if not isinstance(g, Func) or g.parent is not None or g.is_async:
        return None
    if g.cls is not None:
        own = func_owner_class(f)
        if own is None or not (own.qual == g.cls.qual or p.is_subclass(own.qual, g.cls.qual) is True):
            return None
        if not (isinstance(call.func, ast.Attribute) and isinstance(call.func.value, ast.Name) and call.func.value.id in ('self', 'cls')):
            return None
        if any(d not in ('staticmethod', 'classmethod') for d in g.decorators):
            return None
    elif g.decorators:
        return None
    if g.node.args.vararg or g.node.args.kwarg:
        return None
    if any(isinstance(n, (ast.Yield, ast.YieldFrom)) for n in walk_no_nested(g.node)):
        return None
    return g


def bound_args(g: Func, call: ast.Call) -> Dict[str, ast.AST]:
    """parameter of the helper `g` -> argument expression of `call` (a call accepted by key_helper)."""
    a = g.node.args
    pos = [x.arg for x in a.posonlyargs + a.args]
    if g.cls is not None and 'staticmethod' not in g.decorators and pos:
        pos = pos[1:]          # self / cls is bound by the receiver
    out: Dict[str, ast.AST] = {}
    for i, x in enumerate(call.args):
        if i < len(pos):
            out[pos[i]] = x
    for k in call.keywords:
        if k.arg is not None:
            out[k.arg] = k.value
    return out


def helper_returns(p: Project, g: Func) -> List[Tuple[int, ast.AST]]:
    """[(cfg node, returned expression)] of a helper; falling off the end / a bare return (the result would be None)
    is not a shape of a value-returning helper: UnknownIdiom."""
    cfg = cfg_of(g, p)
    out = []
    for n in cfg.live_nodes():
        if n.kind == 'stmt' and isinstance(n.ast, ast.Return):
            if n.ast.value is None:
                raise UnknownIdiom('%s: bare return in a helper whose result is used as a header name' % g.qual)
            out.append((n.id, n.ast.value))
    live = {n.id for n in cfg.live_nodes()}
    for (x, l) in cfg.pred[cfg.exit]:
        if x in live and l != 'ret':
            raise UnknownIdiom('%s: a path falls off the end of a helper whose result is used as a header name' % g.qual)
    if not out:
        raise UnknownIdiom('%s: helper has no return' % g.qual)
    return out


def _def_case(p, f, d: Def, seen):
    if d.idx in seen:
        return ('lower', 'cycle')
    seen = seen | {d.idx}
    if d.kind == 'param':
        return ('raw', 'parameter %s reaches the access without .lower()' % d.name)
    if d.kind in ('iter', 'unpack', 'with', 'except', 'import'):
        return ('raw', '%s bound by %s reaches the access without .lower()' % (d.name, d.kind))
    if d.kind == 'aug':
        return ('unknown', 'augmented assignment to %s' % d.name)
    return _value_case(p, f, d.value, d.node, seen, d.name)


# ---------------------------------------------------------------------------
# guards
# ---------------------------------------------------------------------------

def controlling_edges(cfg: CFG, nid: int) -> List[Tuple[int, int, str]]:
    """T/F edges of tests that dominate `nid`."""
    out = []
    for t in cfg.live_nodes():
        if t.kind != 'test' or t.id == nid:
            continue
        for (y, l) in cfg.succ[t.id]:
            if l in ('T', 'F') and flow.dominated_by_edge(cfg, nid, (t.id, y, l)):
                out.append((t.id, y, l))
    return out


def raises_only(cfg: CFG, start: int) -> bool:
    """No normal continuation from `start`: every non-exceptional path ends
    in a raise statement."""
    seen = flow.reachable(cfg, [start], edge_filter=flow.no_exc)
    if cfg.exit in seen:
        return False
    ends = [cfg.node(i) for i in seen if not any(l != 'exc' for (_y, l) in cfg.succ[i])]
    return bool(ends) and all(n.kind == 'stmt' and isinstance(n.ast, ast.Raise) for n in ends)


# ---------------------------------------------------------------------------
# provenance of a text value relative to one parameter (C15 R15, C16 R8)
# ---------------------------------------------------------------------------

_PATHMODS = ('os.path', 'posixpath', 'ntpath')

# callee -> one line of reason.  Frozen look-alike tables: str -> str functions
# that look like "tidying" but are NOT the identity on every str.
IDENTITY_CALLS = {
    'os.fspath': 'identity on str (a PathLike yields its own path text)',
    'builtins.str': 'identity on str',
}
NARROWING_CALLS = {
    'unicodedata.normalize': 'maps canonically equivalent but different code point sequences to one text',
    'falcon.util.misc.secure_filename': 'lossy ASCII transliteration',
    'os.fsencode': 'changes the type (and, with surrogateescape, the text)',
    'os.fsdecode': 'identity only on str; listed with fsencode',
}
for _m in _PATHMODS:
    NARROWING_CALLS.update({
        _m + '.basename': 'drops everything up to the last separator',
        _m + '.dirname': 'drops the last component',
        _m + '.normpath': 'collapses separators and dot segments',
        _m + '.abspath': 'prepends the working directory and normalises',
        _m + '.realpath': 'resolves links and normalises',
        _m + '.relpath': 're-expresses the path relative to another directory',
        _m + '.expanduser': 'rewrites a leading ~',
        _m + '.expandvars': 'substitutes $NAME',
        _m + '.split': 'splits at the last separator',
        _m + '.splitext': 'splits off the extension',
        _m + '.splitdrive': 'splits off the drive',
        _m + '.join': 'prepends / replaces components',
        _m + '.normcase': 'case-folds and swaps separators on Windows',
    })
# last-segment idioms spelled with a splitting function / a path object (the item kept afterwards is a Subscript / an
# attribute, judged on top of these)
NARROWING_CALLS.update({
    're.split': 'splits the text at every match: each item is only a piece of it',
    're.findall': 'keeps only the matching pieces',
    're.search': 'keeps only a matching piece', 're.match': 'keeps only a matching piece', 're.fullmatch': 'keeps only a matching piece',
})
PATH_CLASSES = ('pathlib.PurePath', 'pathlib.PurePosixPath', 'pathlib.PureWindowsPath', 'pathlib.Path', 'pathlib.PosixPath', 'pathlib.WindowsPath')
for _c in PATH_CLASSES:
    NARROWING_CALLS[_c] = 'parses the text into path components (collapses separators and dot segments)'
# attributes / methods of a path object built from the text: every one of them keeps a part or a normalised form
PATH_NARROWING_ATTRS = {'name': 'keeps only the last component', 'stem': 'keeps only the last component without its suffix',
                        'suffix': 'keeps only the extension', 'suffixes': 'keeps only the extensions', 'parent': 'drops the last component',
                        'parts': 'the components, separators dropped', 'anchor': 'keeps only drive and root', 'drive': 'keeps only the drive',
                        'root': 'keeps only the root'}
PATH_NARROWING_METHODS = {'as_posix': 'normalised form with forward slashes', 'with_name': 'replaces the last component',
                          'with_suffix': 'replaces the extension', 'with_stem': 'replaces the stem', 'relative_to': 're-expresses the path',
                          'resolve': 'resolves links and normalises', 'absolute': 'prepends the working directory',
                          'expanduser': 'rewrites a leading ~', '__str__': 'normalised form', '__fspath__': 'normalised form'}
# methods of a compiled pattern (module constant bound to re.compile(...)) applied to the text
PATTERN_METHODS = {'split': ('narrow', 'splits the text at every match: each item is only a piece of it'),
                   'findall': ('narrow', 'keeps only the matching pieces'), 'search': ('narrow', 'keeps only a matching piece'),
                   'match': ('narrow', 'keeps only a matching piece'), 'fullmatch': ('narrow', 'keeps only a matching piece'),
                   'sub': ('rewrite', 'substitution'), 'subn': ('rewrite', 'substitution')}
REWRITING_CALLS = {
    're.sub': 'substitution', 're.subn': 'substitution', 'html.escape': 'escaping', 'html.unescape': 'unescaping',
    'urllib.parse.quote': 'percent-encoding', 'urllib.parse.quote_plus': 'percent-encoding',
    'urllib.parse.unquote': 'percent-decoding', 'urllib.parse.unquote_plus': 'percent-decoding',
    'falcon.util.uri.encode': 'percent-encoding', 'falcon.util.uri.encode_value': 'percent-encoding',
    'falcon.util.uri.encode_check_escaped': 'percent-encoding', 'falcon.util.uri.encode_value_check_escaped': 'percent-encoding',
    'falcon.util.uri.decode': 'percent-decoding',
}
NARROWING_METHODS = {'strip', 'lstrip', 'rstrip', 'split', 'rsplit', 'partition', 'rpartition', 'splitlines', 'lower', 'upper',
                     'casefold', 'title', 'capitalize', 'swapcase', 'removeprefix', 'removesuffix'}
# methods of a str whose result is not text (what is done with a position is judged where the text is sliced)
QUERY_METHODS = {'find', 'rfind', 'index', 'rindex', 'count', 'startswith', 'endswith', 'isdigit', 'isdecimal', 'isnumeric', 'isalpha',
                 'isalnum', 'isascii', 'isspace', 'isupper', 'islower', 'istitle', 'isidentifier', 'isprintable'}
REWRITING_METHODS = {'replace', 'translate', 'encode', 'decode', 'format', 'join', 'expandtabs', 'zfill', 'ljust', 'rjust', 'center'}
# classes no str is an instance of (an isinstance-true edge leaves the str domain)
DISJOINT_FROM_STR = {'os.PathLike', 'pathlib.Path', 'pathlib.PurePath', 'pathlib.PurePosixPath', 'pathlib.PosixPath',
                     'pathlib.PureWindowsPath', 'pathlib.WindowsPath', 'builtins.bytes', 'builtins.bytearray', 'builtins.memoryview'}
_TYPEISH = {'builtins.isinstance', 'builtins.type', 'builtins.hasattr', 'builtins.issubclass', 'builtins.callable', 'builtins.getattr'}


SPLIT_METHODS = ('partition', 'rpartition', 'split', 'rsplit')


def is_split_call(e) -> bool:
    """`<x>.partition(...)` / rpartition / split / rsplit: every item of the result is a contiguous piece of x."""
    return isinstance(e, ast.Call) and isinstance(e.func, ast.Attribute) and e.func.attr in SPLIT_METHODS


class Origin:
    """What a text expression is relative to the tracked parameter:
    derived (built from it at all) and the list of value-changing steps
    (kind 'narrow' | 'rewrite', ast node, reason) on the way."""

    __slots__ = ('derived', 'xforms')

    def __init__(self, derived=False, xforms=None):
        self.derived = derived
        self.xforms = list(xforms or [])

    def merge(self, other: 'Origin') -> 'Origin':
        seen = {id(x[1]) for x in self.xforms}
        return Origin(self.derived or other.derived, self.xforms + [x for x in other.xforms if id(x[1]) not in seen])

    def step(self, kind, node, reason) -> 'Origin':
        return Origin(True, [(kind, node, reason)] + self.xforms)

    @property
    def identical(self) -> bool:
        return self.derived and not self.xforms

    def kinds(self) -> Set[str]:
        return {x[0] for x in self.xforms}

    def describe(self) -> List[str]:
        return ['%s: %s (%s)' % (k, short(n, 90), why) for (k, n, why) in self.xforms]


class Provenance:
    """Is the text of an expression the function's parameter ITSELF (for every
    str argument), the parameter after a value-changing step, or unrelated?

    Reads: copies through locals (may-reaching definitions over the CFG),
    the identity calls of IDENTITY_CALLS, `x[:]`, conditional expressions,
    one level of same-package helper (its returns relative to its parameter).
    Definitions and branches that only execute for a non-str argument
    (`isinstance(v, str)` false / `isinstance(v, os.PathLike)` true /
    `hasattr(v, '__fspath__')` true) are outside the str domain and skipped.
    Everything else that touches the tracked value is UnknownIdiom."""

    def __init__(self, p: Project, f: Func, param: Optional[str], depth: int = 0, root_local: Optional[str] = None,
                 unpack_pieces: bool = False):
        """Track the parameter `param`, or (root_local) every read of that local
        as it stands, whatever defined it.  unpack_pieces: read
        `a, _, b = <text>.partition(sep)` (rpartition/split/rsplit) - each target
        is then the split result (a 'narrow' step whose node is the call);
        without it such a binding is UnknownIdiom, as before."""
        self.p, self.f, self.param, self.depth, self.root_local = p, f, param, depth, root_local
        self.unpack_pieces = unpack_pieces
        if (param is None) == (root_local is None):
            raise ValueError('exactly one of param / root_local')
        if param is not None and param not in f.params():
            raise AnchorError('%s has no parameter %s' % (f.qual, param))
        self.rd = reaching(p, f)
        self.cfg = self.rd.cfg
        self._memo: Dict[int, Origin] = {}
        self._active: Set[int] = set()
        for n in ast.walk(f.node):
            if isinstance(n, ast.NamedExpr):
                raise UnknownIdiom('%s: assignment expression %s (definitions are read from statements only)' % (f.qual, short(n)))
            if isinstance(n, (ast.Global, ast.Nonlocal)):
                raise UnknownIdiom('%s: global/nonlocal declaration' % f.qual)
            if isinstance(n, ast.Delete) and any(isinstance(t, ast.Name) for t in n.targets):
                raise UnknownIdiom('%s: del of a local' % f.qual)

    # ---- resolution
    def _q(self, fexpr) -> Optional[str]:
        return resolve_alias(self.p, self.f.module, fexpr, self.f)

    # ---- type dispatch
    def _nonstr_atom(self, nid: int):
        """atom(e) -> True when e being TRUE means the tracked parameter is not a str."""
        def is_root(x):
            return isinstance(x, ast.Name) and self._name(x.id, nid).identical

        def classes(e) -> Optional[List[Optional[str]]]:
            elts = e.elts if isinstance(e, ast.Tuple) else [e]
            return [self._q(x) for x in elts]

        def pos(e):   # e true => not str
            if isinstance(e, ast.Call) and not e.keywords and len(e.args) == 2 and is_root(e.args[0]):
                q = self._q(e.func)
                if q == 'builtins.isinstance':
                    cs = classes(e.args[1])
                    return all(c in DISJOINT_FROM_STR for c in cs)
                if q == 'builtins.hasattr' and isinstance(e.args[1], ast.Constant) and e.args[1].value == '__fspath__':
                    return True
            return False

        def neg(e):   # e false => not str
            if isinstance(e, ast.Call) and not e.keywords and len(e.args) == 2 and is_root(e.args[0]) and self._q(e.func) == 'builtins.isinstance':
                return 'builtins.str' in classes(e.args[1])
            return False
        return pos, neg

    def _edge_excludes_str(self, test, truth: bool, nid: int) -> bool:
        pos, neg = self._nonstr_atom(nid)
        return implied(test, truth, pos) is True or implied(test, truth, neg) is False

    def _typeish(self, test) -> bool:
        return any(isinstance(x, ast.Call) and self._q(x.func) in _TYPEISH for x in walk_self(test))

    def _def_outside_str(self, d: Def) -> Optional[bool]:
        """True: the definition only executes for a non-str argument; None: it
        sits under a type test the rule cannot read; False: ordinary."""
        unread = False
        for (t, y, l) in controlling_edges(self.cfg, d.node):
            test = self.cfg.node(t).ast
            if self._edge_excludes_str(test, l == 'T', t):
                return True
            if self._typeish(test):
                unread = True
        return None if unread else False

    # ---- classification
    def _name(self, name: str, nid: int) -> Origin:
        if self.root_local is not None and name == self.root_local:
            return Origin(True)
        out = Origin()
        for d in self.rd.at(nid, name):
            out = out.merge(self._def(d))
        return out

    def _def(self, d: Def) -> Origin:
        if d.kind == 'param':
            return Origin(self.param is not None and d.name == self.param)
        if d.idx in self._memo:
            return self._memo[d.idx]
        if d.idx in self._active:
            return Origin()          # a loop-carried definition: the acyclic part decides
        self._active.add(d.idx)
        try:
            if d.kind == 'assign':
                dom = self._def_outside_str(d)
                if dom is True:
                    r = Origin()
                else:
                    r = self.classify(d.value, d.node)
                    if dom is None and r.xforms:
                        raise UnknownIdiom('%s: %s = %s sits under a type test the rule cannot read' % (self.f.qual, d.name, short(d.value)))
            elif d.kind == 'aug':
                inner = self._name(d.name, d.node).merge(self.classify(d.value.value, d.node))
                r = inner.step('rewrite', d.value, 'augmented assignment') if inner.derived else Origin()
            elif d.kind == 'import':
                r = Origin()
            elif d.kind == 'unpack' and self.unpack_pieces and is_split_call(d.value):
                r = self.classify(d.value, d.node)
            elif d.kind == 'unpack' and self.unpack_pieces and self.unpacked_item(d) is not None:
                r = self.classify(self.unpacked_item(d), d.node)      # a, b = x, y
            else:
                src = self.classify_any(d.value, d.node) if d.value is not None else Origin()
                if src.derived:
                    raise UnknownIdiom('%s: %s is bound by %s from the tracked value' % (self.f.qual, d.name, d.kind))
                r = Origin()
        finally:
            self._active.discard(d.idx)
        self._memo[d.idx] = r
        return r

    def unpacked_item(self, d: Def):
        """`a, b = x, y` (two displays of the same length, nothing starred): the expression bound to d.name."""
        st = self.cfg.node(d.node).ast
        if not isinstance(st, ast.Assign) or not isinstance(st.value, (ast.Tuple, ast.List)):
            return None
        found = None
        for t in st.targets:
            if isinstance(t, (ast.Tuple, ast.List)) and len(t.elts) == len(st.value.elts) \
                    and not any(isinstance(x, ast.Starred) for x in list(t.elts) + list(st.value.elts)):
                for te, ve in zip(t.elts, st.value.elts):
                    if isinstance(te, ast.Name) and te.id == d.name:
                        if found is not None:
                            return None
                        found = ve
            elif any(isinstance(x, ast.Name) and x.id == d.name for x in ast.walk(t)):
                return None
        return found

    def classify_any(self, e, nid: int) -> Origin:
        """Does anything inside e derive from the parameter (no judgement of the shape)?"""
        out = Origin()
        for x in walk_self(e):
            if isinstance(x, ast.Name) and isinstance(x.ctx, ast.Load):
                out = out.merge(self._name(x.id, nid))
        return out

    def classify(self, e, nid: int) -> Origin:
        if isinstance(e, ast.Constant):
            return Origin()
        if isinstance(e, ast.Name):
            return self._name(e.id, nid)
        if isinstance(e, ast.IfExp):
            body_out = self._edge_excludes_str(e.test, True, nid)
            else_out = self._edge_excludes_str(e.test, False, nid)
            b = Origin() if body_out else self.classify(e.body, nid)
            o = Origin() if else_out else self.classify(e.orelse, nid)
            r = b.merge(o)
            if r.xforms and not (body_out or else_out) and self._typeish(e.test):
                raise UnknownIdiom('%s: %s dispatches on a type test the rule cannot read' % (self.f.qual, short(e)))
            return r
        if isinstance(e, ast.Subscript):
            base = self.classify(e.value, nid)
            if not base.derived:
                if self.classify_any(e.slice, nid).derived:
                    raise UnknownIdiom('%s: the tracked value is used as an index in %s' % (self.f.qual, short(e)))
                return Origin()
            s = e.slice
            if isinstance(s, ast.Slice) and s.lower is None and s.upper is None and s.step is None:
                return base
            return base.step('narrow', e, 'keeps only part of the text / of the split result')
        if isinstance(e, (ast.BinOp, ast.JoinedStr)):
            inner = self.classify_any(e, nid)
            return inner.step('rewrite', e, 'builds a new text around the value') if inner.derived else Origin()
        if isinstance(e, ast.BoolOp):
            # `a or b` / `a and b` evaluate to one of their operands: every operand may be the text (a falsy text
            # operand is '' - also what the identity would give).  Operands that are plain tests (comparison, not)
            # yield a bool, no text; they only choose.
            out = Origin()
            for x in e.values:
                if isinstance(x, ast.Compare) or (isinstance(x, ast.UnaryOp) and isinstance(x.op, ast.Not)):
                    continue
                out = out.merge(self.classify(x, nid))
            return out
        if isinstance(e, ast.Attribute) and isinstance(e.ctx, ast.Load) and self._q(e) is None:
            base = self.classify(e.value, nid)
            if not base.derived:
                return Origin()
            if self._is_path_object(e.value, nid) and e.attr in PATH_NARROWING_ATTRS:
                return base.step('narrow', e, 'PurePath.%s %s' % (e.attr, PATH_NARROWING_ATTRS[e.attr]))
            raise UnknownIdiom('%s: attribute %s of a value built from the tracked value is not in the tables' % (self.f.qual, short(e)))
        if isinstance(e, ast.Call):
            return self._call(e, nid)
        if isinstance(e, (ast.Tuple, ast.List)):
            inner = Origin()
            for x in e.elts:
                inner = inner.merge(self.classify(x, nid))
            if inner.derived:
                raise UnknownIdiom('%s: the tracked value is packed into %s' % (self.f.qual, short(e)))
            return Origin()
        if self.classify_any(e, nid).derived:
            raise UnknownIdiom('%s: cannot read how %s uses the tracked value' % (self.f.qual, short(e)))
        return Origin()

    def _is_path_object(self, e, nid: int, depth: int = 3) -> bool:
        """e is `PurePath(<...>)` (any pathlib class), `.parent` of one, or a local whose reaching definitions all are."""
        if isinstance(e, ast.Call) and self._q(e.func) in PATH_CLASSES:
            return True
        if isinstance(e, ast.Attribute) and e.attr == 'parent':
            return self._is_path_object(e.value, nid, depth)
        if isinstance(e, ast.Name) and depth > 0:
            ds = self.rd.at(nid, e.id)
            return bool(ds) and all(d.kind == 'assign' and self._is_path_object(d.value, d.node, depth - 1) for d in ds)
        return False

    def _compiled_pattern(self, e) -> bool:
        """e names a module-level constant bound to re.compile(...)."""
        q = self.p.resolve_expr(self.f.module, e, self.f) if isinstance(e, (ast.Name, ast.Attribute)) else None
        if not q:
            return False
        head, _, tail = q.rpartition('.')
        m = self.p.modules.get(head)
        v = m.consts.get(tail) if m is not None else None
        return isinstance(v, ast.Call) and self.p.resolve_expr(m, v.func) == 're.compile'

    def _call(self, c: ast.Call, nid: int) -> Origin:
        fn = c.func
        args = list(c.args) + [k.value for k in c.keywords]
        if any(isinstance(a, ast.Starred) for a in c.args) or any(k.arg is None for k in c.keywords):
            if self.classify_any(c, nid).derived:
                raise UnknownIdiom('%s: star-arguments in %s' % (self.f.qual, short(c)))
            return Origin()
        # method of a compiled pattern applied to the tracked text
        if isinstance(fn, ast.Attribute) and fn.attr in PATTERN_METHODS and self._compiled_pattern(fn.value):
            inner = Origin()
            for a in args:
                inner = inner.merge(self.classify(a, nid))
            if not inner.derived:
                return Origin()
            kind, why = PATTERN_METHODS[fn.attr]
            return inner.step(kind, c, 'Pattern.%s: %s' % (fn.attr, why))
        # method of the tracked text
        if isinstance(fn, ast.Attribute):
            recv = self.classify(fn.value, nid) if self._q(fn) is None else None
            if recv is not None and recv.derived and self._is_path_object(fn.value, nid):
                if fn.attr in PATH_NARROWING_METHODS:
                    return recv.step('narrow', c, 'PurePath.%s: %s' % (fn.attr, PATH_NARROWING_METHODS[fn.attr]))
                raise UnknownIdiom('%s: method %s of a path object built from the tracked value is not in the tables' % (self.f.qual, short(c)))
            if recv is not None and recv.derived:
                if fn.attr in QUERY_METHODS:
                    return Origin()       # a position / a count / a bool: not text
                if fn.attr in NARROWING_METHODS:
                    return recv.step('narrow', c, 'str.%s is not the identity' % fn.attr)
                if fn.attr in REWRITING_METHODS:
                    return recv.step('rewrite', c, 'str.%s rewrites the text' % fn.attr)
                raise UnknownIdiom('%s: method %s of the tracked value is not in the tables' % (self.f.qual, short(c)))
        q = self._q(fn)
        inner = Origin()
        for a in args:
            inner = inner.merge(self.classify(a, nid))
        if not inner.derived:
            return Origin()
        if q in IDENTITY_CALLS and len(c.args) == 1 and not c.keywords:
            return inner
        if q == 'typing.cast' and len(c.args) == 2 and not c.keywords:
            return self.classify(c.args[1], nid)
        if q in NARROWING_CALLS:
            return inner.step('narrow', c, NARROWING_CALLS[q])
        if q in REWRITING_CALLS:
            return inner.step('rewrite', c, REWRITING_CALLS[q])
        if q in ('builtins.str.strip', 'builtins.str.lower', 'builtins.str.upper', 'builtins.str.casefold'):
            return inner.step('narrow', c, '%s is not the identity' % q)
        g = self.p.funcs.get(q) if q else None
        if g is not None and self.depth < 2 and not g.is_async and not c.keywords:
            return self._through(g, c, nid, inner)
        raise UnknownIdiom('%s: %s takes the tracked value and is not in the tables' % (self.f.qual, short(c)))

    def _through(self, g: Func, c: ast.Call, nid: int, inner: Origin) -> Origin:
        """Look through a same-package helper: its returns relative to the one
        parameter that receives the tracked value."""
        params = g.params()
        a = g.node.args
        if a.vararg or a.kwarg or g.cls is not None:
            raise UnknownIdiom('%s: helper call %s (signature not read)' % (self.f.qual, short(c)))
        idx = [i for i, x in enumerate(c.args) if self.classify_any(x, nid).derived]
        if len(idx) != 1 or idx[0] >= len(params):
            raise UnknownIdiom('%s: helper call %s passes the tracked value more than once' % (self.f.qual, short(c)))
        argo = self.classify(c.args[idx[0]], nid)
        sub = Provenance(self.p, g, params[idx[0]], self.depth + 1)
        out = None
        for n in sub.cfg.live_nodes():
            if n.kind == 'stmt' and isinstance(n.ast, ast.Return):
                if n.ast.value is None:
                    raise UnknownIdiom('%s: helper %s returns nothing on some path' % (self.f.qual, g.qual))
                r = sub.classify(n.ast.value, n.id)
                if not r.derived:
                    raise UnknownIdiom('%s: helper %s returns something unrelated to its argument on some path' % (self.f.qual, g.qual))
                out = r if out is None else out.merge(r)
        if out is None:
            raise UnknownIdiom('%s: helper %s has no return' % (self.f.qual, g.qual))
        return Origin(True, out.xforms + argo.xforms)


def check(run):
    """Not a property (the selftest driver enumerates sa/rules/c<NN>*.py)."""
    return None
