"""Helpers for C15 (response headers and cookies): reaching definitions,
inventory of the keyed accesses to a response's header dict, small CFG
queries."""

from __future__ import annotations

import ast
from typing import Dict, FrozenSet, Iterator, List, Optional, Set, Tuple

from .. import flow
from ..cfg import CFG, cfg_of
from ..model import (UNKNOWN, AnchorError, Func, Project, UnknownIdiom, attr_chain, func_owner_class, local_names, short,
                     walk_no_nested)
from .c13_helpers import Defs, resolve_alias
from .common import strip_await, walk_self

RESPONSE = 'falcon.response.Response'
ASGI_RESPONSE = 'falcon.asgi.response.Response'


# ---------------------------------------------------------------------------
# reaching definitions (may)
# ---------------------------------------------------------------------------

class Def:
    __slots__ = ('name', 'kind', 'value', 'node', 'idx')

    def __init__(self, name, kind, value, node, idx):
        self.name = name
        self.kind = kind      # param assign unpack aug iter with except
        self.value = value    # defining expression (assign) / iterated expr / None
        self.node = node      # cfg node id (None for params)
        self.idx = idx

    def __repr__(self):
        return '<def %s %s %s>' % (self.name, self.kind, short(self.value, 40) if self.value is not None else '')


class ReachingDefs:
    def __init__(self, cfg: CFG, func: Func):
        self.cfg = cfg
        self.func = func
        self.defs: List[Def] = []
        self.gen: Dict[int, List[int]] = {}
        for name in func.params():
            self._new(name, 'param', None, None)
        init = frozenset(range(len(self.defs)))
        for n in cfg.live_nodes():
            g: List[int] = []
            if n.kind == 'stmt':
                a = n.ast
                if isinstance(a, ast.Assign):
                    for t in a.targets:
                        self._target(t, a.value, n.id, g)
                elif isinstance(a, ast.AnnAssign) and a.value is not None:
                    self._target(a.target, a.value, n.id, g)
                elif isinstance(a, ast.AugAssign) and isinstance(a.target, ast.Name):
                    g.append(self._new(a.target.id, 'aug', a, n.id))
                elif isinstance(a, (ast.Import, ast.ImportFrom)):
                    for al in a.names:
                        g.append(self._new((al.asname or al.name).split('.')[0], 'import', None, n.id))
            elif n.kind == 'iter':
                for x in ast.walk(n.stmt.target):
                    if isinstance(x, ast.Name):
                        g.append(self._new(x.id, 'iter', n.stmt.iter, n.id))
            elif n.kind == 'with':
                for it in n.stmt.items:
                    if it.optional_vars is not None:
                        for x in ast.walk(it.optional_vars):
                            if isinstance(x, ast.Name):
                                g.append(self._new(x.id, 'with', it.context_expr, n.id))
            elif n.kind == 'handler' and n.ast.name:
                g.append(self._new(n.ast.name, 'except', n.ast.type, n.id))
            if g:
                self.gen[n.id] = g
        by_name: Dict[str, Set[int]] = {}
        for d in self.defs:
            by_name.setdefault(d.name, set()).add(d.idx)
        self.by_name = by_name

        def transfer(node, facts, label):
            g = self.gen.get(node.id)
            if not g:
                return facts
            if node.kind == 'iter' and label != 'next':
                return facts
            if label == 'exc':
                return facts | frozenset(g)
            kill = set()
            for i in g:
                kill |= by_name[self.defs[i].name]
            return (facts - kill) | frozenset(g)

        self.IN = flow.forward(cfg, transfer, init, must=False)
        # ast node -> cfg node
        self.node_of: Dict[int, int] = {}
        for n in cfg.live_nodes():
            for x in n.walk():
                self.node_of.setdefault(id(x), n.id)

    def _new(self, name, kind, value, node) -> int:
        d = Def(name, kind, value, node, len(self.defs))
        self.defs.append(d)
        return d.idx

    def _target(self, t, value, nid, g):
        if isinstance(t, ast.Name):
            g.append(self._new(t.id, 'assign', value, nid))
        elif isinstance(t, (ast.Tuple, ast.List)):
            for e in t.elts:
                for x in ast.walk(e):
                    if isinstance(x, ast.Name):
                        g.append(self._new(x.id, 'unpack', value, nid))

    def at(self, nid: int, name: str) -> List[Def]:
        return [self.defs[i] for i in sorted(self.IN.get(nid, frozenset())) if self.defs[i].name == name]

    def cfg_node(self, astnode) -> Optional[int]:
        return self.node_of.get(id(astnode))


_RD_CACHE: Dict[Tuple[int, int], ReachingDefs] = {}


def reaching(p: Project, f: Func) -> ReachingDefs:
    key = (id(p), id(f.node))
    if key not in _RD_CACHE:
        _RD_CACHE[key] = ReachingDefs(cfg_of(f, p), f)
    return _RD_CACHE[key]


# ---------------------------------------------------------------------------
# response-typed receivers and the header dict
# ---------------------------------------------------------------------------

def is_response_class(p: Project, q: Optional[str]) -> bool:
    return bool(q) and p.is_subclass(q, RESPONSE) is True


def response_receiver(p: Project, f: Func, e) -> Optional[bool]:
    """True: `e` denotes a Response; False: it denotes something else;
    None: unknown."""
    if not isinstance(e, ast.Name):
        return None
    g = f
    while g is not None:
        for a in g.node.args.posonlyargs + g.node.args.args + g.node.args.kwonlyargs:
            if a.arg == e.id:
                if a.annotation is not None:
                    ann = a.annotation
                    if isinstance(ann, ast.Constant) and isinstance(ann.value, str):
                        try:
                            ann = ast.parse(ann.value, mode='eval').body
                        except SyntaxError:
                            ann = None
                    q = resolve_alias(p, g.module, ann, None) if ann is not None else None
                    if q and q in p.classes:
                        return is_response_class(p, q)
                if e.id in ('self', 'cls') and g.cls is not None:
                    return is_response_class(p, g.cls.qual)
                if e.id == 'resp':
                    return True   # A.6: the framework's conventional parameter name
                return None
        g = g.parent
    if e.id == 'resp':
        return True
    return None


class Site:
    """One keyed access to a response's `_headers` dict."""

    def __init__(self, func: Func, node, kind: str, key, via: str):
        self.func = func
        self.node = node      # Subscript / Call / Compare
        self.kind = kind      # load store del contains get pop setdefault
        self.key = key
        self.via = via        # 'attr' or alias name

    def __repr__(self):
        return '<site %s %s %s>' % (self.func.qual, self.kind, short(self.node, 60))


KEYED_METHODS = {'get': 'get', 'pop': 'pop', 'setdefault': 'setdefault', '__getitem__': 'load', '__setitem__': 'store',
                 '__delitem__': 'del', '__contains__': 'contains'}
UNKEYED_METHODS = {'copy', 'items', 'keys', 'values'}


def store_exprs(p: Project, f: Func, attr: str):
    """(predicate on expressions denoting `<response>.<attr>`, alias names)."""
    defs = Defs(f)

    def is_attr(e) -> bool:
        return isinstance(e, ast.Attribute) and e.attr == attr and response_receiver(p, f, e.value) is True

    aliases = set()
    for name, ds in defs.defs.items():
        if name in defs.params:
            continue
        if ds and all(d[0] == 'assign' and is_attr(strip_await(d[1])) for d in ds):
            aliases.add(name)

    def denotes(e) -> bool:
        return is_attr(e) or (isinstance(e, ast.Name) and e.id in aliases)

    return denotes, aliases


def header_sites(p: Project, scope_prefixes=('falcon.',), exclude=('falcon.bench', 'falcon.cmd', 'falcon.testing')) -> List[Site]:
    out: List[Site] = []
    for q, f in sorted(p.funcs.items()):
        if not any(q.startswith(s) for s in scope_prefixes) or any(q.startswith(x) for x in exclude):
            continue
        if not any(isinstance(n, ast.Attribute) and n.attr == '_headers' for n in walk_no_nested(f.node)):
            continue
        # sites of another class's `_headers` (multipart BodyPart, ...) are not ours
        recvs = [response_receiver(p, f, n.value) for n in walk_no_nested(f.node)
                 if isinstance(n, ast.Attribute) and n.attr == '_headers']
        if all(r is False for r in recvs):
            continue
        if any(r is None for r in recvs):
            raise UnknownIdiom('%s: receiver of `._headers` is neither a Response nor a known other class' % q)
        denotes, aliases = store_exprs(p, f, '_headers')
        for n in walk_no_nested(f.node):
            if isinstance(n, ast.Subscript) and denotes(n.value):
                kind = {ast.Load: 'load', ast.Store: 'store', ast.Del: 'del'}[type(n.ctx)]
                out.append(Site(f, n, kind, n.slice, 'attr' if isinstance(n.value, ast.Attribute) else n.value.id))
            elif isinstance(n, ast.Call) and isinstance(n.func, ast.Attribute) and denotes(n.func.value):
                m = n.func.attr
                if m in KEYED_METHODS:
                    if not n.args:
                        raise UnknownIdiom('%s: %s without a positional key' % (q, short(n)))
                    out.append(Site(f, n, KEYED_METHODS[m], n.args[0], 'attr' if isinstance(n.func.value, ast.Attribute) else n.func.value.id))
                elif m in UNKEYED_METHODS:
                    pass
                else:
                    raise UnknownIdiom('%s: header dict method .%s() is not modelled: %s' % (q, m, short(n)))
            elif isinstance(n, ast.Compare) and any(denotes(c) for c in n.comparators):
                if len(n.ops) == 1 and isinstance(n.ops[0], (ast.In, ast.NotIn)):
                    out.append(Site(f, n, 'contains', n.left, 'attr' if isinstance(n.comparators[0], ast.Attribute) else n.comparators[0].id))
                else:
                    raise UnknownIdiom('%s: comparison on the header dict: %s' % (q, short(n)))
            elif isinstance(n, (ast.Assign, ast.AnnAssign)):
                tg = n.targets if isinstance(n, ast.Assign) else [n.target]
                for t in tg:
                    if isinstance(t, ast.Attribute) and t.attr == '_headers' and response_receiver(p, f, t.value) is True:
                        v = n.value
                        if isinstance(v, ast.Dict) and all(k is not None for k in v.keys):
                            for k in v.keys:
                                out.append(Site(f, n, 'store', k, 'attr'))
                        else:
                            raise UnknownIdiom('%s: the header dict is replaced by %s' % (q, short(v)))
    return out


# ---------------------------------------------------------------------------
# case of a key
# ---------------------------------------------------------------------------

def is_lower_call(e) -> bool:
    e = strip_await(e)
    return (isinstance(e, ast.Call) and isinstance(e.func, ast.Attribute) and e.func.attr == 'lower'
            and not e.args and not e.keywords)


def key_case(p: Project, site_func: Func, key, at_node: Optional[int] = None, _seen=None) -> Tuple[str, str]:
    """('lower'|'raw'|'unknown', reason) for a key expression evaluated in
    `site_func` (at cfg node `at_node` when it is a local)."""
    _seen = _seen or set()
    key = strip_await(key)
    v = p.fold(site_func.module, key, None, site_func)
    if isinstance(v, str):
        return ('lower', 'literal %r' % v) if v == v.lower() else ('raw', 'literal %r is not lower-case' % v)
    if is_lower_call(key):
        return ('lower', '.lower() result')
    if isinstance(key, ast.Name):
        name = key.id
        if name in local_names(site_func):
            rd = reaching(p, site_func)
            nid = at_node
            if nid is None:
                return ('unknown', 'no CFG node for the use of %s' % name)
            ds = rd.at(nid, name)
            if not ds:
                return ('unknown', 'no definition of %s reaches the access' % name)
            worst = ('lower', 'every reaching definition of %s is a .lower() result' % name)
            for d in ds:
                r = _def_case(p, site_func, d, _seen)
                if r[0] == 'raw':
                    return r
                if r[0] == 'unknown':
                    worst = r
            return worst
        # free variable of a closure: flow-insensitive over the defining scope
        g = site_func.parent
        while g is not None:
            if name in local_names(g):
                ds = Defs(g)
                cases = []
                if name in ds.params:
                    cases.append(('raw', 'closure variable %s is a parameter of %s' % (name, g.qual)))
                for d in ds.defs.get(name, []):
                    if d[0] == 'assign':
                        cases.append(_value_case(p, g, d[1], None, _seen, name))
                    else:
                        cases.append(('raw', 'closure variable %s bound by %s' % (name, d[0])))
                if not cases:
                    return ('unknown', 'closure variable %s has no definition' % name)
                for c in cases:
                    if c[0] != 'lower':
                        return c
                return ('lower', 'closure variable %s is only ever bound to .lower() results in %s' % (name, g.qual))
            g = g.parent
        return ('unknown', 'name %s is not a local, closure variable or constant' % name)
    return ('unknown', 'key expression %s' % short(key, 60))


def _value_case(p, f, value, at_node, seen, name):
    value = strip_await(value)
    if is_lower_call(value):
        return ('lower', '%s = %s' % (name, short(value, 50)))
    v = p.fold(f.module, value, None, f)
    if isinstance(v, str):
        return ('lower', 'literal') if v == v.lower() else ('raw', '%s = %r is not lower-case' % (name, v))
    if isinstance(value, ast.Name):
        if at_node is None and value.id in local_names(f):
            # flow-insensitive (closure variables): every binding must be lower
            ds = Defs(f)
            if value.id in ds.params:
                return ('raw', '%s = %s, a parameter of %s' % (name, value.id, f.qual))
            cases = [(_value_case(p, f, d[1], None, seen | {('fi', value.id)}, value.id) if d[0] == 'assign' and ('fi', value.id) not in seen
                      else ('raw', '%s bound by %s' % (value.id, d[0]))) for d in ds.defs.get(value.id, [])]
            for c in cases:
                if c[0] != 'lower':
                    return c
            return ('lower', '%s = %s' % (name, value.id)) if cases else ('unknown', 'no binding of %s' % value.id)
        return key_case(p, f, value, at_node, seen)
    return ('unknown', '%s = %s' % (name, short(value, 60)))


def _def_case(p, f, d: Def, seen):
    if d.idx in seen:
        return ('lower', 'cycle')
    seen = seen | {d.idx}
    if d.kind == 'param':
        return ('raw', 'parameter %s reaches the access without .lower()' % d.name)
    if d.kind in ('iter', 'unpack', 'with', 'except', 'import'):
        return ('raw', '%s bound by %s reaches the access without .lower()' % (d.name, d.kind))
    if d.kind == 'aug':
        return ('unknown', 'augmented assignment to %s' % d.name)
    return _value_case(p, f, d.value, d.node, seen, d.name)


# ---------------------------------------------------------------------------
# guards
# ---------------------------------------------------------------------------

def controlling_edges(cfg: CFG, nid: int) -> List[Tuple[int, int, str]]:
    """T/F edges of tests that dominate `nid`."""
    out = []
    for t in cfg.live_nodes():
        if t.kind != 'test' or t.id == nid:
            continue
        for (y, l) in cfg.succ[t.id]:
            if l in ('T', 'F') and flow.dominated_by_edge(cfg, nid, (t.id, y, l)):
                out.append((t.id, y, l))
    return out


def raises_only(cfg: CFG, start: int) -> bool:
    """No normal continuation from `start`: every non-exceptional path ends
    in a raise statement."""
    seen = flow.reachable(cfg, [start], edge_filter=flow.no_exc)
    if cfg.exit in seen:
        return False
    ends = [cfg.node(i) for i in seen if not any(l != 'exc' for (_y, l) in cfg.succ[i])]
    return bool(ends) and all(n.kind == 'stmt' and isinstance(n.ast, ast.Raise) for n in ends)


def check(run):
    """Not a property (the selftest driver enumerates sa/rules/c<NN>*.py)."""
    return None
