"""C16 - static routes (DESIGN.md section 3, C16).

R1 containment lemma by forward must-dataflow of path facts at every
   `_open_file` sink of `StaticRoute.__call__`;
R2 ownership of the file-opening primitive and of the configured paths;
R3 range conservation in `_set_range` / `_BoundedFile.read` over linear forms;
R4 status wiring (304 / 206 / 200) in `StaticRoute.__call__`.

Wave 8: R3 also requires that a result WITHOUT a content range (a plain 200)
is returned only on a path where the range is None or the file is empty -
every satisfiable range form is a 206, also when it covers the whole file
(W: `Range: bytes=0-` answered 200 without Content-Range);  R4 / R9: no test
that decides whether 304 is answered, and no comparison of If-Modified-Since,
reads the server's clock (table CLOCK_CALLS; W: If-Modified-Since ahead of
the server clock on an unmodified file gets 200 + body);  R11: undecodable
request-path bytes reach the route as U+FFFD, which its disallowed-characters
test rejects (WSGI constructor evaluated concretely on sample PATH_INFO
values; W: /static/caf\\xe9.txt serves caf\\u00e9.txt).

Wave 9: R12 = C09 R6 (Range decision table: a one-byte range `bytes=N-N` is
valid) shared, because the 206 / 416 wiring starts from the pair Request.range
hands out;  R13: Request.range_unit is the WHOLE text before the first '=' - a
constant shortcut (`return 'bytes'`) only behind a test that includes the
separator (`startswith('bytes=')`), never behind a prefix / substring test of
the bare unit name - and the route compares the unit whole with 'bytes'
(W: `Range: bytesx=1-3` answered 206 instead of 200 with the whole file).

Second preserving wave: R11(a) looks through a helper of the same class / module that is handed a text computed from
`req.path` and whose every normal return lies behind its own "pattern found nothing" branch (StaticRoute._resolve_path);
the pattern may be reached through a local bound once to it / to its bound `.search`, the match may be kept in a local
and tested with `is (not) None`.  R11(b): the constructor evaluator runs module-level (and own-class) helpers the path is
handed to in place (request_helpers._apply_trailing_slash_option), reads a module-level name bound to a literal as its
value and binds omitted parameters to their defaults.  R1 already summarises helpers (PathFacts.summary).

Wave 11: R3 exact cells (r3_exact_cells): every return path of `_set_range` that hands out a content range is compared, in each
cell of (first-byte-pos in {0, >0}) x (last-byte-pos in {marker -1, 0, inside, size-1, >= size}) it can be taken in, with the slice
RFC 9110 14.1.2 prescribes (last = size-1 only for the marker, else min(last, size-1)).  Feasibility and equality are decided over
integer difference constraints (c16_helpers.diff_feasible; path guards as a complete DNF, so `a or b` and `a if c else b` at any
depth are branches; min/max by case split).  W: `end > 0` as the open-end test sends the whole file for `Range: bytes=0-0`.  The
older "[end] <= size-1" obligation is also discharged by entailment from the path guards (r3_entails_le0), which removes its false
alarm on `if end == -1 or end >= size: end = size - 1`, on `0 <= end < size - 1` guards and on an exclusive-stop formulation.
"""

from __future__ import annotations

import ast
from typing import Dict, List, Optional, Set

from .. import flow
from ..cfg import cfg_of
from ..model import AnchorError, Class, Func, UNKNOWN, UnknownIdiom, dotted, func_owner_class, short, walk_no_nested
from .c15_helpers import Provenance
from .c16_helpers import (NONE, UNK, CtorPathEval, Lin, LinExec, NotDifference, PathFacts, diff_entails_eq0, diff_feasible, minmax_cases,
                          seek_position)
from .common import implied, is_self_attr, single, walk_self

MOD = 'falcon.routing.static'
CALL = MOD + '.StaticRoute.__call__'
INIT = MOD + '.StaticRoute.__init__'
OPEN = MOD + '._open_file'
SETRANGE = MOD + '._set_range'
BOUNDED = MOD + '._BoundedFile'
DIRATTR = '_directory'
FALLBACK = '_fallback_filename'

OPEN_PRIMS = {'io.open', 'builtins.open', 'os.open', 'os.fdopen', 'codecs.open', 'io.FileIO', 'io.open_code', 'os.popen',
              'gzip.open', 'bz2.open', 'lzma.open', 'tokenize.open', 'mmap.mmap', 'shutil.copyfileobj', 'shutil.copyfile'}
OPEN_METHODS = {'open', 'read_bytes', 'read_text', 'open_code'}


def _calls_to(p, f: Func, target_qual: str) -> List[ast.Call]:
    out = []
    for n in walk_self(f.node):
        if isinstance(n, ast.Call):
            t = p.callee(f, n)
            if isinstance(t, Func) and t.qual == target_qual:
                out.append(n)
    return out


# ---------------------------------------------------------------------------
# R1
# ---------------------------------------------------------------------------

def r1_containment(run):
    p = run.project
    f = p.func(CALL)
    p.func(OPEN)
    cfg = cfg_of(f, p)
    run.use_cfg(cfg)
    init = p.func(INIT)
    for attr in (DIRATTR, FALLBACK):
        if not any(isinstance(n, ast.Attribute) and n.attr == attr and isinstance(n.ctx, ast.Store) and isinstance(n.value, ast.Name) and n.value.id == 'self'
                   for n in walk_self(init.node)):
            raise AnchorError('StaticRoute.__init__ does not store self.%s (declared anchor of the containment lemma)' % attr)
    PathFacts.IGNORED_CALLEES = {OPEN, SETRANGE}
    pf = PathFacts(p, f, cfg, DIRATTR)
    sinks = []
    for n in cfg.live_nodes():
        for c in n.calls():
            t = p.callee(f, c)
            if isinstance(t, Func) and t.qual == OPEN:
                sinks.append((n, c))
    if not sinks:
        raise AnchorError('%s does not call _open_file' % CALL)
    for n, c in sinks:
        if len(c.args) != 1 or c.keywords:
            raise UnknownIdiom('%s: sink call shape %s' % (CALL, short(c)))
        a = c.args[0]
        if is_self_attr(a, FALLBACK):
            run.ok('the configured fallback file is opened as configured (ownership of the attribute is R2)', f.loc(c), c)
            continue
        facts = pf.IN[n.id]
        if not isinstance(a, ast.Name):
            # an expression over the local the lemma is proved for: read what it does to the text
            cands = sorted({x.id for x in walk_self(a) if isinstance(x, ast.Name) and any(x.id in fc[1:] for fc in facts)})
            if len(cands) != 1:
                raise UnknownIdiom('%s: sink argument %s is not a local' % (CALL, short(a)))
            o = Provenance(p, f, None, root_local=cands[0]).classify(a, n.id)
            if not o.derived:
                raise UnknownIdiom('%s: sink argument %s is not a local' % (CALL, short(a)))
            if o.xforms:
                run.fail('the path handed to _open_file is the very value the containment lemma was proved for (no transformation between the guards and the open)',
                         f, c, witness=o.describe() + ['the guards validated %s' % cands[0]],
                         runtime_witness='the containment checks validate one string and another one is opened: a different file (or none) is served')
                continue
            a = ast.copy_location(ast.Name(id=cands[0], ctx=ast.Load()), a)
        ok, why = pf.safe(facts, a.id)
        if not ok:
            related = {a.id} | {x[2] for x in facts if x[0] == 'JOIN' and x[1] == a.id}
            if related & pf.opaque:
                raise UnknownIdiom('%s: %s is produced or validated by a helper that could not be summarised; '
                                   'path facts are not derived for it' % (CALL, sorted(related & pf.opaque)))
        run.check(ok, 'every path opened for a request is os.path.join(directory, x) with x relative and free of effective ".." '
                  '(containment lemma established by the guards on all paths to the sink)', f, c,
                  witness=why + ['facts at the sink: ' + ', '.join('%s(%s)' % (x[0], ','.join(x[1:])) for x in sorted(facts))],
                  runtime_witness='GET /static//srv/static_secret/f (absolute remainder, sibling directory sharing the prefix) or GET /static/../ '
                                  '- a path outside the directory is handed to io.open')
    run.sample({'rule': 'R1', 'facts_at_first_sink': sorted('%s(%s)' % (x[0], ','.join(x[1:])) for x in pf.IN[sinks[0][0].id])})


# ---------------------------------------------------------------------------
# R2
# ---------------------------------------------------------------------------

def _enclosing_funcs(m) -> Dict[int, Func]:
    owner: Dict[int, Func] = {}
    for f in m.all_funcs:
        for n in walk_no_nested(f.node):
            owner.setdefault(id(n), f)
    return owner


def r2_ownership(run):
    p = run.project
    m = p.module(MOD)
    opener = p.func(OPEN)
    owner = _enclosing_funcs(m)
    found = 0
    for n in ast.walk(m.tree):
        if not isinstance(n, ast.Call):
            continue
        f = owner.get(id(n))
        q = p.resolve_expr(m, n.func, f)
        is_prim = q in OPEN_PRIMS or (isinstance(n.func, ast.Attribute) and n.func.attr in OPEN_METHODS and q not in OPEN_PRIMS
                                      and not (isinstance(q, str) and q.startswith('falcon.')))
        if q in OPEN_PRIMS or is_prim:
            found += 1
            run.check(f is not None and f.qual == OPEN, 'file-opening primitives of routing/static.py occur only inside _open_file',
                      f if f is not None else MOD, n, where='%s:%d' % (m.relpath, n.lineno),
                      runtime_witness='a file opened without passing the containment checks')
    if not found:
        raise AnchorError('no file-opening primitive found in %s' % MOD)
    # callers of _open_file, package-wide
    ncalls = 0
    for f in list(p.funcs.values()):
        for n in walk_no_nested(f.node):
            if isinstance(n, ast.Call):
                fn = n.func
                last = fn.attr if isinstance(fn, ast.Attribute) else (fn.id if isinstance(fn, ast.Name) else None)
                if last != opener.name:
                    continue
                t = p.callee(f, n)
                if isinstance(t, Func) and t.qual == OPEN:
                    ncalls += 1
                    run.check(f.qual == CALL, '_open_file is called only from StaticRoute.__call__', f, n)
            elif isinstance(n, ast.Name) and n.id == opener.name and isinstance(n.ctx, ast.Load) and f.module is m:
                pass
    # non-call references (aliasing the opener) are an idiom the rule does not follow
    call_funcs = {id(n.func) for n in ast.walk(m.tree) if isinstance(n, ast.Call)}
    for n in ast.walk(m.tree):
        if isinstance(n, ast.Name) and n.id == opener.name and isinstance(n.ctx, ast.Load) and id(n) not in call_funcs:
            raise UnknownIdiom('%s: _open_file is referenced as a value (%s:%d)' % (MOD, m.relpath, n.lineno))
    if not ncalls:
        raise AnchorError('_open_file has no caller')
    # writers of the configured paths
    init = p.func(INIT)
    for attr in (DIRATTR, FALLBACK):
        writers = 0
        for f in list(p.funcs.values()):
            for n in walk_no_nested(f.node):
                if isinstance(n, ast.Attribute) and n.attr == attr and isinstance(n.ctx, (ast.Store, ast.Del)):
                    oc = func_owner_class(f)
                    recv_self = isinstance(n.value, ast.Name) and n.value.id == 'self'
                    if recv_self and oc is not None and p.is_subclass(oc.qual, MOD + '.StaticRoute') is False:
                        continue  # another class's own attribute of the same name
                    writers += 1
                    run.check(f.qual == INIT and recv_self, 'StaticRoute.%s is written only by StaticRoute.__init__' % attr, f, n,
                              where=f.loc(n), runtime_witness='a request-time change of the served directory / fallback file')
        if not writers:
            raise AnchorError('no writer of StaticRoute.%s' % attr)
    # the directory is normalised and absolute
    cfg = cfg_of(init, p)
    run.use_cfg(cfg)
    stores = [n for n in cfg.live_nodes() if n.kind == 'stmt' and isinstance(n.ast, (ast.Assign, ast.AnnAssign))
              and any(is_self_attr(t, DIRATTR) for t in (n.ast.targets if isinstance(n.ast, ast.Assign) else [n.ast.target]))]
    for s in stores:
        v = s.ast.value
        normed = isinstance(v, ast.Call) and p.resolve_expr(init.module, v.func, init) in ('os.path.normpath', 'posixpath.normpath', 'os.path.abspath', 'os.path.realpath')
        run.check(normed, 'the served directory is stored normalised (no ".." component can hide in it)', init, s.ast)

        def is_abs(e):
            return (isinstance(e, ast.Call) and p.resolve_expr(init.module, e.func, init) in ('os.path.isabs', 'posixpath.isabs')
                    and len(e.args) == 1 and is_self_attr(e.args[0], DIRATTR))

        good = [(n.id, y, l) for n in cfg.live_nodes() if n.kind == 'test' for (y, l) in cfg.succ[n.id]
                if l in ('T', 'F') and implied(n.ast, l == 'T', is_abs) is True]
        path = flow.find_path(cfg, [y for (y, l) in cfg.succ[s.id] if l != 'exc'], [cfg.exit], avoid_edges=good, edge_filter=flow.no_exc) if good else [s.id]
        # every normal continuation after the store crosses an edge on which isabs(directory) holds
        ok = bool(good) and flow.find_path(cfg, [y for (y, l) in cfg.succ[s.id] if l != 'exc'], [cfg.exit],
                                           avoid_edges=good, edge_filter=flow.no_exc) is None
        run.check(ok, 'construction succeeds only for an absolute directory', init, s.ast,
                  witness=flow.describe_path(cfg, path) if path and not ok else None)


# ---------------------------------------------------------------------------
# R3
# ---------------------------------------------------------------------------

def _lin(v) -> Optional[Lin]:
    return v if isinstance(v, Lin) else None


def range_cells(S: Lin, E: Lin, N: Lin, rng: str):
    """The partition of the (first-byte-pos, last-byte-pos, size) space that a
    SATISFIABLE non-suffix range lives in, with the last byte RFC 9110 section
    14.1.2 prescribes per cell.  Assumptions (contract of Request.range, decided
    by R10 / R12 / R14, and of the 416 branch): the range is given, size >= 1,
    0 <= first <= size - 1, and last is the open-end marker -1 or >= first."""
    one = Lin.const(1)
    base = [('null', rng, False), ('le0', one - N), ('le0', -S), ('le0', S - N + one)]
    starts = [('first-byte-pos 0', [('eq0', S)]), ('first-byte-pos > 0', [('le0', one - S)])]
    ends = [
        ('no last-byte-pos (marker -1)', [('eq0', E + one)], N - one),
        ('last-byte-pos 0', [('eq0', E), ('le0', S - E)], E),
        ('0 < last-byte-pos < size-1', [('le0', one - E), ('le0', E - N + one + one), ('le0', S - E)], E),
        ('last-byte-pos == size-1', [('eq0', E - N + one), ('le0', S - E)], E),
        ('last-byte-pos >= size', [('le0', N - E), ('le0', S - E)], N - one),
    ]
    for sl, sc in starts:
        for el, ec, oracle in ends:
            cs = base + sc + ec
            if diff_feasible(cs):
                yield '%s, %s' % (sl, el), cs, oracle


def _guard_choices(guards):
    out = [[]]
    for _text, alts in guards:
        out = [a + b for a in out for b in alts]
        if len(out) > 256:
            raise UnknownIdiom('_set_range: more than 256 combinations of branch alternatives on one path')
    return out


def r3_entails_le0(ex, path, lin: Lin) -> bool:
    """`lin <= 0` follows from the (complete, readable) branch conditions of the
    path, min/max resolved by case split; False when any of it is outside
    difference constraints."""
    if any(alts is None for _t, alts in path.guards):
        return False
    try:
        for ch in _guard_choices(path.guards):
            for cs, vals in minmax_cases(ex.minmax, ch, [lin]):
                if diff_feasible(cs) and diff_feasible(cs + [('lt0', -vals[0])]):
                    return False
    except (NotDifference, UnknownIdiom):
        return False
    return True


def r3_exact_cells(run, f, ex, path, rng, size, crange, length, cons, where):
    """R3 (wave 11), exactness per cell.  On a return path that hands out a
    content range, for every cell of `range_cells` the path can be taken in, the
    returned (first, last, total) and length are the ones RFC 9110 14.1.2
    prescribes:  first = first-byte-pos,  last = size-1 when there is no
    last-byte-pos (the parser's marker -1) else min(last-byte-pos, size-1),
    total = size,  length = last - first + 1.  Decided over difference
    constraints (path guards as a DNF + cell; min/max by case split), so ONLY
    the marker value -1 may be read as "open ended": a test like `end > 0`
    puts the legitimate last-byte-pos 0 on the open-ended arm.
    W: `Range: bytes=0-0` on a file of 2+ bytes is answered
    `Content-Range: bytes 0-<size-1>/<size>` with the whole file.
    Returns the number of (path, cell) comparisons made."""
    S, E = Lin.atom('%s[0]' % rng), Lin.atom('%s[1]' % rng)
    one = Lin.const(1)
    unread = [t for t, alts in path.guards if alts is None]
    readable = [(t, alts) for t, alts in path.guards if alts is not None]
    choices = _guard_choices(readable)
    s, e, total = crange
    n = 0
    try:
        for label, cell, oracle_end in range_cells(S, E, size, rng):
            want = [S, oracle_end, size, oracle_end - S + one]
            names = ['first', 'last', 'total', 'length']
            bad = None
            reached = False
            for ch in choices:
                # the guards alone first: a path that cannot be taken in this cell (the suffix form) owes nothing here
                if not any(diff_feasible(cs0) for cs0, _v in minmax_cases(ex.minmax, cell + ch, [])):
                    continue
                for cs, vals in minmax_cases(ex.minmax, cell + ch, [s, e, total, length] + want):
                    if not diff_feasible(cs):
                        continue
                    reached = True
                    for nm, got, exp in zip(names, vals[:4], vals[4:]):
                        if not diff_entails_eq0(cs, got - exp):
                            bad = bad or (nm, got, exp)
            if not reached:
                continue
            if unread:
                raise UnknownIdiom('_set_range: %s is returned behind a test the linear evaluator does not read (%s)' % (cons, unread[0]))
            n += 1
            run.check(bad is None, 'a satisfiable byte range is answered with exactly the slice RFC 9110 14.1.2 prescribes in every cell of '
                      '(first-byte-pos, last-byte-pos, size): first = first-byte-pos, last = size-1 only when there is NO last-byte-pos '
                      '(marker -1), else min(last-byte-pos, size-1)', f, cons + ' [exact %s]' % (bad[0] if bad else 'slice'), where=where,
                      witness=path.raw_conds + (['cell: %s' % label, 'returned %s = %s, prescribed %s' % (bad[0], bad[1].key(), bad[2].key())] if bad else []),
                      runtime_witness='Range: bytes=0-0 (the one-byte probe) on a file of 2+ bytes: the whole file as bytes 0-<size-1>/<size> instead of '
                                      'the first byte')
            if bad is not None:
                break
    except NotDifference as exc:
        raise UnknownIdiom('_set_range: %s: the range arithmetic %s is outside difference constraints' % (cons, exc))
    return n


def r3_range(run):
    p = run.project
    f = p.func(SETRANGE)
    params = f.params()
    if len(params) != 3:
        raise AnchorError('_set_range signature changed: %s' % params)
    fh, st, rng = params
    cfg = cfg_of(f, p)
    run.use_cfg(cfg)
    size = Lin.atom('%s.st_size' % st)
    ex = LinExec(p, f, cfg, opaque_params=[fh], file_sizes={fh: size})
    paths = ex.run()
    one = Lin.const(1)
    n_ranged = 0
    n_raise = 0
    n_plain = 0
    n_cells = 0

    def nonpos(path, x, strict=False):
        """x <= 0 (strict: x < 0) from the path conditions, from st_size >= 0
        (assumption), or because x is max(..) of such terms."""
        if path.implies_lt0(x) or (not strict and path.implies_le0(x)):
            return True
        if x == -size:
            return (not strict) or path.excludes_zero(size)
        if not x.t or set(x.t) == {''}:
            c = x.t.get('', 0)
            return c < 0 or (c == 0 and not strict)
        at = x.single_atom()
        if at in ex.minmax and ex.minmax[at][0] == 'max':
            return all(nonpos(path, y, strict) for y in ex.minmax[at][1])
        return False

    for path in paths:
        out = path.outcome
        where = '%s:%s' % (f.file, getattr(out[-1], 'lineno', f.lineno)) if out[0] != 'fall' else f.loc()
        wit = path.raw_conds
        # frozen look-alike: a seek relative to the end of the file.  BytesIO
        # clamps an offset before the first byte to 0; a real file raises
        # OSError(EINVAL), which the caller's `except IOError` turns into 404.
        # Obligation on every path (whatever its outcome): -size <= offset <= 0,
        # by a max(.., -size) clamp or a guard on the path.
        seeks = [ev for ev in path.events if ev[0] == 'call' and ev[5] == ('obj', fh) and ev[2] == 'seek']
        seek_unclamped = False
        for ev in seeks:
            _pos, off = seek_position(ev[3], size, ev[4], '_set_range')
            if off is None:
                continue
            lo = ex.le_by_minmax(-size, off) or path.implies_le0(-size - off) or nonpos(path, -off)  # (off >= 0 >= -size)
            run.check(lo, 'a seek relative to the end of the file never reaches before the first byte (offset >= -size, clamped or guarded): '
                      'a relative seek before the start of a real file raises', f, ev[4], where=f.loc(ev[4]),
                      witness=wit + ['offset=%s' % off.key()],
                      runtime_witness='Range: bytes=-999999 on a small on-disk file: OSError(EINVAL) from seek -> 404 instead of 206 with the whole file '
                                      '(io.BytesIO clamps and hides it)')
            run.check(nonpos(path, off), 'a seek relative to the end of the file never positions beyond the end (offset <= 0)', f,
                      '%s [beyond]' % short(ev[4]), where=f.loc(ev[4]), witness=wit + ['offset=%s' % off.key()],
                      runtime_witness='a suffix range served from beyond the end of the file: empty body with a non-zero Content-Length')
            seek_unclamped = seek_unclamped or not lo
        if out[0] == 'fall':
            run.fail('_set_range falls off its end without a result', f, 'fall-through', witness=wit)
            continue
        if out[0] == 'raise':
            q, args, node = out[1], out[2], out[3]
            if q and q.endswith('HTTPRangeNotSatisfiable'):
                n_raise += 1
                start = Lin.atom('%s[0]' % rng)
                run.check(len(args) == 1 and args[0] == size, '416 reports the file size', f, node, where=where, witness=wit)
                run.check(path.implies_le0(size - start), '416 is raised only when the first byte position is at or beyond the file size',
                          f, node, where=where, witness=wit + ['conditions: %s' % [(k, l.key()) for k, l in path.conds]],
                          runtime_witness='a satisfiable range answered with 416')
                run.check(path.excludes_zero(size), 'zero-byte files ignore Range (no 416 when size == 0)', f, node, where=where, witness=wit)
            continue
        val = out[1]
        node = out[2]
        if not (isinstance(val, tuple) and val[0] == 'tuple' and len(val[1]) == 3):
            raise UnknownIdiom('_set_range: return shape %s' % short(node))
        stream, length, crange = val[1]
        if seek_unclamped and not (isinstance(length, Lin) and (crange is NONE or (isinstance(crange, tuple) and crange[0] == 'tuple'
                                                                                    and all(isinstance(x, Lin) for x in crange[1])))):
            # the result is computed from something the evaluator cannot read (tell(), ...)
            # after a seek that may raise: the unclamped seek is already reported
            continue
        if not isinstance(length, Lin):
            raise UnknownIdiom('_set_range: length expression in %s is outside the linear evaluator' % short(node))
        if crange is NONE:
            ok = stream == ('obj', fh) and isinstance(length, Lin) and (length == size or (length.is_zero() and path.implies_le0(size)))
            run.check(ok, 'without a content range the whole file is served: the unwrapped handle and length == size', f, node, where=where, witness=wit)
            # every Range that req.range accepted and that is not answered 416 is answered 206 with a
            # Content-Range - also when the slice happens to be the whole file (bytes=0-, bytes=0-<size-1>,
            # bytes=-<size>): a result without a content range is justified only by "no Range" or "empty file"
            ratom = Lin.atom(rng)
            no_range = path.nulls.get(rng) is True or any(k == 'eq0' and l in (ratom, -ratom) for k, l in path.conds)
            empty = path.implies_le0(size)
            given = path.nulls.get(rng) is False or any(k == 'ne0' and l in (ratom, -ratom) for k, l in path.conds)
            if not (no_range or empty or given):
                raise UnknownIdiom('_set_range: %s is reached without a decision on whether %s is None' % (short(node), rng))
            n_plain += 1
            run.check(no_range or empty, 'a result without a content range (a plain 200) is returned only when there is no Range or the file is empty: every '
                      'satisfiable range form (first-last, first-, -suffix) is answered 206 with Content-Range, also when it covers the whole file',
                      f, '%s [no content range]' % short(node), where=where, witness=wit + ['conditions: %s' % [(k, l.key()) for k, l in path.conds]],
                      runtime_witness='Range: bytes=0- on a non-empty file is answered 200 without Content-Range while bytes=0-<size-1> and bytes=-<size> '
                                      'get 206 bytes 0-<size-1>/<size>')
            continue
        if not (isinstance(crange, tuple) and crange[0] == 'tuple' and len(crange[1]) == 3 and all(isinstance(x, Lin) for x in crange[1])):
            raise UnknownIdiom('_set_range: content-range shape in %s' % short(node))
        n_ranged += 1
        s, e, total = crange[1]
        cons = 'return %s' % short(node.value, 110)
        rw = 'Range request whose Content-Length, Content-Range and body length disagree (off by one)'
        run.check(total == size, 'Content-Range total is the file size', f, cons + ' [total]', where=where, witness=wit)
        bounded = isinstance(stream, tuple) and stream[0] == 'new' and stream[1] == BOUNDED and len(stream[2]) == 2 and stream[2][0] == ('obj', fh)
        bound = stream[2][1] if bounded else None
        run.check(bounded and isinstance(length, Lin) and bound == length, 'a ranged response streams a _BoundedFile whose bound equals the reported length',
                  f, cons + ' [bound]', where=where, witness=wit + ['bound=%s length=%s' % (getattr(bound, 'key', lambda: bound)(), getattr(length, 'key', lambda: length)())])
        run.check(isinstance(length, Lin) and (e - s + one) == length, 'end - start + 1 == length on the return path', f, cons + ' [length]', where=where,
                  witness=wit + ['start=%s end=%s length=%s' % (s.key(), e.key(), length.key() if isinstance(length, Lin) else length)], runtime_witness=rw)
        pos = seek_position(seeks[-1][3], size, seeks[-1][4], '_set_range')[0] if seeks else None
        run.check(pos is not None and pos == s, 'the handle is positioned at the reported first byte', f, cons + ' [seek]', where=where,
                  witness=wit + ['seek position=%s start=%s' % (pos.key() if pos is not None else None, s.key())], runtime_witness=rw)
        run.check(ex.le_by_minmax(e, size - one) or r3_entails_le0(ex, path, e - size + one), 'the reported last byte is at most size - 1', f, cons + ' [end]',
                  where=where,
                  witness=wit + ['end=%s' % e.key()], runtime_witness='Range: bytes=0-999999 on a small file reports an end beyond the file')
        # first byte inside the file: start < size from a guard, or (suffix range)
        # start - size == max(a, b, ..) with every argument negative on this path
        inside = nonpos(path, s - size, strict=True)
        run.check(inside, 'a ranged response starts inside the file (otherwise 416)', f, cons + ' [start]', where=where,
                  witness=wit + ['start=%s, conditions: %s' % (s.key(), [(k, l.key()) for k, l in path.conds])],
                  runtime_witness='Range: bytes=<size>- answered 206 with an empty or negative length instead of 416')
        run.check(path.excludes_zero(size), 'zero-byte files ignore Range (no ranged response when size == 0)', f, cons + ' [size>0]', where=where, witness=wit)
        n_cells += r3_exact_cells(run, f, ex, path, rng, size, (s, e, total), length, cons, where)
    if n_ranged and not n_cells:
        raise AnchorError('_set_range: no ranged return path is reachable for a satisfiable first-last / first- range')
    if n_ranged < 2:
        raise AnchorError('_set_range: fewer than two ranged return paths (%d)' % n_ranged)
    if not n_raise:
        raise AnchorError('_set_range never raises HTTPRangeNotSatisfiable')
    if not n_plain:
        raise AnchorError('_set_range never returns the plain file (no content range) for a request without Range')
    run.sample({'rule': 'R3', 'paths': len(paths), 'ranged_returns': n_ranged, 'exact_cells': n_cells})
    # _BoundedFile
    c = p.cls(BOUNDED)
    init = p.lookup_method(c.qual, '__init__')
    read = p.lookup_method(c.qual, 'read')
    if init is None or read is None:
        raise AnchorError('_BoundedFile.__init__/read not found')
    rcfg = cfg_of(read, p)
    run.use_cfg(rcfg)
    rex = LinExec(p, read, rcfg)
    rpaths = rex.run()
    iparams = init.params()
    if len(iparams) < 3:
        raise AnchorError('_BoundedFile.__init__ signature: %s' % iparams)
    stored = [n for n in walk_self(init.node) if isinstance(n, ast.Assign)
              and any(isinstance(x, ast.Name) and x.id == iparams[2] for x in walk_self(n.value))
              and len(n.targets) == 1 and isinstance(n.targets[0], ast.Attribute) and dotted(n.targets[0]) and dotted(n.targets[0]).startswith('self.')]
    if len(stored) != 1:
        raise AnchorError('_BoundedFile.__init__: expected exactly one attribute derived from the length argument, found %d' % len(stored))
    run.check(isinstance(stored[0].value, ast.Name), '_BoundedFile stores its length argument unchanged as the read budget', init, stored[0],
              runtime_witness='a ranged response body longer or shorter than its Content-Length')
    budget_attr = dotted(stored[0].targets[0])
    budget = Lin.atom(budget_attr)
    touched = any(ev[0] in ('aug', 'setattr') and ev[1] == budget_attr for path in rpaths for ev in path.events)
    run.check(touched, '_BoundedFile keeps its length argument as a read budget that read() updates', init, stored[0],
              runtime_witness='a ranged response body longer than its Content-Length')
    for path in rpaths:
        if path.outcome[0] != 'return':
            continue
        reads = [ev for ev in path.events if ev[0] == 'call' and ev[2] == 'read']
        if len(reads) != 1:
            raise UnknownIdiom('_BoundedFile.read: %d underlying reads on one path' % len(reads))
        rd = reads[0]
        arg = rd[3][0] if rd[3] else None
        if not isinstance(arg, Lin):
            raise UnknownIdiom('_BoundedFile.read: size expression %s is outside the linear evaluator' % short(rd[4]))
        run.check(rex.le_by_minmax(arg, budget), '_BoundedFile.read never requests more than the remaining budget',
                  read, rd[4], witness=path.raw_conds + ['requested=%s' % (arg.key() if isinstance(arg, Lin) else arg)],
                  runtime_witness='a ranged response body longer than its Content-Length')
        # deduction of len(<result of that read>)
        res_names = [k for k, v in path.env.items() if isinstance(v, tuple) and v and v[0] == 'result' and v[3] is rd[4]]
        final = path.attrs.get(budget_attr)
        ok = any(isinstance(final, Lin) and final == budget - Lin.atom('len(%s)' % nm) for nm in res_names)
        run.check(ok, '_BoundedFile.read deducts the number of bytes actually read from the budget', read,
                  '%s after %s' % (budget_attr, short(rd[4])), where=read.loc(rd[4]),
                  witness=path.raw_conds + ['%s at return: %s' % (budget_attr, final.key() if isinstance(final, Lin) else final)])
        rv = path.outcome[1]
        run.check(isinstance(rv, tuple) and rv and rv[0] == 'result' and rv[3] is rd[4], '_BoundedFile.read returns the bytes it read', read,
                  path.outcome[2])


# ---------------------------------------------------------------------------
# the server clock (frozen look-alike table, one reason per line)
# ---------------------------------------------------------------------------

CLOCK_CALLS = {
    'datetime.datetime.now': 'the current time',
    'datetime.datetime.utcnow': 'the current time (naive UTC)',
    'datetime.datetime.today': 'the current local time',
    'datetime.date.today': 'the current date',
    'time.time': 'seconds since the epoch, now',
    'time.time_ns': 'nanoseconds since the epoch, now',
    'time.monotonic': 'a clock reading',
    'time.perf_counter': 'a clock reading',
}
CLOCK_CALLS_NOARG = {
    'time.gmtime': 'gmtime() without an argument converts the current time',
    'time.localtime': 'localtime() without an argument converts the current time',
    'time.ctime': 'ctime() without an argument formats the current time',
    'time.strftime': 'strftime(fmt) without a time tuple formats the current time',
}
FALCON_CLOCK_NAMES = {'utcnow': 'falcon.util.misc.utcnow is datetime.utcnow', '_utcnow': 'falcon.util.misc._utcnow is partial(datetime.now, utc)',
                      'http_now': 'falcon.util.misc.http_now formats the current time'}


def reads_clock(p, f: Func, e, at=None, _depth=0, _seen=None):
    """The first call inside expression `e` of `f` that reads the server's
    clock (tables above; one level into same-package helpers; through locals
    when `at` = (reaching-definitions, cfg node id) is given), else None."""
    seen = set() if _seen is None else _seen
    for x in walk_self(e):
        if isinstance(x, ast.Call):
            q = p.resolve_expr(f.module, x.func, f)
            if q in CLOCK_CALLS:
                return x
            if q in CLOCK_CALLS_NOARG and len(x.args) + len(x.keywords) <= (1 if q == 'time.strftime' else 0):
                return x
            if isinstance(q, str) and q.startswith('falcon.') and q.rsplit('.', 1)[-1] in FALCON_CLOCK_NAMES:
                return x
            if _depth < 2:
                g = p.callee(f, x)
                if isinstance(g, Func) and g.qual not in seen:
                    seen.add(g.qual)
                    if any(reads_clock(p, g, st, None, _depth + 1, seen) is not None for st in g.node.body):
                        return x
        elif isinstance(x, ast.Name) and isinstance(x.ctx, ast.Load) and at is not None:
            rd, nid = at
            for d in rd.at(nid, x.id):
                if ('d', d.idx) in seen or d.kind not in ('assign', 'aug') or d.value is None:
                    continue
                seen.add(('d', d.idx))
                v = d.value if d.kind == 'assign' else d.value.value
                c = reads_clock(p, f, v, (rd, d.node), _depth, seen)
                if c is not None:
                    return c
    return None


# ---------------------------------------------------------------------------
# R4
# ---------------------------------------------------------------------------

def r4_status(run):
    p = run.project
    f = p.func(CALL)
    cfg = cfg_of(f, p)
    run.use_cfg(cfg)
    params = f.params()
    if len(params) < 3:
        raise AnchorError('StaticRoute.__call__ signature')
    resp = params[2]
    # the _set_range unpacking
    sr = [n for n in cfg.live_nodes() if n.kind == 'stmt' and isinstance(n.ast, ast.Assign) and isinstance(n.ast.value, ast.Call)
          and isinstance(p.callee(f, n.ast.value), Func) and p.callee(f, n.ast.value).qual == SETRANGE]
    srn = single(sr, 'assignment from _set_range(...)', CALL)
    tgt = srn.ast.targets[0]
    if not (len(srn.ast.targets) == 1 and isinstance(tgt, ast.Tuple) and len(tgt.elts) == 3 and all(isinstance(e, ast.Name) for e in tgt.elts)):
        raise UnknownIdiom('%s: result of _set_range is not unpacked into three locals' % CALL)
    v_stream, v_len, v_range = [e.id for e in tgt.elts]
    for nm in (v_stream, v_len, v_range):
        defs = [x for x in walk_self(f.node) if isinstance(x, ast.Name) and x.id == nm and isinstance(x.ctx, ast.Store)]
        if len(defs) != 1:
            raise UnknownIdiom('%s: %s is assigned more than once' % (CALL, nm))
    after = [y for (y, l) in cfg.succ[srn.id] if l != 'exc']

    def status_nodes(prefix):
        out = []
        for n in cfg.live_nodes():
            if n.kind == 'stmt' and isinstance(n.ast, ast.Assign) and any(dotted(t) == resp + '.status' for t in n.ast.targets):
                v = p.fold(f.module, n.ast.value, f.cls, f)
                if v is UNKNOWN:
                    raise UnknownIdiom('%s: status value %s does not fold' % (CALL, short(n.ast.value)))
                if str(v).startswith(prefix):
                    out.append(n)
        return out

    stream_nodes = [n for n in cfg.live_nodes() if any(dotted(c.func) == resp + '.set_stream' for c in n.calls())
                    or (n.kind == 'stmt' and isinstance(n.ast, ast.Assign) and any(dotted(t) in (resp + '.stream', resp + '.data', resp + '.text') for t in n.ast.targets))]
    if not stream_nodes:
        raise AnchorError('%s never sets a response stream' % CALL)
    # 304
    n304 = status_nodes('304')
    if not n304:
        raise AnchorError('%s never sets 304' % CALL)
    for n in n304:
        fwd = flow.find_path(cfg, [n.id], [x.id for x in stream_nodes] + [srn.id])
        back = flow.find_path(cfg, [x.id for x in stream_nodes], [n.id])
        bad = fwd or back
        run.check(bad is None, 'the 304 path neither follows nor reaches any store of a response body', f, n.ast,
                  witness=flow.describe_path(cfg, bad) if bad else None, runtime_witness='304 Not Modified with a body')
    # the 304 decision is `mtime (whole seconds) <= If-Modified-Since` (RFC 7232 section 3.3) and nothing else that varies with the
    # moment of the request: no test that decides whether the 304 store is reached reads the server's clock
    from .c15_helpers import reaching
    rdefs = reaching(p, f)
    ids304 = {n.id for n in n304}
    n_dec = 0
    for t in cfg.live_nodes():
        if t.kind != 'test':
            continue
        arms = {l: bool(ids304 & flow.reachable(cfg, [y])) for (y, l) in cfg.succ[t.id] if l in ('T', 'F')}
        if len(arms) != 2 or arms['T'] == arms['F']:
            continue
        n_dec += 1
        c = reads_clock(p, f, t.ast, (rdefs, t.id))
        run.check(c is None, 'whether a conditional request is answered 304 depends on the file\'s mtime and If-Modified-Since only, never on the server\'s clock '
                  '(a date later than "now" is not invalid: RFC 7232 dropped that rule of RFC 2616 14.25)', f, t.ast, where='%s:%s' % (f.file, t.lineno),
                  witness=['%s reads the current time' % short(c)] if c is not None else None,
                  runtime_witness='If-Modified-Since one hour ahead of the server clock (client or proxy clock skew) on an unmodified file: 200 with the full '
                                  'body instead of 304')
    if not n_dec:
        raise AnchorError('%s: no test decides whether 304 is answered' % CALL)
    # set_stream(stream, length) + Accept-Ranges on every path that produced a stream
    for n in stream_nodes:
        calls = [c for c in n.calls() if dotted(c.func) == resp + '.set_stream']
        ok = len(calls) == 1 and len(calls[0].args) == 2 and not calls[0].keywords and \
            [a.id if isinstance(a, ast.Name) else None for a in calls[0].args] == [v_stream, v_len]
        run.check(ok, 'the body is set by set_stream(<stream>, <length>) with the pair computed by _set_range (Content-Length == bytes served)',
                  f, n.ast, runtime_witness='Content-Length differing from the number of body bytes')
    path = flow.find_path(cfg, after, [cfg.exit], avoid_nodes=[x.id for x in stream_nodes], edge_filter=flow.no_exc)
    run.check(path is None, 'every path that computed a stream hands it to the response', f, srn.ast,
              witness=flow.describe_path(cfg, path) if path else None)

    def is_accept_ranges(n):
        if n.kind == 'stmt' and isinstance(n.ast, ast.Assign) and any(dotted(t) == resp + '.accept_ranges' for t in n.ast.targets):
            return p.fold(f.module, n.ast.value, f.cls, f) == 'bytes'
        for c in n.calls():
            if dotted(c.func) == resp + '.set_header' and len(c.args) == 2:
                k = p.fold(f.module, c.args[0], f.cls, f)
                if isinstance(k, str) and k.lower() == 'accept-ranges' and p.fold(f.module, c.args[1], f.cls, f) == 'bytes':
                    return True
        return False

    ar = [n.id for n in cfg.live_nodes() if is_accept_ranges(n)]
    path = flow.find_path(cfg, after, [cfg.exit], avoid_nodes=ar, edge_filter=flow.no_exc)
    run.check(path is None, 'Accept-Ranges: bytes is announced on every 200/206 path', f, 'accept_ranges after ' + short(srn.ast, 80),
              where=f.loc(srn.ast), witness=flow.describe_path(cfg, path) if path else None)
    # 206 + Content-Range iff a range tuple came back
    def is_range(e):
        return isinstance(e, ast.Name) and e.id == v_range

    def truth_edges(want):
        out = []
        for n in cfg.live_nodes():
            if n.kind == 'test':
                for (y, l) in cfg.succ[n.id]:
                    if l in ('T', 'F'):
                        r = implied(n.ast, l == 'T', is_range)
                        if r is None:
                            r = implied(n.ast, l == 'T', lambda e: isinstance(e, ast.Compare) and len(e.ops) == 1 and isinstance(e.ops[0], ast.IsNot)
                                        and is_range(e.left) and isinstance(e.comparators[0], ast.Constant) and e.comparators[0].value is None)
                        if r is None:
                            r2 = implied(n.ast, l == 'T', lambda e: isinstance(e, ast.Compare) and len(e.ops) == 1 and isinstance(e.ops[0], ast.Is)
                                         and is_range(e.left) and isinstance(e.comparators[0], ast.Constant) and e.comparators[0].value is None)
                            r = None if r2 is None else (not r2)
                        if r is want:
                            out.append((n.id, y, l))
        return out

    yes, no = truth_edges(True), truth_edges(False)
    if not yes:
        raise AnchorError('%s: no branch on the content range returned by _set_range' % CALL)
    n206 = status_nodes('206')
    cr = [n for n in cfg.live_nodes() if n.kind == 'stmt' and isinstance(n.ast, ast.Assign) and any(dotted(t) == resp + '.content_range' for t in n.ast.targets)]
    if not n206 or not cr:
        raise AnchorError('%s: 206 / content_range stores not found' % CALL)
    for n in n206 + cr:
        run.check(n.id not in flow.reachable(cfg, [cfg.entry], avoid_edges=yes), '206 / Content-Range only when _set_range returned a range',
                  f, n.ast, runtime_witness='a full-body 200 response labelled 206 / carrying Content-Range')
    for n in cr:
        run.check(isinstance(n.ast.value, ast.Name) and n.ast.value.id == v_range, 'Content-Range is the tuple computed by _set_range', f, n.ast)
    for e in yes:
        for group, what in (([n.id for n in n206], 'status 206'), ([n.id for n in cr], 'Content-Range')):
            path = flow.find_path(cfg, [e[1]], [cfg.exit], avoid_nodes=group, edge_filter=flow.no_exc)
            run.check(path is None, 'a returned range always yields %s' % what, f, '%s after %s' % (what, cfg.node(e[0]).text()),
                      where='%s:%s' % (f.file, cfg.node(e[0]).lineno), witness=flow.describe_path(cfg, path) if path else None,
                      runtime_witness='a partial body sent as 200 or without Content-Range')
    # no other status store on the 200/206 paths
    others = [n for n in cfg.live_nodes() if n.kind == 'stmt' and isinstance(n.ast, ast.Assign) and any(dotted(t) == resp + '.status' for t in n.ast.targets)
              and n not in n206 and n not in n304]
    for n in others:
        run.check(n.id not in flow.reachable(cfg, after), 'no other status is stored after a stream was computed', f, n.ast)


# ---------------------------------------------------------------------------
# R8
# ---------------------------------------------------------------------------

PATH_KEYWORDS = ('file', 'path', 'name', 'filename')


def r8_opened_is_proved(run):
    """Inside _open_file the string handed to the file-opening primitive is
    the function's parameter unchanged: the containment lemma (R1) is proved
    for the caller's argument, and "the requested file's bytes" means the file
    of exactly that name.  os.fspath / str / a plain copy are the identity;
    any other step (Unicode or path normalisation, case folding, strip,
    slicing, joins, ...) is a different name."""
    p = run.project
    m = p.module(MOD)
    f = p.func(OPEN)
    a = f.node.args
    params = f.params()
    if len(params) != 1 or a.vararg or a.kwarg or a.kwonlyargs:
        raise UnknownIdiom('%s: signature %s (one path parameter expected)' % (OPEN, params))
    prov = Provenance(p, f, params[0])
    run.use_cfg(prov.cfg)
    found = 0
    for n in walk_no_nested(f.node):
        if not isinstance(n, ast.Call):
            continue
        q = p.resolve_expr(m, n.func, f)
        method = isinstance(n.func, ast.Attribute) and n.func.attr in OPEN_METHODS and q not in OPEN_PRIMS and not (isinstance(q, str) and q.startswith('falcon.'))
        if q not in OPEN_PRIMS and not method:
            continue
        if q in OPEN_PRIMS:
            if n.args and not isinstance(n.args[0], ast.Starred):
                path = n.args[0]
            else:
                kws = [k.value for k in n.keywords if k.arg in PATH_KEYWORDS]
                if len(kws) != 1:
                    raise UnknownIdiom('%s: cannot find the path operand of %s' % (OPEN, short(n)))
                path = kws[0]
        else:
            path = n.func.value
        nid = prov.rd.cfg_node(n)
        if nid is None:
            raise UnknownIdiom('%s: %s is not on a live path' % (OPEN, short(n)))
        found += 1
        o = prov.classify(path, nid)
        rw = ('a file whose on-disk name differs from its transformed form (not NFC, upper-case, trailing blank, ...) is requested by its exact name: '
              "another file's bytes or a 404")
        if not o.derived:
            run.fail('_open_file opens the path it was given', f, n, witness=['%s does not derive from the parameter %s' % (short(path), params[0])], runtime_witness=rw)
            continue
        cons = o.xforms[0][1] if o.xforms else n
        run.check(not o.xforms, '_open_file opens exactly the string it was given - the one the containment checks validated (no transformation before the open)',
                  f, cons, where=f.loc(cons), witness=(o.describe() + ['reaches %s' % short(n)]) if o.xforms else None, runtime_witness=rw)
    if not found:
        raise AnchorError('no file-opening primitive found in %s' % OPEN)


# ---------------------------------------------------------------------------
# R9
# ---------------------------------------------------------------------------

MTIME_ATTRS = {'st_mtime'}
# frozen tables, one reason per line (x >= 0: a file's mtime)
TRUNCATING_CALLS = {
    'builtins.int': 'int(x) drops the fraction',
    'math.floor': 'floor(x) drops the fraction',
    'math.trunc': 'trunc(x) drops the fraction',
}
ROUNDING_CALLS = {
    'builtins.round': 'round(x) goes to the NEAREST second: one second in the future for a fraction >= 0.5',
    'math.ceil': 'ceil(x) goes to the NEXT second for every non-zero fraction',
}
FROM_TS = {'datetime.datetime.fromtimestamp', 'datetime.datetime.utcfromtimestamp'}
DT_NEUTRAL_METHODS = {'astimezone': 'same instant in another zone (the zone is R7\'s subject)', 'timestamp': 'the same instant as a number'}


class _TimeVal:
    """A value derived from the file's mtime: where it was read from and what
    was done to its sub-second part ('raw' | 'floor' | 'round' | 'shift')."""
    __slots__ = ('source', 'frac', 'why', 'node')

    def __init__(self, source, frac='raw', why=None, node=None):
        self.source, self.frac, self.why, self.node = source, frac, why, node

    def to(self, frac, why, node):
        # an already integral value is not changed by a later truncation / rounding
        if self.frac != 'raw':
            return self
        return _TimeVal(self.source, frac, why, node)

    def key(self):
        return (self.source, self.frac)


class _MtimeReader:
    """Reads how an expression of `StaticRoute.__call__` is computed from
    `<stat>.st_mtime`: through locals (may-reaching definitions), the
    datetime constructors of FROM_TS, `.replace(microsecond=0)`, the tables
    above, `x // 1`, and `+`/`-` of a constant (a shifted instant).  Any other
    construct that touches an mtime-derived value is UnknownIdiom."""

    def __init__(self, p, f: Func):
        from .c15_helpers import reaching
        self.p, self.f = p, f
        self.rd = reaching(p, f)
        self._active: Set[int] = set()

    def q(self, fexpr):
        return self.p.resolve_expr(self.f.module, fexpr, self.f)

    def touches(self, e, nid, _seen=None) -> bool:
        seen = _seen if _seen is not None else set()
        for x in walk_self(e):
            if isinstance(x, ast.Attribute) and (x.attr in MTIME_ATTRS or x.attr.startswith('st_mtime')):
                return True
            if isinstance(x, ast.Name) and isinstance(x.ctx, ast.Load):
                for d in self.rd.at(nid, x.id):
                    if d.idx in seen or d.kind == 'param' or d.value is None:
                        continue
                    seen.add(d.idx)
                    if d.kind in ('assign', 'aug') and self.touches(d.value if d.kind == 'assign' else d.value.value, d.node, seen):
                        return True
        return False

    def unknown(self, e, why='is not a construct the rule reads'):
        return UnknownIdiom('%s: %s, computed from the file\'s mtime, %s' % (self.f.qual, short(e, 90), why))

    def ev(self, e, nid) -> Optional[_TimeVal]:
        """None: unrelated to the mtime."""
        if not self.touches(e, nid):
            return None
        if isinstance(e, ast.Attribute) and e.attr in MTIME_ATTRS:
            return _TimeVal(short(e))
        if isinstance(e, ast.Name):
            out = None
            for d in self.rd.at(nid, e.id):
                if d.kind != 'assign':
                    if d.kind == 'param':
                        continue
                    raise self.unknown(e, 'is bound by %s' % d.kind)
                if d.idx in self._active:
                    raise self.unknown(e, 'is defined in terms of itself in a loop')
                self._active.add(d.idx)
                try:
                    v = self.ev(d.value, d.node)
                finally:
                    self._active.discard(d.idx)
                if v is None:
                    raise self.unknown(e, 'is only sometimes derived from the mtime')
                if out is not None and out.key() != v.key():
                    raise self.unknown(e, 'has definitions that treat the sub-second part differently')
                out = v
            return out
        if isinstance(e, ast.BinOp):
            l, r = self.ev(e.left, nid), self.ev(e.right, nid)
            if l is not None and r is None:
                if isinstance(e.op, ast.FloorDiv) and isinstance(e.right, ast.Constant) and e.right.value == 1:
                    return l.to('floor', 'x // 1 drops the fraction', e)
                if isinstance(e.op, (ast.Add, ast.Sub)):
                    c = self.p.fold(self.f.module, e.right, self.f.cls, self.f)
                    if c is not UNKNOWN and isinstance(c, (int, float)):
                        if c == 0:
                            return l
                        return _TimeVal(l.source, 'shift', 'a constant is added to the timestamp: %s' % short(e), e)
            raise self.unknown(e)
        if isinstance(e, ast.Call):
            if any(isinstance(a, ast.Starred) for a in e.args) or any(k.arg is None for k in e.keywords):
                raise self.unknown(e, 'uses star-arguments')
            fn = e.func
            q = self.q(fn)
            if q in FROM_TS and e.args:
                v = self.ev(e.args[0], nid)
                if v is None or any(self.touches(a, nid) for a in e.args[1:]) or any(self.touches(k.value, nid) for k in e.keywords):
                    raise self.unknown(e)
                return v
            if q in TRUNCATING_CALLS and len(e.args) == 1 and not e.keywords:
                v = self.ev(e.args[0], nid)
                if v is None:
                    raise self.unknown(e)
                if v.frac == 'shift':
                    return _TimeVal(v.source, 'round', 'the timestamp is shifted before its fraction is dropped: %s' % short(e), e)
                return v.to('floor', TRUNCATING_CALLS[q], e)
            if q in ROUNDING_CALLS and e.args and len(e.args) + len(e.keywords) <= 2:
                extra = list(e.args[1:]) + [k.value for k in e.keywords]
                if extra and not (isinstance(extra[0], ast.Constant) and extra[0].value in (None, 0)) or q != 'builtins.round' and extra:
                    raise self.unknown(e, 'rounds to something else than whole seconds')
                v = self.ev(e.args[0], nid)
                if v is None:
                    raise self.unknown(e)
                return v.to('round', ROUNDING_CALLS[q], e)
            if isinstance(fn, ast.Attribute) and q is None:
                v = self.ev(fn.value, nid)
                if v is not None:
                    if any(self.touches(a, nid) for a in e.args) or any(self.touches(k.value, nid) for k in e.keywords):
                        raise self.unknown(e)
                    if fn.attr == 'replace' and not e.args:
                        micro = [k for k in e.keywords if k.arg == 'microsecond']
                        if any(k.arg in ('year', 'month', 'day', 'hour', 'minute', 'second', 'fold') for k in e.keywords):
                            raise self.unknown(e, 'replaces a calendar field')
                        if not micro:
                            return v
                        if isinstance(micro[0].value, ast.Constant) and micro[0].value.value == 0:
                            return v.to('floor', '.replace(microsecond=0) drops the fraction', e)
                        raise self.unknown(e, 'sets the microsecond to something else than 0')
                    if fn.attr in DT_NEUTRAL_METHODS and not e.keywords and len(e.args) <= 1:
                        return v
            raise self.unknown(e)
        if isinstance(e, ast.IfExp):
            a, b = self.ev(e.body, nid), self.ev(e.orelse, nid)
            if a is None or b is None or a.key() != b.key() or self.touches(e.test, nid):
                raise self.unknown(e)
            return a
        raise self.unknown(e)


def r9_validator_whole_seconds(run):
    """The instant that StaticRoute.__call__ emits as Last-Modified and the one
    it compares with If-Modified-Since are the file's mtime TRUNCATED to whole
    seconds (`.replace(microsecond=0)`, int / math.floor / math.trunc, `// 1`),
    both read from the same stat result.  An HTTP date has no sub-second part:
    a client echoes floor(mtime), so an untruncated value makes the file look
    newer than its own validator, and a rounded one (round, math.ceil, + 0.5)
    names a second in the future of the file.
    W: mtime = 1736617934.75: Last-Modified says ...:15 and
    If-Modified-Since: <...:14> (what any other cache derived from the same
    file) gets 200 with the full body instead of 304."""
    p = run.project
    f = p.func(CALL)
    cfg = cfg_of(f, p)
    run.use_cfg(cfg)
    params = f.params()
    if len(params) < 3:
        raise AnchorError('StaticRoute.__call__ signature')
    req, resp = params[1], params[2]
    rd = _MtimeReader(p, f)
    rw = ('a file with mtime fraction >= 0.5 s: Last-Modified names the next second, and If-Modified-Since: floor(mtime) '
          'is answered 200 with the body instead of 304')

    def judge(tv: Optional[_TimeVal], what, node_ast, where_node):
        if tv is None:
            raise UnknownIdiom('%s: %s is not computed from the file\'s st_mtime' % (CALL, short(node_ast, 90)))
        wit = ['read from %s' % tv.source] + (['%s: %s' % (short(tv.node, 80), tv.why)] if tv.node is not None else ['the sub-second part is kept'])
        run.check(tv.frac == 'floor', what, f, tv.node if (tv.node is not None and tv.frac != 'floor') else node_ast, where=f.loc(where_node),
                  witness=wit, runtime_witness=rw)

    # (a) the emitted validator
    stores = [n for n in cfg.live_nodes() if n.kind == 'stmt' and isinstance(n.ast, ast.Assign)
              and any(dotted(t) == resp + '.last_modified' for t in n.ast.targets)]
    if not stores:
        raise AnchorError('%s never stores %s.last_modified' % (CALL, resp))
    emitted = []
    for n in stores:
        tv = rd.ev(n.ast.value, n.id)
        judge(tv, 'Last-Modified is the file\'s mtime truncated (not rounded, not raw) to whole seconds', n.ast, n.ast)
        emitted.append(tv)

    # (b) the compared instant
    def is_ims(e, nid, seen=()):
        if isinstance(e, ast.Attribute) and e.attr == 'if_modified_since' and isinstance(e.value, ast.Name) and e.value.id == req:
            return True
        if isinstance(e, ast.Call) and isinstance(e.func, ast.Attribute) and e.func.attr in DT_NEUTRAL_METHODS and not e.keywords:
            return is_ims(e.func.value, nid, seen)
        if isinstance(e, ast.Name):
            ds = [d for d in rd.rd.at(nid, e.id) if d.idx not in seen]
            # (a definition `x = None` only withdraws the header; it does not make x something else)
            real = [d for d in ds if not (d.kind == 'assign' and isinstance(d.value, ast.Constant) and d.value.value is None)]
            return bool(real) and all(d.kind == 'assign' and is_ims(d.value, d.node, tuple(seen) + (d.idx,)) for d in real)
        return False

    n_cmp = 0
    for n in cfg.live_nodes():
        if n.kind != 'test':
            continue
        for c in walk_self(n.ast):
            if not (isinstance(c, ast.Compare) and len(c.ops) == 1):
                continue
            a, b = c.left, c.comparators[0]
            sides = [(a, b), (b, a)]
            for (x, y) in sides:
                if not is_ims(x, n.id):
                    continue
                if isinstance(y, ast.Constant) and y.value is None:
                    break
                if not isinstance(c.ops[0], (ast.Lt, ast.LtE, ast.Gt, ast.GtE, ast.Eq, ast.NotEq)):
                    raise UnknownIdiom('%s: If-Modified-Since is used in %s' % (CALL, short(c)))
                if not rd.touches(y, n.id):
                    clk = reads_clock(p, f, y, (rd.rd, n.id))
                    if clk is not None:
                        run.fail('If-Modified-Since is compared with the file\'s mtime only: the server\'s clock is no part of the validator comparison',
                                 f, c, where=f.loc(c), witness=['%s reads the current time' % short(clk)],
                                 runtime_witness='If-Modified-Since later than the server clock on an unmodified file: 200 with the full body instead of 304')
                        break
                tv = rd.ev(y, n.id)
                n_cmp += 1
                judge(tv, 'the instant compared with If-Modified-Since is the file\'s mtime truncated (not rounded, not raw) to whole seconds', c, c)
                run.check(any(tv.source == e.source for e in emitted), 'the instant compared with If-Modified-Since is read from the same stat result as the '
                          'emitted Last-Modified', f, '%s [source]' % short(c), where=f.loc(c), witness=['compared: %s' % tv.source] + ['emitted: %s' % e.source for e in emitted],
                          runtime_witness='the 304 decision is taken for another file\'s time than the Last-Modified handed out')
                break
    if not n_cmp:
        raise AnchorError('%s: no comparison of the file time with %s.if_modified_since' % (CALL, req))


# ---------------------------------------------------------------------------
# R10
# ---------------------------------------------------------------------------

RANGE_OWNERS = ('falcon.request.Request', 'falcon.asgi.request.Request')
SPLITTERS = {'partition', 'rpartition', 'split', 'rsplit'}
_STR_TO_STR = {'strip', 'lstrip', 'rstrip', 'lower', 'upper', 'casefold', 'replace', 'zfill', 'removeprefix', 'removesuffix', 'ljust', 'rjust', 'format', 'join',
               'title', 'capitalize', 'swapcase', 'expandtabs', 'center', 'translate'}
_TO_NUMBER = {'builtins.int', 'builtins.float', 'builtins.len', 'builtins.ord', 'builtins.round', 'builtins.hash', 'math.floor', 'math.ceil', 'math.trunc'}
_SAME_TYPE = {'builtins.abs', 'builtins.min', 'builtins.max'}
ORDERING = (ast.Lt, ast.LtE, ast.Gt, ast.GtE)


class _BoundTyper:
    """For an expression of `Request.range`: which of the two bound texts
    ('F' = before the "-", 'L' = after it) it is computed from, and whether its
    value is a NUMBER ('num': int()/float()/len() of something, numeric
    constants, arithmetic on numbers) or still TEXT ('str': the pieces of
    partition()/split(), str methods, slices and concatenations of text).
    Through locals by may-reaching definitions; None = not decided."""

    def __init__(self, p, f: Func):
        from .c15_helpers import reaching
        self.p, self.f = p, f
        self.rd = reaching(p, f)
        self.cfg = self.rd.cfg
        self.pieces: Dict[int, Dict[str, str]] = {}      # def idx -> role
        for d in self.rd.defs:
            if d.kind != 'unpack' or d.node is None:
                continue
            st = self.cfg.node(d.node).ast
            tg = st.targets[0] if isinstance(st, ast.Assign) and len(st.targets) == 1 else getattr(st, 'target', None)
            v = st.value
            if not (isinstance(tg, (ast.Tuple, ast.List)) and isinstance(v, ast.Call) and isinstance(v.func, ast.Attribute) and v.func.attr in SPLITTERS
                    and v.args and isinstance(v.args[0], ast.Constant) and v.args[0].value == '-'):
                continue
            names = [x.id if isinstance(x, ast.Name) else None for x in tg.elts]
            want = 3 if v.func.attr in ('partition', 'rpartition') else 2
            if len(names) != want:
                raise UnknownIdiom('%s: %s does not unpack into %d names' % (f.qual, short(st, 80), want))
            if d.name == names[0]:
                self.pieces[d.idx] = 'F'
            elif d.name == names[-1]:
                self.pieces[d.idx] = 'L'
            else:
                self.pieces[d.idx] = 'sep'
        if not any(r == 'F' for r in self.pieces.values()) or not any(r == 'L' for r in self.pieces.values()):
            raise AnchorError('%s: the two bound texts (`first, sep, last = <spec>.partition("-")`) were not found' % f.qual)

    def q(self, fexpr):
        return self.p.resolve_expr(self.f.module, fexpr, self.f)

    def _unpack_elt(self, d):
        """the element expression bound to d.name by `a, b = (x, y)`; else None"""
        st = self.cfg.node(d.node).ast
        tg = st.targets[0] if isinstance(st, ast.Assign) and len(st.targets) == 1 else getattr(st, 'target', None)
        v = st.value
        if isinstance(tg, (ast.Tuple, ast.List)) and isinstance(v, (ast.Tuple, ast.List)) and len(tg.elts) == len(v.elts) \
                and not any(isinstance(x, ast.Starred) for x in list(tg.elts) + list(v.elts)):
            for x, y in zip(tg.elts, v.elts):
                if isinstance(x, ast.Name) and x.id == d.name:
                    return y
        return None

    def roles(self, e, nid, seen=None) -> Set[str]:
        seen = set() if seen is None else seen
        out: Set[str] = set()
        for x in walk_self(e):
            if isinstance(x, ast.Name) and isinstance(x.ctx, ast.Load):
                for d in self.rd.at(nid, x.id):
                    if d.idx in seen:
                        continue
                    seen.add(d.idx)
                    if d.idx in self.pieces:
                        if self.pieces[d.idx] in ('F', 'L'):
                            out.add(self.pieces[d.idx])
                    elif d.kind == 'assign':
                        out |= self.roles(d.value, d.node, seen)
                    elif d.kind == 'unpack':
                        el = self._unpack_elt(d)
                        out |= self.roles(el if el is not None else d.value, d.node, seen)
                    elif d.kind == 'aug':
                        out |= self.roles(d.value.value, d.node, seen) | self.roles(ast.Name(id=x.id, ctx=ast.Load()), d.node, seen)
        return out

    def typ(self, e, nid, depth=0) -> Optional[str]:
        if depth > 12:
            return None
        if isinstance(e, ast.Constant):
            if isinstance(e.value, bool):
                return None
            if isinstance(e.value, (int, float)):
                return 'num'
            if isinstance(e.value, str):
                return 'str'
            return None
        if isinstance(e, ast.JoinedStr):
            return 'str'
        if isinstance(e, ast.UnaryOp) and isinstance(e.op, (ast.USub, ast.UAdd)):
            return 'num' if self.typ(e.operand, nid, depth + 1) == 'num' else None
        if isinstance(e, ast.BinOp):
            a, b = self.typ(e.left, nid, depth + 1), self.typ(e.right, nid, depth + 1)
            if a == b == 'num':
                return 'num'
            if isinstance(e.op, ast.Add) and a == b == 'str':
                return 'str'
            if isinstance(e.op, ast.Mult) and {a, b} == {'str', 'num'}:
                return 'str'
            if isinstance(e.op, ast.Mod) and a == 'str':
                return 'str'
            return None
        if isinstance(e, ast.IfExp):
            a, b = self.typ(e.body, nid, depth + 1), self.typ(e.orelse, nid, depth + 1)
            return a if a == b else None
        if isinstance(e, ast.Subscript):
            return 'str' if self.typ(e.value, nid, depth + 1) == 'str' else None
        if isinstance(e, ast.Call):
            q = self.q(e.func)
            if q in _TO_NUMBER:
                return 'num'
            if q == 'builtins.str':
                return 'str'
            if q in _SAME_TYPE and e.args and not e.keywords:
                ts = {self.typ(a, nid, depth + 1) for a in e.args}
                return ts.pop() if len(ts) == 1 else None
            if isinstance(e.func, ast.Attribute) and q is None and e.func.attr in _STR_TO_STR and self.typ(e.func.value, nid, depth + 1) == 'str':
                return 'str'
            return None
        if isinstance(e, ast.Name):
            ds = self.rd.at(nid, e.id)
            if not ds:
                return None
            ts = set()
            for d in ds:
                if d.idx in self.pieces:
                    ts.add('str')
                elif d.kind == 'assign':
                    ts.add(self.typ(d.value, d.node, depth + 1))
                elif d.kind == 'unpack':
                    el = self._unpack_elt(d)
                    if el is not None:
                        ts.add(self.typ(el, d.node, depth + 1))
                    else:
                        v = d.value
                        ts.add('str' if isinstance(v, ast.Call) and isinstance(v.func, ast.Attribute) and v.func.attr in SPLITTERS else None)
                elif d.kind == 'aug':
                    a = d.value
                    # x op= y keeps x's kind when y has it (the earlier definitions of x are in `ds` or upstream of this one)
                    ts.add(self.typ(a.value, d.node, depth + 1))
                else:
                    ts.add(None)
            return ts.pop() if len(ts) == 1 else None
        return None


def r10_range_bounds_numeric(run):
    """`Request.range` hands `_set_range` a pair (first, last) with
    first <= last for a first-last spec (the static route computes
    length = last - first + 1 from it without looking again).  That ordering
    is established by comparing the two bounds AS NUMBERS: every ordering
    comparison (< <= > >=) that involves a bound of the Range spec has only
    int()-converted operands (results of int(), locals bound from them,
    numeric constants) - never the text pieces of the partition, whose
    lexicographic order differs from the numeric one as soon as the digit
    counts differ.  W: Range: bytes=10-9 ('9' < '10' is False) is accepted:
    206 with Content-Range 10-9 / a negative length; bytes=2-10 is answered 400."""
    p = run.project
    funcs: List[Func] = []
    for cq in RANGE_OWNERS:
        p.cls(cq)
        g = p.lookup_method(cq, 'range')
        if g is None:
            raise AnchorError('%s.range not found' % cq)
        if g not in funcs:
            funcs.append(g)
    rw = 'Range: bytes=10-9 is accepted ("9" < "10" is false as text): 206 with Content-Range 10-9/N or a negative read length; bytes=2-10 is refused with 400'
    for f in funcs:
        ty = _BoundTyper(p, f)
        run.use_cfg(ty.cfg)
        n_pair = 0
        for n in ty.cfg.live_nodes():
            for c in n.walk():
                if not isinstance(c, ast.Compare):
                    continue
                operands = [c.left] + list(c.comparators)
                for i, op in enumerate(c.ops):
                    if not isinstance(op, ORDERING):
                        continue
                    a, b = operands[i], operands[i + 1]
                    ra, rb = ty.roles(a, n.id), ty.roles(b, n.id)
                    if not (ra | rb):
                        continue
                    ta, tb = ty.typ(a, n.id), ty.typ(b, n.id)
                    pair = ast.Compare(left=a, ops=[op], comparators=[b])
                    if (ra and rb) and (ra | rb) == {'F', 'L'}:
                        n_pair += 1
                    text = [short(x) for (x, t, r) in ((a, ta, ra), (b, tb, rb)) if t == 'str' and r]
                    if not text and (ta is None or tb is None):
                        raise UnknownIdiom('%s: %s orders a bound of the Range spec against a value whose type (number / text) the rule cannot read'
                                           % (f.qual, short(pair)))
                    run.check(not text, 'every ordering comparison on the bounds of a Range spec is between int()-converted values, never between the text pieces '
                              '(text order differs from numeric order when the digit counts differ)', f, pair, where=f.loc(c),
                              witness=['%s is still the text of the header (bound from the partition at "-", not converted)' % x for x in text] or None,
                              runtime_witness=rw)
        if not n_pair:
            raise AnchorError('%s: no ordering comparison between the first and the last bound of a first-last Range spec' % f.qual)


# ---------------------------------------------------------------------------
# R11
# ---------------------------------------------------------------------------

WSGI_REQ_INIT = 'falcon.request.Request.__init__'
CHARS_PATTERN = '_DISALLOWED_CHARS_PATTERN'
# PATH_INFO as a WSGI server hands it over (PEP 3333: the raw bytes decoded as ISO-8859-1)
UNDECODABLE_PATHS = (
    '/static/caf\xe9.txt',             # b'caf\xe9.txt': a Latin-1 respelling of "caf\u00e9.txt", not valid UTF-8
    '/static/na\xefve/\xfcber.css',
    '/static/\xc3\x28/\xa0\xa1.bin',  # a lead byte without its continuation byte, stray continuation bytes
)
DECODABLE_PATHS = (
    '/static/caf\xc3\xa9.txt',         # UTF-8 "caf\u00e9.txt" tunnelled through ISO-8859-1
    '/static/\xe2\x82\xac/\xf0\x9f\x98\x80.bin',
    '/static/plain-ascii.txt',
)


def _is_pattern_attr(e):
    return (isinstance(e, ast.Attribute) and e.attr == CHARS_PATTERN and isinstance(e.value, ast.Name) and e.value.id in ('self', 'cls', 'StaticRoute'))


_SEARCH_METHODS = ('search', 'findall', 'finditer')


def _pattern_search_pred(f: Func):
    """is_search(e) for function f: e is `<pattern>.search(...)` (findall / finditer likewise), the pattern being the class attribute itself or
    a local of f bound ONCE to it (`pat = self._DISALLOWED_CHARS_PATTERN`), or a call of a local bound once to its bound method
    (`search = self._DISALLOWED_CHARS_PATTERN.search`)."""
    stores: Dict[str, int] = {}
    for x in walk_self(f.node):
        if isinstance(x, ast.Name) and isinstance(x.ctx, (ast.Store, ast.Del)):
            stores[x.id] = stores.get(x.id, 0) + 1
    pats, searches = set(), set()
    for st in walk_self(f.node):
        if isinstance(st, ast.Assign) and len(st.targets) == 1 and isinstance(st.targets[0], ast.Name) and stores.get(st.targets[0].id) == 1 \
                and st.targets[0].id not in f.params():
            if _is_pattern_attr(st.value):
                pats.add(st.targets[0].id)
            elif isinstance(st.value, ast.Attribute) and st.value.attr in _SEARCH_METHODS and _is_pattern_attr(st.value.value):
                searches.add(st.targets[0].id)

    def is_search(e):
        if not isinstance(e, ast.Call):
            return False
        if isinstance(e.func, ast.Name):
            return e.func.id in searches
        return (isinstance(e.func, ast.Attribute) and e.func.attr in _SEARCH_METHODS
                and (_is_pattern_attr(e.func.value) or (isinstance(e.func.value, ast.Name) and e.func.value.id in pats)))

    results = {st.targets[0].id for st in walk_self(f.node) if isinstance(st, ast.Assign) and len(st.targets) == 1 and isinstance(st.targets[0], ast.Name)
               and stores.get(st.targets[0].id) == 1 and st.targets[0].id not in f.params() and is_search(st.value)}

    def outcome(e):
        return is_search(e) or (isinstance(e, ast.Name) and e.id in results)        # the match object / list itself, or a local bound once to it

    def is_none(e):
        return isinstance(e, ast.Constant) and e.value is None

    def found(e):       # an expression that is true exactly when the pattern found something
        if outcome(e):
            return True
        if isinstance(e, ast.Compare) and len(e.ops) == 1 and isinstance(e.ops[0], (ast.IsNot, ast.NotEq)):
            return (outcome(e.left) and is_none(e.comparators[0])) or (is_none(e.left) and outcome(e.comparators[0]))
        return isinstance(e, ast.Call) and isinstance(e.func, ast.Name) and e.func.id == 'bool' and len(e.args) == 1 and not e.keywords and outcome(e.args[0])

    def not_found(e):
        if isinstance(e, ast.Compare) and len(e.ops) == 1 and isinstance(e.ops[0], (ast.Is, ast.Eq)):
            return (outcome(e.left) and is_none(e.comparators[0])) or (is_none(e.left) and outcome(e.comparators[0]))
        return False

    def nothing_found(test, truth):
        """Does `test` having the outcome `truth` establish that the pattern found NOTHING?"""
        r = implied(test, truth, found)
        if r is None:
            r2 = implied(test, truth, not_found)
            r = None if r2 is None else (not r2)
        return r is False

    is_search.nothing_found = nothing_found
    return is_search


def _consults_pattern(p, g: Func, depth=0) -> bool:
    """g (or a same-class / same-module helper it calls, two levels) mentions the disallowed-characters pattern."""
    if any(isinstance(x, ast.Attribute) and x.attr == CHARS_PATTERN for x in walk_self(g.node)):
        return True
    if depth >= 2:
        return False
    for c in walk_self(g.node):
        if isinstance(c, ast.Call):
            h = _own_helper(p, g, c)
            if h is not None and h is not g and _consults_pattern(p, h, depth + 1):
                return True
    return False


def _own_helper(p, f: Func, call: ast.Call) -> Optional[Func]:
    """The callee of `call` when it is a plain (synchronous, non-generator) method of f's own class reached through
    self / cls, or a module-level function of f's module."""
    fn = call.func
    if not (isinstance(fn, ast.Name) or (isinstance(fn, ast.Attribute) and isinstance(fn.value, ast.Name) and fn.value.id in ('self', 'cls'))):
        return None
    g = p.callee(f, call)
    if not isinstance(g, Func) or g.is_async or g.module is not f.module or g.parent is not None:
        return None
    if isinstance(fn, ast.Attribute) and (g.cls is None or f.cls is None or p.is_subclass(f.cls.qual, g.cls.qual) is not True):
        return None
    if any(isinstance(x, (ast.Yield, ast.YieldFrom)) for x in walk_self(g.node)):
        return None
    return g


def _pattern_gates(p, f: Func, cfg, is_src, src_text: str, depth=0):
    """(gate edges, number of pattern searches read): the CFG edges of f behind which the disallowed-characters pattern
    has found nothing in a text derived from the source (`is_src(node)`: the node IS the source -- `req.path` in the
    responder, a parameter handed such a text in a helper):
      * the branch edges on which `<pattern>.search(x)` is false (`... is None`, a local bound once to the match likewise), x derived
        from the source (anything else: unknown idiom);
      * the normal out-edges of a statement that calls a helper of the same class / module with an argument derived from
        the source, when EVERY normal return of that helper lies behind a gate edge of its own (k2-c16-2: the
        sanitisation block moved unmodified into StaticRoute._resolve_path, which hands back the file path).  A helper
        that returns normally around its own test contributes no gate: the way through it is then a way around the test."""
    from .c15_helpers import reaching
    rdefs = reaching(p, f)

    def derived(a, nid):
        if a is None:
            return False
        if isinstance(a, ast.Name):
            ds = rdefs.at(nid, a.id) if nid is not None else []
            return bool(ds) and all((d.kind == 'param' and is_src(a))
                                    or (d.kind == 'assign' and d.value is not None and any(is_src(x) for x in walk_self(d.value))) for d in ds)
        return any(is_src(x) for x in walk_self(a))

    is_search = _pattern_search_pred(f)
    gates = [(n.id, y, l) for n in cfg.live_nodes() if n.kind == 'test' for (y, l) in cfg.succ[n.id]
             if l in ('T', 'F') and is_search.nothing_found(n.ast, l == 'T')]
    uses = [x for n in cfg.live_nodes() for x in n.walk() if is_search(x)]
    for u in uses:
        a = u.args[0] if len(u.args) == 1 and not u.keywords else None
        if not derived(a, rdefs.cfg_node(u)):
            raise UnknownIdiom('%s: %s is not applied to a local computed from %s' % (f.qual, short(u), src_text))
    n_uses = len(uses)
    if depth >= 2:
        return gates, n_uses
    for n in cfg.live_nodes():
        for c in n.calls():
            g = _own_helper(p, f, c)
            if g is None or g is f or not _consults_pattern(p, g):
                continue
            if any(isinstance(a, ast.Starred) for a in c.args) or any(k.arg is None for k in c.keywords) or g.node.args.vararg or g.node.args.kwarg:
                raise UnknownIdiom('%s: argument passing of %s (a helper that consults %s) not understood' % (f.qual, short(c), CHARS_PATTERN))
            names = [x for x in g.params() if x not in ('self', 'cls')] if g.cls is not None else list(g.params())
            bound = dict(zip(names, c.args))
            bound.update({k.arg: k.value for k in c.keywords})
            src_params = {nm for nm, a in bound.items() if derived(a, n.id)}
            if not src_params:
                raise UnknownIdiom('%s: %s consults %s but is not handed a text computed from %s' % (f.qual, short(c), CHARS_PATTERN, src_text))
            gcfg = cfg_of(g, p)
            sub, k = _pattern_gates(p, g, gcfg, lambda x: isinstance(x, ast.Name) and x.id in src_params, 'its parameter ' + '/'.join(sorted(src_params)), depth + 1)
            n_uses += k
            if k and flow.find_path(gcfg, [gcfg.entry], [gcfg.exit], avoid_edges=sub) is None:
                gates += [(n.id, y, l) for (y, l) in cfg.succ[n.id] if l != 'exc']
    return gates, n_uses


def r11_undecodable_path_replaced(run):
    """The static route decides on text: its sanitisation sees `req.path`, not the
    bytes the client sent.  Two halves of one dependency:
    (a) `StaticRoute.__call__` rejects (404) every remainder in which
        `_DISALLOWED_CHARS_PATTERN` finds a character, and that pattern finds
        U+FFFD - no path reaches `_open_file(<requested path>)` around the test;
    (b) the WSGI `Request.__init__`, evaluated concretely on PATH_INFO samples
        whose bytes are not valid UTF-8, stores a `self.path` that the pattern of
        (a) rejects (every undecodable byte became U+FFFD), on every way through
        the constructor; a sample that IS valid UTF-8 is stored as its decoding.
    A constructor that keeps the ISO-8859-1 characters (strict decode + `except:
    pass`), drops the bytes (errors='ignore') or raises lets a request whose bytes
    name no file in the directory open another file / fail.
    W: GET /static/caf%E9.txt as raw byte 0xE9, directory holding only
    b'caf\xc3\xa9.txt': 200 with that file's content instead of 404."""
    import re as _re

    p = run.project
    f = p.func(CALL)
    cfg = cfg_of(f, p)
    run.use_cfg(cfg)
    # (a) the pattern and its guard
    c, val = p.lookup_class_attr(MOD + '.StaticRoute', CHARS_PATTERN)
    if val is None:
        raise AnchorError('StaticRoute.%s not found' % CHARS_PATTERN)
    if not (isinstance(val, ast.Call) and p.resolve_expr(c.module, val.func, None) == 're.compile' and val.args):
        raise UnknownIdiom('StaticRoute.%s is not re.compile(<constant>): %s' % (CHARS_PATTERN, short(val)))
    src = p.fold(c.module, val.args[0], c, None)
    flags = 0
    for extra in list(val.args[1:]) + [k.value for k in val.keywords]:
        fl = p.resolve_expr(c.module, extra, None)
        if fl not in ('re.UNICODE', 're.U', 're.DOTALL', 're.S'):
            raise UnknownIdiom('StaticRoute.%s: flags %s' % (CHARS_PATTERN, short(extra)))
    if not isinstance(src, str):
        raise UnknownIdiom('StaticRoute.%s: the pattern does not fold to a string' % CHARS_PATTERN)
    try:
        pat = _re.compile(src, flags)
    except _re.error as exc:
        raise UnknownIdiom('StaticRoute.%s: %s' % (CHARS_PATTERN, exc))
    run.check(pat.search('\ufffd') is not None, 'the disallowed-characters pattern of the static route finds U+FFFD (what an undecodable request byte is turned into)',
              MOD + '.StaticRoute', '%s = %s' % (CHARS_PATTERN, short(val, 100)), where='%s:%s' % (c.module.relpath, val.lineno),
              runtime_witness='a request path with bytes that are not UTF-8 passes the sanitisation as "caf\ufffd.txt" and is looked up on disk')

    params = f.params()
    req = params[1]
    clean, n_uses = _pattern_gates(p, f, cfg, lambda x: dotted(x) == req + '.path', req + '.path')
    if not n_uses:
        if any(isinstance(x, ast.Attribute) and x.attr == CHARS_PATTERN for x in walk_self(f.node)):
            raise UnknownIdiom('%s: %s is used otherwise than by .search(<remainder>) in a test' % (CALL, CHARS_PATTERN))
        raise AnchorError('%s does not consult %s' % (CALL, CHARS_PATTERN))
    sinks = [n.id for n in cfg.live_nodes() for cl in n.calls()
             if isinstance(p.callee(f, cl), Func) and p.callee(f, cl).qual == OPEN and not (cl.args and is_self_attr(cl.args[0], FALLBACK))]
    if not sinks:
        raise AnchorError('%s does not call _open_file' % CALL)
    for sk in sorted(set(sinks)):
        path = flow.find_path(cfg, [cfg.entry], [sk], avoid_edges=clean)
        run.check(path is None, 'every way to open the requested path crosses a branch on which the disallowed-characters pattern found nothing in the remainder',
                  f, cfg.node(sk).ast, where='%s:%s' % (f.file, cfg.node(sk).lineno), witness=flow.describe_path(cfg, path) if path else None,
                  runtime_witness='control characters / U+FFFD / reserved characters in the requested name reach io.open')
    # (b) the WSGI constructor on undecodable and decodable PATH_INFO samples
    g = p.func(WSGI_REQ_INIT)
    gcfg = cfg_of(g, p)
    run.use_cfg(gcfg)
    evl = CtorPathEval(p, g, gcfg, 'path', 'PATH_INFO')
    rw = ("GET /static/caf\\xe9.txt (one Latin-1 byte, not UTF-8) with only b'caf\\xc3\\xa9.txt' on disk: the static route opens that file and answers 200 "
          'instead of 404')
    for sample, decodable in [(x, False) for x in UNDECODABLE_PATHS] + [(x, True) for x in DECODABLE_PATHS]:
        outs = evl.run(sample)
        if not evl.raw_read:
            raise AnchorError('%s does not read %s[%r] on the way to self.path' % (g.qual, evl.envp, 'PATH_INFO'))
        if not outs or any(o[0] == 'nostore' for o in outs):
            raise UnknownIdiom('%s: a way through the constructor stores no self.path' % g.qual)
        want = sample.encode('iso-8859-1').decode('utf-8') if decodable else None
        for kind, v, node in outs:
            cons = 'self.path for PATH_INFO=%s' % ascii(sample)
            where = g.loc(node) if node is not None else g.loc()
            if kind == 'raised':
                run.fail('the WSGI request constructor accepts every PATH_INFO (an undecodable path is a 404 of the static route, not an error)', g,
                         '%s raises %s' % (cons, (v or 'an exception').rsplit('.', 1)[-1]), where=where,
                         witness=['%s raises %s for this sample' % (short(node), v)] if node is not None else None, runtime_witness=rw)
                continue
            if v is UNK or not isinstance(v, str):
                raise UnknownIdiom('%s: the value stored by `%s` for PATH_INFO=%s is computed by constructs the evaluator does not read'
                                   % (g.qual, short(node), ascii(sample)))
            if decodable:
                run.check(v == want, 'a PATH_INFO that tunnels valid UTF-8 (or ASCII) is stored as its UTF-8 decoding', g, cons, where=where,
                          witness=['stored: %s' % ascii(v), 'expected: %s' % ascii(want)],
                          runtime_witness='a file with a non-ASCII name cannot be requested by its own name (404), or another file is served')
                continue
            rejected = pat.search(v) is not None or '\ufffd' in v     # (that the pattern finds U+FFFD is obligation (a))
            if not rejected and not (set(v) <= set(sample)):
                raise UnknownIdiom('%s: PATH_INFO=%s is stored as %s - neither replaced by U+FFFD nor kept / dropped; the rule has no verdict for this '
                                   'error policy' % (g.qual, ascii(sample), ascii(v)))
            run.check(rejected, 'a PATH_INFO whose bytes are not valid UTF-8 is stored with the undecodable bytes replaced by U+FFFD, which '
                      'the static route\'s disallowed-characters pattern rejects (they are neither kept as ISO-8859-1 characters nor dropped)', g, cons,
                      where=where, witness=['stored: %s' % ascii(v), 'by %s' % short(node), '%s.search(...) finds nothing' % CHARS_PATTERN], runtime_witness=rw)


# ---------------------------------------------------------------------------
# R13 the range unit is the WHOLE text before the first '=' (added after seeded
# change s9-c16-1: a fast path `if value.startswith('bytes'): return 'bytes'`)
# ---------------------------------------------------------------------------
# StaticRoute.__call__ honours a Range header only when `req.range_unit` is
# 'bytes'; "other units" must be served the complete file.  So every value
# Request.range_unit returns is either
#   * the unit read off the header: element 0 of `<value>.partition('=')` /
#     `<value>.split('=' ...)[0]` / the slice `<value>[:<value>.index('=')]`,
#     handed out unchanged, or
#   * a constant C on a branch where a test has established that the header's
#     unit IS C: `<value>.startswith(K)` with every alternative of K carrying the
#     separator (`K = C + '=' + ...`), `<value> == K` likewise, `<unit> == C`.
# A constant returned behind a partial-text test - a prefix test without the
# separator (`startswith('bytes')`), a substring test (`'bytes' in value`), a
# prefix test on the unit - or behind no test of the header at all reports C for
# units that merely begin with / contain C: a violation.  `rpartition` /
# `rsplit` read the text before the LAST '='.  Anything else: unknown idiom.

REQUEST = 'falcon.request.Request'
_RANGE_HEADER = ('range', 'http_range')
_R13_RW = ("Range: bytesx=1-3 (a unit that merely begins with 'bytes'): the static route answers 206 with a slice (or 416) instead of 200 with the whole file")


class _RangeUnit:
    def __init__(self, run, f: Func):
        self.run, self.p, self.f = run, run.project, f
        self.cfg = cfg_of(f, self.p)
        run.use_cfg(self.cfg)
        self.defs: Dict[str, list] = {}
        for n in walk_no_nested(f.node):
            if isinstance(n, ast.Assign):
                for t in n.targets:
                    self._bind(t, n.value)
            elif isinstance(n, ast.AnnAssign) and n.value is not None:
                self._bind(n.target, n.value)
            elif isinstance(n, ast.NamedExpr):
                self._bind(n.target, n.value)
            elif isinstance(n, (ast.AugAssign, ast.For, ast.With)):
                for x in ast.walk(n.target if not isinstance(n, ast.With) else ast.Tuple(elts=[i.optional_vars for i in n.items if i.optional_vars is not None])):
                    if isinstance(x, ast.Name):
                        self.defs.setdefault(x.id, []).append(('other', n))

    def _bind(self, t, value):
        if isinstance(t, ast.Name):
            self.defs.setdefault(t.id, []).append(('assign', value))
        elif isinstance(t, (ast.Tuple, ast.List)):
            for i, e in enumerate(t.elts):
                for x in ast.walk(e):
                    if isinstance(x, ast.Name):
                        self.defs.setdefault(x.id, []).append(('unpack', i, value, len(t.elts), isinstance(e, ast.Name)))

    # ---- roles
    def is_value(self, e, depth=0) -> bool:
        """`e` is the raw Range header value."""
        if depth > 4:
            return False
        if isinstance(e, ast.Call) and isinstance(e.func, ast.Attribute) and e.func.attr in ('get_header', 'get') and e.args \
                and isinstance(e.args[0], ast.Constant) and isinstance(e.args[0].value, str) and e.args[0].value.lower() in _RANGE_HEADER:
            return True
        if isinstance(e, ast.Subscript) and isinstance(e.slice, ast.Constant) and isinstance(e.slice.value, str) and e.slice.value.lower() in _RANGE_HEADER:
            return True
        if isinstance(e, ast.Name) and e.id not in self.f.params():
            ds = self.defs.get(e.id, [])
            return bool(ds) and all(d[0] == 'assign' and self.is_value(d[1], depth + 1) for d in ds)
        return False

    def _split(self, e):
        """(method, separator) when `e` is `<value>.partition / split / rpartition / rsplit(<const> ...)`."""
        if isinstance(e, ast.Call) and isinstance(e.func, ast.Attribute) and e.func.attr in ('partition', 'split', 'rpartition', 'rsplit') \
                and e.args and self.is_value(e.func.value):
            sep = self.p.fold(self.f.module, e.args[0], func=self.f)
            if not isinstance(sep, str):
                raise UnknownIdiom('%s: separator of `%s` is not a constant' % (self.f.qual, short(e)))
            return e.func.attr, sep
        return None

    def unit_kind(self, e, depth=0) -> Optional[str]:
        """'first' = the text before the first '=', 'last' = before the last '=' (rpartition / rsplit), None = something else."""
        if depth > 4:
            return None
        if isinstance(e, ast.Subscript) and isinstance(e.slice, ast.Constant) and e.slice.value == 0:
            sp = self._split(e.value)
            if sp is not None:
                return self._kind(sp, e)
        if isinstance(e, ast.Subscript) and isinstance(e.slice, ast.Slice) and self.is_value(e.value) and e.slice.step is None and e.slice.upper is not None \
                and (e.slice.lower is None or (isinstance(e.slice.lower, ast.Constant) and e.slice.lower.value == 0)):
            # `<value>[:<value>.index('=')]` (k2-c16-3): str.index gives the position of the FIRST occurrence (and raises when there is
            # none), rindex that of the last; a position held in a local bound once is that position
            up = e.slice.upper
            if isinstance(up, ast.Name) and up.id not in self.f.params():
                ds = self.defs.get(up.id, [])
                up = ds[0][1] if len(ds) == 1 and ds[0][0] == 'assign' else up
            if isinstance(up, ast.Call) and isinstance(up.func, ast.Attribute) and up.func.attr in ('index', 'rindex') and len(up.args) == 1 and not up.keywords \
                    and self.is_value(up.func.value):
                return self._kind(('partition' if up.func.attr == 'index' else 'rpartition', self._sep(up.args[0], up)), e)
        if isinstance(e, ast.Name) and e.id not in self.f.params():
            ds = self.defs.get(e.id, [])
            kinds = set()
            for d in ds:
                if d[0] == 'assign':
                    kinds.add(self.unit_kind(d[1], depth + 1))
                elif d[0] == 'unpack' and d[1] == 0 and d[4]:
                    sp = self._split(d[2])
                    kinds.add(self._kind(sp, d[2]) if sp is not None else None)
                else:
                    kinds.add(None)
            if len(kinds) == 1:
                return kinds.pop()
        return None

    def _sep(self, arg, where):
        sep = self.p.fold(self.f.module, arg, func=self.f)
        if not isinstance(sep, str):
            raise UnknownIdiom('%s: separator of `%s` is not a constant' % (self.f.qual, short(where)))
        return sep

    def _kind(self, sp, where):
        meth, sep = sp
        if sep != '=':
            raise UnknownIdiom('%s: `%s` splits the Range header on %r, not on "="' % (self.f.qual, short(where), sep))
        return 'first' if meth in ('partition', 'split') else 'last'

    def mentions_header(self, e) -> bool:
        return any(self.is_value(x) or self.unit_kind(x) is not None for x in ast.walk(e) if isinstance(x, (ast.Name, ast.Call, ast.Subscript)))

    # ---- tests in front of a constant return
    def _alts(self, k):
        v = self.p.fold(self.f.module, k, func=self.f)
        if isinstance(v, str):
            return [v]
        if isinstance(v, (tuple, list)) and v and all(isinstance(x, str) for x in v):
            return list(v)
        return None

    def classify(self, atom, truth, const):
        """What does `atom` being `truth` say about "the unit is `const`"?  'proves' | 'partial' | None (says nothing) | 'unknown'."""
        a = atom
        if isinstance(a, ast.Call) and isinstance(a.func, ast.Attribute) and a.func.attr in ('startswith', 'endswith') and len(a.args) >= 1:
            recv = a.func.value
            on_value, on_unit = self.is_value(recv), self.unit_kind(recv) is not None
            if not (on_value or on_unit):
                return None
            alts = self._alts(a.args[0])
            if alts is None or len(a.args) > 1 or a.func.attr == 'endswith':
                return 'unknown'
            if not truth:
                return None
            if on_value and all('=' in k and k.partition('=')[0] == const for k in alts):
                return 'proves'
            return 'partial'
        if isinstance(a, ast.Compare) and len(a.ops) == 1:
            l, r, op = a.left, a.comparators[0], a.ops[0]
            if isinstance(op, (ast.Is, ast.IsNot)):
                return None                 # presence of the header
            for x, y in ((l, r), (r, l)):
                k = self._alts(y) if isinstance(op, (ast.Eq, ast.NotEq)) else None
                if isinstance(op, (ast.Eq, ast.NotEq)) and k is not None and len(k) == 1 and (self.is_value(x) or self.unit_kind(x) is not None):
                    if truth != isinstance(op, ast.Eq):
                        return None
                    if self.unit_kind(x) == 'first':
                        return 'proves' if k[0] == const else 'unknown'
                    if self.is_value(x):
                        return 'proves' if '=' in k[0] and k[0].partition('=')[0] == const else 'unknown'
                    return 'unknown'
            if isinstance(op, (ast.In, ast.NotIn)) and self.is_value(r):
                k = self._alts(l)
                if k is None or len(k) != 1:
                    return 'unknown'
                if truth != isinstance(op, ast.In):
                    return None             # absence of a text: says nothing about the unit
                if k[0] == '=':
                    return None             # the separator is present: says nothing about which unit
                return 'partial'
            if self.mentions_header(a):
                return 'unknown'
            return None
        if isinstance(a, (ast.Name, ast.Call, ast.Subscript, ast.Attribute)):
            if self.is_value(a) or self.unit_kind(a) is not None:
                return None                 # truthiness: non-empty
            if self.mentions_header(a):
                return 'unknown'
        return None

    def atoms(self, e):
        e2 = e
        if isinstance(e2, ast.UnaryOp) and isinstance(e2.op, ast.Not):
            yield from self.atoms(e2.operand)
        elif isinstance(e2, ast.BoolOp):
            for v in e2.values:
                yield from self.atoms(v)
        else:
            yield e2

    def const_return(self, r: ast.Return, const: str):
        cfg = self.cfg
        nids = cfg.nodes_for(r)
        if not nids:
            raise UnknownIdiom('%s: `%s` not found in the control-flow graph' % (self.f.qual, short(r)))
        verdicts, unknown, seen_tests = [], [], []
        for t in cfg.live_nodes():
            if t.kind != 'test':
                continue
            for (b, lab) in cfg.succ[t.id]:
                if lab not in ('T', 'F'):
                    continue
                if not all(flow.dominated_by_edge(cfg, nid, (t.id, b, lab)) for nid in nids):
                    continue
                for a in self.atoms(t.ast):
                    tr = implied(t.ast, lab == 'T', lambda x, a=a: x is a)
                    if tr is None:
                        if self.mentions_header(a) and self.classify(a, True, const) is not None:
                            unknown.append(a)       # a header test whose outcome on this branch is not determined
                        continue
                    c = self.classify(a, tr, const)
                    if c == 'unknown':
                        unknown.append(a)
                    elif c is not None:
                        verdicts.append((c, a))
                        seen_tests.append(a)
        what = ("Request.range_unit reports the constant unit %r only where the header's unit - the whole text before the first '=' - is known to be %r "
                "(a test that includes the separator, e.g. startswith(%r)); the static route slices the file only for that unit" % (const, const, const + '='))
        if any(c == 'proves' for c, _a in verdicts):
            self.run.ok(what, self.f.loc(r), short(r))
            return
        partial = [a for c, a in verdicts if c == 'partial']
        if partial:
            self.run.fail(what + ': the only test in front of it is a partial-text test', self.f, partial[0], where=self.f.loc(partial[0]),
                          witness=['`%s` is reached when `%s`' % (short(r), short(partial[0]))], runtime_witness=_R13_RW)
            return
        if unknown:
            raise UnknownIdiom('%s: `%s` is returned behind a test of the Range header the rule does not read: `%s`' % (self.f.qual, short(r), short(unknown[0])))
        self.run.fail(what + ': no test of the header value stands in front of it', self.f, r, where=self.f.loc(r), runtime_witness=_R13_RW)

    def analyse(self):
        f = self.f
        rets = [n for n in walk_no_nested(f.node) if isinstance(n, ast.Return)]
        n_unit = 0
        for r in rets:
            vals = [r.value]
            if isinstance(r.value, ast.IfExp):
                raise UnknownIdiom('%s: conditional expression in `%s`' % (f.qual, short(r)))
            for v in vals:
                if v is None or (isinstance(v, ast.Constant) and v.value is None):
                    continue
                cv = self.p.fold(f.module, v, func=f) if not (isinstance(v, ast.Name) and v.id in self.defs) else UNKNOWN
                if isinstance(cv, str):
                    self.const_return(r, cv)
                    continue
                k = self.unit_kind(v)
                what = "Request.range_unit is the whole text before the FIRST '=' of the Range header value (partition / split on '=', element 0, unchanged)"
                if k == 'first':
                    n_unit += 1
                    self.run.ok(what, f.loc(r), short(r))
                elif k == 'last':
                    n_unit += 1
                    self.run.fail(what, f, r, where=f.loc(r), runtime_witness="Range: bytes=0-1=2 reports the unit 'bytes=0-1'")
                else:
                    raise UnknownIdiom('%s: `%s` is not recognisably the text before the first "=" of the Range header' % (f.qual, short(r)))
        if n_unit == 0:
            raise AnchorError('%s: no return of the unit read off the header' % f.qual)


def r13_range_unit_whole(run):
    """Request.range_unit is the whole text before the first '=' of the Range header; a constant shortcut is guarded by a test
    that includes the separator.  Runtime witness: `Range: bytesx=1-3` must be ignored by the static route (200, whole file)."""
    p = run.project
    done = {}
    for tag, cq in (('WSGI', REQUEST), ('ASGI', 'falcon.asgi.request.Request')):
        g = p.lookup_method(cq, 'range_unit')
        if g is None:
            raise AnchorError('%s.range_unit not found' % cq)
        if g.qual in done:
            run.ok('%s Request.range_unit is inherited unchanged from the %s flavour' % (tag, done[g.qual]), g.loc(), '%s.range_unit' % cq)
            continue
        done[g.qual] = tag
        run.use(g)
        _RangeUnit(run, g).analyse()
    # the consumer: the static route honours the Range header only for the unit 'bytes', compared whole
    c = p.func(CALL)
    run.use(c)
    what = "StaticRoute.__call__ honours the Range header only when the unit equals 'bytes' (whole-text comparison)"
    binds = {}
    for n in walk_no_nested(c.node):
        if isinstance(n, ast.Assign) and len(n.targets) == 1 and isinstance(n.targets[0], ast.Name):
            binds.setdefault(n.targets[0].id, []).append(n.value)

    def is_unit(e):
        if isinstance(e, ast.Attribute) and e.attr == 'range_unit':
            return True
        if isinstance(e, ast.BoolOp) and isinstance(e.op, ast.Or):
            rest = [v for v in e.values if not (isinstance(v, ast.Constant) and v.value in ('', None))]
            return len(rest) == 1 and is_unit(rest[0])
        return isinstance(e, ast.Name) and e.id not in c.params() and bool(binds.get(e.id)) and all(is_unit(v) for v in binds[e.id])

    parents = {}
    for n in walk_no_nested(c.node):
        for ch in ast.iter_child_nodes(n):
            parents[id(ch)] = n
    uses = [n for n in walk_no_nested(c.node) if isinstance(n, (ast.Name, ast.Attribute)) and isinstance(n.ctx, ast.Load) and is_unit(n)]
    reads_range = [n for n in walk_no_nested(c.node) if isinstance(n, ast.Attribute) and n.attr == 'range' and isinstance(n.ctx, ast.Load)]
    if not reads_range:
        raise AnchorError('%s: no read of <req>.range' % CALL)
    n_tests = 0
    for u in uses:
        par = parents.get(id(u))
        while isinstance(par, ast.BoolOp) and isinstance(par.op, ast.Or) and all(
                v is u or (isinstance(v, ast.Constant) and v.value in ('', None)) for v in par.values):
            u, par = par, parents.get(id(par))          # `<unit> or ''`: the same text, '' when the header is missing
        if isinstance(par, ast.Assign) and u is par.value:
            continue                    # alias, followed by is_unit
        if isinstance(par, ast.Compare) and len(par.ops) == 1:
            other = par.comparators[0] if par.left is u else par.left
            k = p.fold(c.module, other, func=c)
            op = par.ops[0]
            if isinstance(op, (ast.Eq, ast.NotEq)) and isinstance(k, str):
                n_tests += 1
                run.check(k == 'bytes', what, c, par, where=c.loc(par), runtime_witness="Range: items=0-1 / Range: byte=0-1 is answered with a slice of the file")
                continue
            if isinstance(op, (ast.In, ast.NotIn)) and par.left is u and isinstance(k, (tuple, list, frozenset, set)) and k:
                n_tests += 1
                run.check(all(x == 'bytes' for x in k), what, c, par, where=c.loc(par), runtime_witness='Range: items=0-1 is answered with a slice of the file')
                continue
            if isinstance(op, (ast.In, ast.NotIn)) and par.comparators[0] is u and isinstance(k, str):
                n_tests += 1
                run.fail(what + ': substring test', c, par, where=c.loc(par), runtime_witness=_R13_RW)
                continue
        if isinstance(par, ast.Attribute) and par.attr in ('startswith', 'endswith') and isinstance(parents.get(id(par)), ast.Call):
            n_tests += 1
            run.fail(what + ': partial-text test', c, parents[id(par)], where=c.loc(par), runtime_witness=_R13_RW)
            continue
        raise UnknownIdiom('%s: the range unit is used in `%s`, which the rule does not read' % (CALL, short(par) if par is not None else short(u)))
    if n_tests == 0:
        run.fail(what + ': the unit is never consulted although <req>.range is read', c, reads_range[0], where=c.loc(reads_range[0]),
                 runtime_witness='Range: items=0-1 is answered with a slice of the file')


# ---------------------------------------------------------------------------
# R14 a suffix range selects at least one byte
# ---------------------------------------------------------------------------

def r14_suffix_range_is_negative(run):
    """`Request.range` hands the static route (first, last); `_set_range` tells the suffix form `-N` ("the last N bytes")
    from `first-` only by first < 0 (the assumption stated in check()).  So on the branch of the parser where nothing
    stands in front of the "-", every pair that is RETURNED has a strictly negative first member - for every numeric
    spelling of the text behind the "-", partitioned into the cells {no sign, "+", "-"} x {zero, positive}: `-0` / `-00`
    select no byte and must be refused (they raise today: 400), `--5` likewise; the plain `-N` with N > 0 is accepted.
    Decided by abstract evaluation of the branch over the sign domain (c16_helpers.SuffixBranchEval), whatever the
    shape of the guard (post-conversion `first_num >= 0`, `int(last) <= 0`, ...).
    W: Range: bytes=-0 is answered 206 with Content-Range 0-(size-1)/size and the whole file (the pair (0, -1) is the
    pair of `bytes=0-`)."""
    from .c16_helpers import SUFFIX_CELLS, SignInt, SuffixBranchEval
    p = run.project
    funcs: List[Func] = []
    for cq in RANGE_OWNERS:
        p.cls(cq)
        g = p.lookup_method(cq, 'range')
        if g is None:
            raise AnchorError('%s.range not found' % cq)
        if g not in funcs:
            funcs.append(g)
    rw = 'Range: bytes=-0 on a 16-byte file: 206 Partial Content, Content-Range: bytes 0-15/16 and all 16 bytes (expected: the 400 of a range that selects nothing)'
    for f in funcs:
        cfg = cfg_of(f, p)
        run.use_cfg(cfg)
        split = None
        for n in cfg.live_nodes():
            st = n.ast if n.kind == 'stmt' else None
            if not (isinstance(st, ast.Assign) and len(st.targets) == 1 and isinstance(st.targets[0], (ast.Tuple, ast.List))):
                continue
            v = st.value
            if isinstance(v, ast.Call) and isinstance(v.func, ast.Attribute) and v.func.attr in ('partition', 'split') and v.args \
                    and isinstance(v.args[0], ast.Constant) and v.args[0].value == '-' and all(isinstance(x, ast.Name) for x in st.targets[0].elts):
                names = [x.id for x in st.targets[0].elts]
                want = 3 if v.func.attr == 'partition' else 2
                if len(names) != want or (want == 2 and not (len(v.args) == 2 and isinstance(v.args[1], ast.Constant) and v.args[1].value == 1)):
                    raise UnknownIdiom('%s: %s is not read as (first, [sep,] last)' % (f.qual, short(st, 80)))
                if split is not None:
                    raise UnknownIdiom('%s: the range spec is split at "-" more than once' % f.qual)
                split = (n, names)
        if split is None:
            raise AnchorError('%s: the statement that splits the range spec at "-" (`first, sep, last = <spec>.partition("-")`) was not found' % f.qual)
        node, names = split
        nxt = [y for (y, l) in cfg.succ[node.id] if l != 'exc']
        if len(nxt) != 1:
            raise UnknownIdiom('%s: control flow behind %s' % (f.qual, short(node.ast, 60)))
        accepted = {}
        for cell in SUFFIX_CELLS:
            env = {names[0]: '', names[-1]: cell}
            if len(names) == 3:
                env[names[1]] = '-'
            outs = SuffixBranchEval(p, f, cfg, nxt[0], env).run()
            bad, unsure, good = [], [], []
            for kind, val, st, und in outs:
                if kind != 'return':
                    continue
                first = val[0] if isinstance(val, tuple) and len(val) == 2 else None
                neg = (isinstance(first, SignInt) and first.sign == 'neg') or (isinstance(first, int) and not isinstance(first, bool) and first < 0)
                known = isinstance(first, SignInt) or (isinstance(first, int) and not isinstance(first, bool))
                if neg:
                    good.append((st, und))
                elif known and not und:
                    bad.append((first, st))
                else:
                    unsure.append((first, st, und))
            accepted[(cell.lead, cell.mag)] = bool(good) and not any(u for _s, u in good)
            if unsure and not bad:
                first, st, und = unsure[0]
                raise UnknownIdiom('%s: for %s the parser may return through `%s` with a first member of %r%s, which the sign domain does not decide'
                                   % (f.qual, cell.label(), short(st) if st is not None else 'the end of the function', first,
                                      ' (undecided: %s)' % '; '.join(und) if und else ''))
            what = ('Range suffix form, text behind the "-" %s: every pair the parser returns has a strictly negative first member (`-N` is the last N bytes, '
                    'N > 0; a suffix of length zero and a doubly signed one are refused)' % cell.label())
            if bad:
                for first, st in bad:
                    run.fail(what, f, '%s [%s]' % (short(st) if st is not None else 'end of function', cell.label()), where=f.loc(st) if st is not None else f.loc(),
                             witness=['%s: first member %r' % (cell.label(), first)], runtime_witness=rw)
            else:
                run.ok(what, f.loc(), '%s: suffix cell %s/%s' % (f.name, cell.lead, cell.mag))
        run.check(accepted.get(('digit', 'pos'), False), 'Range suffix form `-N` with N > 0 (no sign of its own) is accepted on a path the evaluation decides completely',
                  f, 'suffix range -N accepted', where=f.loc(node.ast),
                  runtime_witness='Range: bytes=-5 is answered 400 instead of 206 with the last five bytes')


def check(run):
    run.assume('POSIX path semantics: os.path.sep == "/"; os.path.normpath leaves ".." only as leading components; '
               'os.path.join(D, x) == D + "/" + x for relative x (trusted base of the containment lemma)')
    run.assume('no symlinks below the served directory (excluded by the property)')
    run.assume('os.stat_result.st_size is non-negative')
    run.assume('Request.range yields (first, last) with last == -1 for open-ended and suffix ranges, first < 0 only for suffix ranges, and first <= last otherwise '
               '(the decision table is C09 R6; that the ordering test is numeric is R10 here)')
    run.rule('R1', r1_containment, 'containment lemma at every _open_file sink', floor=3)
    run.rule('R2', r2_ownership, 'only _open_file opens files; only __call__ calls it; configured paths written only by __init__', floor=9)
    run.rule('R3', r3_range, 'range conservation in _set_range and _BoundedFile.read', floor=28)
    run.rule('R4', r4_status, '304 / 206 / 200 wiring in StaticRoute.__call__', floor=9)
    # which static route serves a path: most recently registered matching prefix (shared with C02)
    from . import c02 as _c02

    run.rule('R5', _c02.r2_recency, 'static routes are consulted newest-first in both option modes and are never dropped by a later registration '
             '(shared with C02 R2)', floor=10)
    # the 304 decision compares the file's mtime with If-Modified-Since as read by http_date_to_dt: neither side may go
    # through the process-local time zone (shared with C09 R4)
    from . import c09 as _c09

    run.rule('R7', _c09.localtime_sweep, 'HTTP dates are read and written as UTC, never through the process-local zone (shared with C09 R4)', floor=1)
    run.rule('R6', _c02.r7_static_prefix, 'static route matching uses only the normalised prefix (shared with C02 R7)', floor=1)
    run.rule('R8', r8_opened_is_proved, 'the string opened inside _open_file is its parameter unchanged (the value the containment lemma was proved for)', floor=1)
    run.rule('R9', r9_validator_whole_seconds, 'Last-Modified and the instant compared with If-Modified-Since are the mtime truncated to whole seconds', floor=3)
    run.rule('R10', r10_range_bounds_numeric, 'Request.range orders the bounds of a Range spec as int()-converted numbers, never as the text pieces '
             '(establishes first <= last, which _set_range relies on)', floor=1)
    run.assume('ASGI: scope["path"] is decoded by the server (ASGI spec: percent-decoded, UTF-8 with undecodable bytes replaced)')
    run.rule('R11', r11_undecodable_path_replaced, 'undecodable request-path bytes reach the static route as U+FFFD, which its disallowed-characters test '
             'rejects (WSGI constructor evaluated on sample PATH_INFO values)', floor=8)
    # the 206 / 416 / 400 decisions of the static route start from the (first, last) pair Request.range hands out: which specs are accepted, with which
    # offsets, is the Range decision table (shared with C09 R6)
    run.rule('R12', _c09.r6_range, 'Range decision table: first-last / first- / -suffix offsets, a one-byte range is valid (shared with C09 R6)', floor=10)
    run.rule('R13', r13_range_unit_whole, "Request.range_unit is the whole text before the first '=' (a constant shortcut only behind a test that includes the "
             "separator) and the static route compares it whole with 'bytes'", floor=3)
    run.rule('R14', r14_suffix_range_is_negative, 'Request.range: on the suffix branch (nothing in front of the "-") every returned pair has first < 0 for every numeric '
             'spelling of the suffix length - sign cells {none, +, -} x {zero, positive}; `-0` is refused, `-N` is accepted', floor=7)
