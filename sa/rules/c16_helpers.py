"""Helpers for C16.

* path facts for the containment lemma (R1): a forward must-dataflow over the
  CFG of ``StaticRoute.__call__``;
* a small linear symbolic evaluator (DESIGN appendix A.4) used to enumerate
  the acyclic paths of ``_set_range`` / ``_BoundedFile.read`` (R3).
"""

from __future__ import annotations

import ast
import copy
from typing import Dict, FrozenSet, List, Optional, Set, Tuple

from .. import flow
from ..cfg import CFG, Node
from ..model import AnchorError, Class, Func, Project, UNKNOWN, UnknownIdiom, dotted, short
from .common import is_self_attr, walk_self

SEP = '/'  # POSIX path semantics are assumed (stated in the evidence)


# ---------------------------------------------------------------------------
# constant folding with os.path.sep
# ---------------------------------------------------------------------------

class _SepSubst(ast.NodeTransformer):
    def __init__(self, project, module, func):
        self.p, self.m, self.f = project, module, func

    def visit_Attribute(self, node):
        q = self.p.resolve_expr(self.m, node, self.f)
        if q in ('os.path.sep', 'os.sep', 'posixpath.sep'):
            return ast.copy_location(ast.Constant(SEP), node)
        return self.generic_visit(node)


def fold_path_const(p: Project, func: Func, expr):
    """Fold a str / tuple-of-str constant, reading os.path.sep as '/'.
    `self.X` / `cls.X` are looked up as class attributes."""
    import copy

    cls = func.cls
    mod = func.module
    if isinstance(expr, ast.Attribute) and isinstance(expr.value, ast.Name) and expr.value.id in ('self', 'cls') and cls is not None:
        c, val = p.lookup_class_attr(cls.qual, expr.attr)
        if val is None:
            return UNKNOWN
        expr, mod, cls = val, c.module, c
        func = None
    tree = _SepSubst(p, mod, func).visit(copy.deepcopy(expr))
    ast.fix_missing_locations(tree)
    return p.fold(mod, tree, cls, func)


# ---------------------------------------------------------------------------
# R1 path facts
# ---------------------------------------------------------------------------

def _resolves(p: Project, func: Func, fexpr, names) -> bool:
    q = p.resolve_expr(func.module, fexpr, func)
    return q in names


NORMPATH = {'os.path.normpath', 'posixpath.normpath'}
JOINPATH = {'os.path.join', 'posixpath.join'}
ISABS = {'os.path.isabs', 'posixpath.isabs'}


class PathFacts:
    """Must-facts about path-valued locals of one function.

    NORM(x)   x is the result of os.path.normpath
    REL(x)    x does not start with the separator (is not absolute)
    NOLEAD(x) x does not start with '..' + separator
    NODD(x)   x does not contain the substring '..'
    NOTDD(x)  x != '..'
    JOIN(p,x) p == os.path.join(self.<dirattr>, x)
    """

    UNARY = ('NORM', 'REL', 'NOLEAD', 'NODD', 'NOTDD', 'SAFE')
    IGNORED_CALLEES: Set[str] = set()  # sinks etc.: their results are not paths

    def __init__(self, project: Project, func: Func, cfg: CFG, dirattr: str, depth: int = 0):
        self.p = project
        self.func = func
        self.cfg = cfg
        self.dirattr = dirattr
        self.depth = depth
        self._summaries: Dict[str, Tuple[Set[str], Dict[int, Set[str]]]] = {}
        self.opaque: Set[str] = set()  # locals produced/validated by a helper that could not be summarised
        self.IN = flow.forward(cfg, self.transfer, frozenset(), must=True)

    # ---- helper summaries (one level of same-package helpers)
    def summary(self, g: Func):
        """(fact kinds of the returned value, param index -> fact kinds that
        hold for the argument after a normal return) of a helper."""
        if g.qual in self._summaries:
            return self._summaries[g.qual]
        res: Tuple[Set[str], Dict[int, Set[str]]] = (set(), {})
        self._summaries[g.qual] = res  # recursion guard
        if self.depth >= 2 or g.is_async:
            self._summaries[g.qual] = None
            return None
        from ..cfg import cfg_of

        gcfg = cfg_of(g, self.p)
        sub = PathFacts(self.p, g, gcfg, self.dirattr, self.depth + 1)
        ret_kinds: Optional[Set[str]] = None
        for n in gcfg.live_nodes():
            if n.kind == 'stmt' and isinstance(n.ast, ast.Return):
                kinds: Set[str] = set()
                v = n.ast.value
                if isinstance(v, ast.Name):
                    facts = sub.IN[n.id]
                    kinds = {f[0] for f in facts if len(f) == 2 and f[1] == v.id}
                    if sub.safe(facts, v.id)[0]:
                        kinds.add('SAFE')
                ret_kinds = kinds if ret_kinds is None else (ret_kinds & kinds)
        params = g.params()
        stores = {x.id for x in walk_self(g.node) if isinstance(x, ast.Name) and isinstance(x.ctx, (ast.Store, ast.Del))}
        after: Dict[int, Set[str]] = {}
        exit_facts = sub.IN.get(gcfg.exit, frozenset()) if gcfg.exit in gcfg.reachable_ids else frozenset()
        for i, nm in enumerate(params):
            if nm in stores:
                continue
            ks = {f[0] for f in exit_facts if len(f) == 2 and f[1] == nm}
            if ks:
                after[i] = ks
        self.opaque |= set()  # (sub.opaque concerns the helper's own locals)
        if sub.opaque:
            self._summaries[g.qual] = None
            return None
        res = (ret_kinds or set(), after)
        self._summaries[g.qual] = res
        return res

    def _helper(self, call: ast.Call):
        """(Func, positional argument list as seen by the callee) or None."""
        g = self.p.resolve_callable(self.func, call.func)
        if not isinstance(g, Func):
            return None
        if call.keywords or any(isinstance(a, ast.Starred) for a in call.args):
            return (g, None)
        args = list(call.args)
        if isinstance(call.func, ast.Attribute) and isinstance(call.func.value, ast.Name) and call.func.value.id in ('self', 'cls'):
            args = [call.func.value] + args
        return g, args

    # ---- generation on branch edges
    def edge_facts(self, test, truth: bool) -> Set[tuple]:
        out: Set[tuple] = set()
        self._edge(test, truth, out)
        return out

    def _edge(self, e, t: bool, out: Set[tuple]):
        if isinstance(e, ast.BoolOp):
            if isinstance(e.op, ast.Or) and not t:
                for v in e.values:
                    self._edge(v, False, out)
            elif isinstance(e.op, ast.And) and t:
                for v in e.values:
                    self._edge(v, True, out)
            return
        if isinstance(e, ast.UnaryOp) and isinstance(e.op, ast.Not):
            self._edge(e.operand, not t, out)
            return
        if isinstance(e, ast.Call):
            f = e.func
            if isinstance(f, ast.Attribute) and f.attr == 'startswith' and isinstance(f.value, ast.Name) and len(e.args) == 1 and not e.keywords:
                if t:
                    return
                v = fold_path_const(self.p, self.func, e.args[0])
                if isinstance(v, str):
                    v = (v,)
                if not isinstance(v, tuple) or not all(isinstance(s, str) for s in v):
                    return  # not a constant prefix set (e.g. startswith(self._directory)): no fact
                x = f.value.id
                for s in v:
                    if s == SEP:
                        out.add(('REL', x))
                    elif s == '..' + SEP:
                        out.add(('NOLEAD', x))
                    elif s == '..':
                        out.add(('NOLEAD', x))
                        out.add(('NOTDD', x))
                return
            if _resolves(self.p, self.func, f, ISABS) and len(e.args) == 1 and isinstance(e.args[0], ast.Name):
                if not t:
                    out.add(('REL', e.args[0].id))
                return
            return
        if isinstance(e, ast.Compare) and len(e.ops) == 1:
            op, a, b = e.ops[0], e.left, e.comparators[0]
            if isinstance(op, (ast.In, ast.NotIn)) and isinstance(a, ast.Constant) and a.value == '..' and isinstance(b, ast.Name):
                if t == isinstance(op, ast.NotIn):
                    out.add(('NODD', b.id))
                return
            if isinstance(op, (ast.Eq, ast.NotEq)):
                for x, y in ((a, b), (b, a)):
                    if isinstance(x, ast.Name) and isinstance(y, ast.Constant) and y.value == '..':
                        if t == isinstance(op, ast.NotEq):
                            out.add(('NOTDD', x.id))
                return

    # ---- transfer
    @staticmethod
    def _kill(facts: FrozenSet, names) -> Set[tuple]:
        names = set(names)
        return {f for f in facts if not (set(f[1:]) & names)}

    def _targets(self, t) -> List[str]:
        return [n.id for n in ast.walk(t) if isinstance(n, ast.Name)]

    def transfer(self, node: Node, facts: FrozenSet, label: str) -> FrozenSet:
        if label == 'exc':
            return facts
        k = node.kind
        if k == 'test':
            if label in ('T', 'F'):
                return frozenset(set(facts) | self.edge_facts(node.ast, label == 'T'))
            return facts
        if k == 'iter':
            return frozenset(self._kill(facts, self._targets(node.stmt.target)))
        if k == 'with':
            names = []
            for it in node.stmt.items:
                if it.optional_vars is not None:
                    names += self._targets(it.optional_vars)
            return frozenset(self._kill(facts, names))
        if k == 'handler':
            return frozenset(self._kill(facts, [node.ast.name])) if node.ast.name else facts
        if k != 'stmt':
            return facts
        s = node.ast
        if isinstance(s, (ast.Assign, ast.AnnAssign)):
            targets = s.targets if isinstance(s, ast.Assign) else [s.target]
            value = s.value
            names = []
            for t in targets:
                names += self._targets(t) if not isinstance(t, ast.Attribute) else []
            out = self._kill(facts, names)
            if value is not None and len(targets) == 1 and isinstance(targets[0], ast.Name):
                out |= self._gen(targets[0].id, value, facts)
            return frozenset(out)
        if isinstance(s, ast.AugAssign):
            return frozenset(self._kill(facts, self._targets(s.target)))
        if isinstance(s, ast.Delete):
            names = []
            for t in s.targets:
                names += self._targets(t)
            return frozenset(self._kill(facts, names))
        if isinstance(s, (ast.Import, ast.ImportFrom)):
            return frozenset(self._kill(facts, [(a.asname or a.name).split('.')[0] for a in s.names]))
        if isinstance(s, (ast.Global, ast.Nonlocal)):
            raise UnknownIdiom('%s: global/nonlocal declaration' % self.func.qual)
        if isinstance(s, ast.Expr) and isinstance(s.value, ast.Call):
            h = self._helper(s.value)
            if h is not None and h[0].qual not in self.IGNORED_CALLEES:
                g, args = h
                sm = self.summary(g) if args is not None else None
                if sm is None:
                    self.opaque |= {x.id for a in list(s.value.args) + [k.value for k in s.value.keywords] for x in ast.walk(a) if isinstance(x, ast.Name)}
                    return facts
                out = set(facts)
                for i, ks in sm[1].items():
                    if i < len(args) and isinstance(args[i], ast.Name):
                        out |= {(k, args[i].id) for k in ks}
                return frozenset(out)
        return facts

    def _gen(self, t: str, value, facts: FrozenSet) -> Set[tuple]:
        out: Set[tuple] = set()
        if isinstance(value, ast.Name):
            y = value.id
            if y == t:
                return {f for f in facts}  # x = x
            for f in facts:
                if len(f) == 2 and f[1] == y:
                    out.add((f[0], t))
                elif f[0] == 'JOIN' and f[1] == y and f[2] != t:
                    out.add(('JOIN', t, f[2]))
            return out
        if isinstance(value, ast.Call):
            fn = value.func
            if _resolves(self.p, self.func, fn, NORMPATH) and len(value.args) == 1 and not value.keywords:
                out.add(('NORM', t))
                return out
            if _resolves(self.p, self.func, fn, JOINPATH) and len(value.args) == 2 and not value.keywords:
                a, b = value.args
                if is_self_attr(a, self.dirattr) and isinstance(b, ast.Name) and b.id != t:
                    out.add(('JOIN', t, b.id))
                return out
            h = self._helper(value)
            if h is not None and h[0].qual not in self.IGNORED_CALLEES:
                sm = self.summary(h[0]) if h[1] is not None else None
                if sm is None:
                    self.opaque.add(t)
                else:
                    out |= {(k, t) for k in sm[0]}
        return out

    # ---- lemma
    def safe(self, facts: FrozenSet, pvar: str) -> Tuple[bool, List[str]]:
        """(lemma established for p, explanation of what is missing)."""
        if ('SAFE', pvar) in facts:
            return True, []
        joins = [f[2] for f in facts if f[0] == 'JOIN' and f[1] == pvar]
        if not joins:
            return False, ['%s is not known to be os.path.join(self.%s, <relative part>)' % (pvar, self.dirattr)]
        why: List[str] = []
        for x in joins:
            missing = []
            if ('REL', x) not in facts:
                missing.append('%s may be absolute (no guard rejects a leading separator)' % x)
            nodd = ('NODD', pvar) in facts or ('NODD', x) in facts
            strict = ('NORM', x) in facts and ('NOLEAD', x) in facts and ('NOTDD', x) in facts
            if not nodd and not strict:
                if ('NORM', x) not in facts:
                    missing.append('%s is not normalised and no guard rejects ".." in it' % x)
                else:
                    if ('NOLEAD', x) not in facts:
                        missing.append('normalised %s may start with "..%s" and no guard rejects ".." in the joined path' % (x, SEP))
                    if ('NOTDD', x) not in facts:
                        missing.append('normalised %s may equal ".." and no guard rejects ".." in the joined path' % x)
            if not missing:
                return True, []
            why += missing
        return False, why


# ---------------------------------------------------------------------------
# linear forms (R3)
# ---------------------------------------------------------------------------

class Lin:
    """sum(c_i * atom_i) + c0 with integer coefficients."""

    __slots__ = ('t',)

    def __init__(self, terms: Optional[Dict[str, int]] = None):
        self.t = {k: v for k, v in (terms or {}).items() if v != 0}

    @staticmethod
    def const(c: int) -> 'Lin':
        return Lin({'': c})

    @staticmethod
    def atom(a: str) -> 'Lin':
        return Lin({a: 1})

    def __add__(self, o: 'Lin') -> 'Lin':
        d = dict(self.t)
        for k, v in o.t.items():
            d[k] = d.get(k, 0) + v
        return Lin(d)

    def __neg__(self) -> 'Lin':
        return Lin({k: -v for k, v in self.t.items()})

    def __sub__(self, o: 'Lin') -> 'Lin':
        return self + (-o)

    def __eq__(self, o) -> bool:
        return isinstance(o, Lin) and self.t == o.t

    def __hash__(self):
        return hash(tuple(sorted(self.t.items())))

    def is_zero(self) -> bool:
        return not self.t

    def key(self) -> str:
        if not self.t:
            return '0'
        parts = []
        for k in sorted(self.t):
            c = self.t[k]
            if k == '':
                parts.append('%+d' % c)
            elif c == 1:
                parts.append('+' + k)
            elif c == -1:
                parts.append('-' + k)
            else:
                parts.append('%+d*%s' % (c, k))
        s = ''.join(parts)
        return s[1:] if s.startswith('+') else s

    def single_atom(self) -> Optional[str]:
        """The atom a if this form is exactly 1*a."""
        if len(self.t) == 1:
            (k, v), = self.t.items()
            if k != '' and v == 1:
                return k
        return None

    def __repr__(self):
        return 'Lin(%s)' % self.key()


NONE = ('none',)
SEEK_END = ('seek_end',)


def seek_position(args, size: 'Lin', call, where: str):
    """(absolute position, offset-from-the-end or None) of `fh.seek(*args)` over
    linear forms; any other argument shape is an unknown idiom."""
    if len(args) == 1 and isinstance(args[0], Lin):
        return args[0], None
    if len(args) == 2 and isinstance(args[0], Lin):
        off, wh = args
        if wh == SEEK_END or wh == Lin.const(2):
            return size + off, off
        if wh == Lin.const(0):
            return off, None
    raise UnknownIdiom('%s: seek arguments %s' % (where, short(call)))


class LinPath:
    def __init__(self):
        self.env: Dict[str, object] = {}
        self.conds: List[Tuple[str, 'Lin']] = []  # ('lt0'|'le0'|'ne0'|'eq0', lin): lin < 0 / <= 0 / != 0 / == 0
        self.raw_conds: List[str] = []
        self.events: List[tuple] = []
        self.outcome = None  # ('return', value) | ('raise', qual, [args]) | ('fall',)
        self.nodes: List[int] = []
        self.attrs: Dict[str, object] = {}
        self.nulls: Dict[str, bool] = {}  # atom -> known to be None (True) / known not to be None (False) on this path
        # every branch condition taken on this path, complete: a DNF (list of alternatives, each a list of
        # (kind, Lin) / ('null', atom, bool) atoms) or None when the test is not one the evaluator reads
        self.guards: List[Tuple[str, Optional[List[list]]]] = []

    def clone(self) -> 'LinPath':
        c = LinPath()
        c.env = dict(self.env)
        c.conds = list(self.conds)
        c.raw_conds = list(self.raw_conds)
        c.events = list(self.events)
        c.nodes = list(self.nodes)
        c.attrs = dict(self.attrs)
        c.nulls = dict(self.nulls)
        c.guards = list(self.guards)
        return c

    def implies_lt0(self, lin: Lin) -> bool:
        """Some recorded condition says lin < 0 (integers: lin + 1 <= 0)."""
        one = Lin.const(1)
        for kind, l in self.conds:
            if kind == 'lt0' and l == lin:
                return True
            if kind == 'le0' and l == lin + one:
                return True
        return False

    def implies_le0(self, lin: Lin) -> bool:
        one = Lin.const(1)
        for kind, l in self.conds:
            if kind in ('le0', 'lt0', 'eq0') and l == lin:
                return True
            if kind == 'lt0' and (l == lin + one or l == lin - one):    # integers: lin - 1 < 0  <=>  lin <= 0
                return True
            if kind == 'eq0' and l == -lin:
                return True
        return False

    def excludes_zero(self, lin: Lin) -> bool:
        """Some recorded condition excludes lin == 0 (given lin >= 0 is not assumed)."""
        for kind, l in self.conds:
            if kind == 'ne0' and (l == lin or l == -lin):
                return True
            if kind == 'lt0' and (l == -lin or l == lin):
                return True
            if kind == 'le0' and (l == Lin.const(1) - lin or l == Lin.const(1) + lin):
                return True
        return False


class LinExec:
    """Enumerates the acyclic non-exceptional CFG paths of a function and
    evaluates each over linear forms."""

    MAX_PATHS = 512

    def __init__(self, project: Project, func: Func, cfg: CFG, opaque_params=(), file_sizes=None):
        self.p = project
        self.func = func
        self.cfg = cfg
        # opaque parameter that is a seekable file -> linear form of its size
        self.file_sizes: Dict[str, Lin] = dict(file_sizes or {})
        self.minmax: Dict[str, Tuple[str, List[Lin]]] = {}
        self.paths: List[LinPath] = []
        self.opaque_params = set(opaque_params)

    def run(self) -> List[LinPath]:
        start = LinPath()
        for name in self.func.params():
            start.env[name] = ('obj', name) if name in self.opaque_params else Lin.atom(name)
        self._walk(self.cfg.entry, start, set())
        return self.paths

    # ---- traversal
    def _walk(self, nid: int, path: LinPath, onpath: Set[int]):
        if len(self.paths) > self.MAX_PATHS:
            raise UnknownIdiom('%s: more than %d paths' % (self.func.qual, self.MAX_PATHS))
        if nid in onpath:
            raise UnknownIdiom('%s: loop in a function expected to be loop-free' % self.func.qual)
        node = self.cfg.node(nid)
        path.nodes.append(nid)
        if nid == self.cfg.exit:
            if path.outcome is None:
                path.outcome = ('fall',)
            self.paths.append(path)
            return
        onpath = onpath | {nid}
        k = node.kind
        if k in ('iter',):
            raise UnknownIdiom('%s: loop' % self.func.qual)
        if k == 'test':
            if isinstance(node.stmt, ast.While):
                raise UnknownIdiom('%s: loop' % self.func.qual)
            for (y, l) in self.cfg.succ[nid]:
                if l not in ('T', 'F'):
                    continue
                p2 = path.clone()
                self._cond(node.ast, l == 'T', p2)
                self._walk(y, p2, onpath)
            return
        if k == 'stmt':
            s = node.ast
            if isinstance(s, (ast.Assign, ast.AnnAssign, ast.Return)) and s.value is not None and self._first_ifexp(s.value) is not None:
                self._split_ifexp(nid, s, path, onpath, node)
                return
            done = self._stmt(s, path)
            if done:
                self.paths.append(path)
                return
        self._continue(nid, path, onpath, node)

    @staticmethod
    def _first_ifexp(value):
        """(index in ast.walk order, node) of the outermost-first conditional expression of `value`."""
        stack_skip = set()
        for i, x in enumerate(ast.walk(value)):
            if isinstance(x, (ast.Lambda, ast.ListComp, ast.SetComp, ast.DictComp, ast.GeneratorExp)):
                stack_skip.update(id(y) for y in ast.walk(x))
            if isinstance(x, ast.IfExp) and id(x) not in stack_skip:
                return i, x
        return None

    def _split_ifexp(self, nid: int, s, path: LinPath, onpath: Set[int], node):
        """A statement whose value contains `a if c else b` (at any depth): one
        path per arm, the test recorded as a branch condition of that path."""
        hit = self._first_ifexp(s.value) if s.value is not None else None
        if hit is None:
            if self._stmt(s, path):
                self.paths.append(path)
            else:
                self._continue(nid, path, onpath, node)
            return
        idx, ie = hit
        for truth in (True, False):
            p2 = path.clone()
            if ie is s.value:
                test, arm = ie.test, (ie.body if truth else ie.orelse)
                s2 = ast.copy_location(type(s)(**{**{f: getattr(s, f) for f in s._fields}, 'value': arm}), s)
            else:
                s2 = copy.deepcopy(s)
                ie2 = list(ast.walk(s2.value))[idx]
                test, arm = ie2.test, (ie2.body if truth else ie2.orelse)

                class _Swap(ast.NodeTransformer):
                    def visit_IfExp(self, n):
                        return arm if n is ie2 else self.generic_visit(n)

                s2.value = _Swap().visit(s2.value)
            self._cond(test, truth, p2)
            self._split_ifexp(nid, s2, p2, onpath, node)

    def _continue(self, nid: int, path: LinPath, onpath: Set[int], node):
        nxt = [(y, l) for (y, l) in self.cfg.succ[nid] if l != 'exc']
        if not nxt:
            # a statement with only exceptional successors (should not happen for non-raise)
            self.paths.append(path)
            return
        if len(nxt) > 1:
            raise UnknownIdiom('%s: unexpected branching at %s' % (self.func.qual, node.text()))
        self._walk(nxt[0][0], path, onpath)

    # ---- conditions
    def _cond(self, e, truth: bool, path: LinPath):
        path.raw_conds.append(('%s' if truth else 'not (%s)') % short(e, 80))
        path.guards.append((path.raw_conds[-1], self._dnf(e, truth, path.clone())))
        if isinstance(e, ast.BoolOp):
            if (isinstance(e.op, ast.And) and truth) or (isinstance(e.op, ast.Or) and not truth):
                for v in e.values:
                    self._cond1(v, truth, path)
            return
        self._cond1(e, truth, path)

    def _cond1(self, e, truth: bool, path: LinPath):
        if isinstance(e, ast.UnaryOp) and isinstance(e.op, ast.Not):
            self._cond1(e.operand, not truth, path)
            return
        if isinstance(e, ast.BoolOp):
            if (isinstance(e.op, ast.And) and truth) or (isinstance(e.op, ast.Or) and not truth):
                for v in e.values:
                    self._cond1(v, truth, path)
            return
        if isinstance(e, ast.Compare) and len(e.ops) == 1:
            a = self.eval(e.left, path)
            b = self.eval(e.comparators[0], path)
            op = e.ops[0]
            if isinstance(op, (ast.Is, ast.IsNot, ast.Eq, ast.NotEq)) and (a is NONE) != (b is NONE):
                other = b if a is NONE else a
                at = other.single_atom() if isinstance(other, Lin) else None
                if at is not None:
                    path.nulls[at] = (truth == isinstance(op, (ast.Is, ast.Eq)))
                return
            if isinstance(op, (ast.Is, ast.IsNot)) or a is NONE or b is NONE:
                return
            if not (isinstance(a, Lin) and isinstance(b, Lin)):
                return
            d = a - b
            if isinstance(op, ast.Lt):
                path.conds.append(('lt0', d) if truth else ('le0', -d))
            elif isinstance(op, ast.LtE):
                path.conds.append(('le0', d) if truth else ('lt0', -d))
            elif isinstance(op, ast.Gt):
                path.conds.append(('lt0', -d) if truth else ('le0', d))
            elif isinstance(op, ast.GtE):
                path.conds.append(('le0', -d) if truth else ('lt0', d))
            elif isinstance(op, ast.Eq):
                path.conds.append(('eq0', d) if truth else ('ne0', d))
            elif isinstance(op, ast.NotEq):
                path.conds.append(('ne0', d) if truth else ('eq0', d))
            return
        v = self.eval(e, path) if isinstance(e, (ast.Name, ast.Attribute)) else None
        if isinstance(v, Lin):
            # truthiness of an integer
            path.conds.append(('ne0', v) if truth else ('eq0', v))

    def _dnf(self, e, truth: bool, scratch: LinPath) -> Optional[List[list]]:
        """The condition `e is truth` as a disjunction of conjunctions of linear
        atoms (the complete reading that `conds` lacks for `a or b`); None when
        some part is not a comparison of linear forms / a None test."""
        if isinstance(e, ast.UnaryOp) and isinstance(e.op, ast.Not):
            return self._dnf(e.operand, not truth, scratch)
        if isinstance(e, ast.BoolOp):
            parts = [self._dnf(v, truth, scratch) for v in e.values]
            if any(x is None for x in parts):
                return None
            if isinstance(e.op, ast.And) == truth:      # conjunction
                out = [[]]
                for alts in parts:
                    out = [a + b for a in out for b in alts]
                    if len(out) > 64:
                        return None
                return out
            return [a for alts in parts for a in alts]
        if isinstance(e, ast.Compare):
            if len(e.ops) > 1:      # a < b < c  ==  a < b and b < c
                pairs = []
                left = e.left
                for op, right in zip(e.ops, e.comparators):
                    pairs.append(ast.copy_location(ast.Compare(left=left, ops=[op], comparators=[right]), e))
                    left = right
                return self._dnf(ast.copy_location(ast.BoolOp(op=ast.And(), values=pairs), e), truth, scratch)
            a = self.eval(e.left, scratch)
            b = self.eval(e.comparators[0], scratch)
            op = e.ops[0]
            if isinstance(op, (ast.Is, ast.IsNot, ast.Eq, ast.NotEq)) and (a is NONE) != (b is NONE):
                other = b if a is NONE else a
                at = other.single_atom() if isinstance(other, Lin) else None
                if at is None:
                    return None
                return [[('null', at, truth == isinstance(op, (ast.Is, ast.Eq)))]]
            if not (isinstance(a, Lin) and isinstance(b, Lin)):
                return None
            d = a - b
            table = {ast.Lt: (('lt0', d), ('le0', -d)), ast.LtE: (('le0', d), ('lt0', -d)), ast.Gt: (('lt0', -d), ('le0', d)),
                     ast.GtE: (('le0', -d), ('lt0', d)), ast.Eq: (('eq0', d), ('ne0', d)), ast.NotEq: (('ne0', d), ('eq0', d))}
            row = table.get(type(op))
            if row is None:
                return None
            return [[row[0] if truth else row[1]]]
        v = self.eval(e, scratch) if isinstance(e, (ast.Name, ast.Attribute)) else None
        if isinstance(v, Lin):
            return [[('ne0', v) if truth else ('eq0', v)]]
        return None

    # ---- statements
    def _stmt(self, s, path: LinPath) -> bool:
        if isinstance(s, ast.Expr):
            if isinstance(s.value, ast.Constant):
                return False
            self.eval(s.value, path, effect=True)
            return False
        if isinstance(s, ast.Pass):
            return False
        if isinstance(s, (ast.Assign, ast.AnnAssign)):
            if isinstance(s, ast.AnnAssign):
                if s.value is None:
                    return False
                targets = [s.target]
            else:
                targets = s.targets
            v = self.eval(s.value, path, effect=True)
            for t in targets:
                self._assign(t, v, path, s)
            return False
        if isinstance(s, ast.AugAssign):
            cur = self.eval(s.target, path)
            rhs = self.eval(s.value, path)
            if isinstance(cur, Lin) and isinstance(rhs, Lin) and isinstance(s.op, (ast.Add, ast.Sub)):
                new = cur + rhs if isinstance(s.op, ast.Add) else cur - rhs
            else:
                new = ('opaque', short(s))
            self._assign(s.target, new, path, s)
            path.events.append(('aug', dotted(s.target) or short(s.target), type(s.op).__name__, rhs, s))
            return False
        if isinstance(s, ast.Return):
            path.outcome = ('return', self.eval(s.value, path, effect=True) if s.value is not None else NONE, s)
            return True
        if isinstance(s, ast.Raise):
            q = None
            args = []
            if s.exc is not None:
                e = s.exc.func if isinstance(s.exc, ast.Call) else s.exc
                q = self.p.resolve_expr(self.func.module, e, self.func) or short(e)
                if isinstance(s.exc, ast.Call):
                    args = [self.eval(a, path) for a in s.exc.args]
            path.outcome = ('raise', q, args, s)
            return True
        if isinstance(s, ast.Assert):
            return False
        raise UnknownIdiom('%s: statement %s in a range computation' % (self.func.qual, type(s).__name__))

    def _assign(self, t, v, path: LinPath, stmt):
        if isinstance(t, ast.Name):
            path.env[t.id] = v
            return
        if isinstance(t, ast.Tuple) and all(isinstance(e, ast.Name) for e in t.elts):
            if isinstance(v, tuple) and v and v[0] == 'tuple' and len(v[1]) == len(t.elts):
                for e, x in zip(t.elts, v[1]):
                    path.env[e.id] = x
                return
            base = v.single_atom() if isinstance(v, Lin) else (v[1] if isinstance(v, tuple) and v[0] == 'obj' else None)
            if base is None:
                raise UnknownIdiom('%s: unpacking of %s' % (self.func.qual, short(stmt)))
            for i, e in enumerate(t.elts):
                path.env[e.id] = Lin.atom('%s[%d]' % (base, i))
            path.nulls.setdefault(base, False)  # a value that unpacks is not None
            return
        d = dotted(t)
        if d is not None and isinstance(t, ast.Attribute):
            path.attrs[d] = v
            path.events.append(('setattr', d, v, stmt))
            return
        raise UnknownIdiom('%s: assignment target %s' % (self.func.qual, short(t)))

    # ---- expressions
    def eval(self, e, path: LinPath, effect=False):
        if isinstance(e, ast.Constant):
            if e.value is None:
                return NONE
            if isinstance(e.value, bool):
                return ('opaque', repr(e.value))
            if isinstance(e.value, int):
                return Lin.const(e.value)
            return ('opaque', repr(e.value))
        if isinstance(e, ast.Name):
            if e.id in path.env:
                return path.env[e.id]
            return ('opaque', e.id)
        if isinstance(e, ast.Attribute):
            d = dotted(e)
            if d is None:
                return ('opaque', short(e))
            if d in path.attrs:
                return path.attrs[d]
            q = self.p.resolve_expr(self.func.module, e, self.func)
            if q in ('os.SEEK_END', 'io.SEEK_END'):
                return SEEK_END
            if q in ('os.SEEK_SET', 'io.SEEK_SET'):
                return Lin.const(0)
            base = e
            while isinstance(base, ast.Attribute):
                base = base.value
            if isinstance(base, ast.Name) and (base.id in path.env or base.id == 'self'):
                root = path.env.get(base.id)
                if isinstance(root, tuple) and root and root[0] == 'obj' or base.id == 'self' or isinstance(root, Lin):
                    return Lin.atom(d)
            return ('opaque', d)
        if isinstance(e, ast.UnaryOp) and isinstance(e.op, ast.USub):
            v = self.eval(e.operand, path)
            return -v if isinstance(v, Lin) else ('opaque', short(e))
        if isinstance(e, ast.BinOp) and isinstance(e.op, (ast.Add, ast.Sub)):
            a, b = self.eval(e.left, path), self.eval(e.right, path)
            if isinstance(a, Lin) and isinstance(b, Lin):
                return a + b if isinstance(e.op, ast.Add) else a - b
            return ('opaque', short(e))
        if isinstance(e, ast.Tuple):
            return ('tuple', [self.eval(x, path) for x in e.elts])
        if isinstance(e, ast.Call):
            return self._call(e, path, effect)
        return ('opaque', short(e))

    def _call(self, c: ast.Call, path: LinPath, effect: bool):
        f = c.func
        if isinstance(f, ast.Name) and f.id in ('min', 'max') and f.id not in path.env and not c.keywords and len(c.args) >= 2:
            args = [self.eval(a, path) for a in c.args]
            if all(isinstance(a, Lin) for a in args):
                # max(max(a, b), b) == max(a, b): splice nested atoms of the same
                # kind and drop duplicates, so a re-applied clamp is the same atom
                flat: List[Lin] = []
                for a in args:
                    at = a.single_atom()
                    inner = self.minmax[at][1] if at in self.minmax and self.minmax[at][0] == f.id else [a]
                    for x in inner:
                        if x not in flat:
                            flat.append(x)
                if len(flat) == 1:
                    return flat[0]
                name = '%s(%s)' % (f.id, ','.join(sorted(a.key() for a in flat)))
                self.minmax[name] = (f.id, flat)
                return Lin.atom(name)
            return ('opaque', short(c))
        if isinstance(f, ast.Name) and f.id == 'len' and len(c.args) == 1 and isinstance(c.args[0], ast.Name):
            return Lin.atom('len(%s)' % c.args[0].id)
        tgt = self.p.resolve_callable(self.func, f)
        if isinstance(tgt, Class):
            return ('new', tgt.qual, [self.eval(a, path) for a in c.args], c)
        if isinstance(f, ast.Attribute):
            recv = self.eval(f.value, path)
            args = [self.eval(a, path) for a in c.args]
            path.events.append(('call', dotted(f.value) or short(f.value), f.attr, args, c, recv))
            if f.attr == 'seek' and isinstance(recv, tuple) and recv[:1] == ('obj',) and recv[1] in self.file_sizes:
                # io: seek() returns the new absolute position.  That equals
                # offset (+ size for SEEK_END) only when the seek neither raises
                # nor clamps - the caller of LinExec owes that obligation
                # (seek_position / C16 R3 "relative seek stays inside the file").
                if c.keywords or any(isinstance(a, ast.Starred) for a in c.args):
                    raise UnknownIdiom('%s: seek call shape %s' % (self.func.qual, short(c)))
                pos, _off = seek_position(args, self.file_sizes[recv[1]], c, self.func.qual)
                return pos
            return ('result', dotted(f) or short(f), args, c)
        return ('opaque', short(c))

    # ---- min/max reasoning
    def le_by_minmax(self, a: Lin, b: Lin) -> bool:
        """a <= b provable: identical, or a is min(..) with an argument == b,
        or b is max(..) with an argument == a."""
        if a == b:
            return True
        at = a.single_atom()
        if at in self.minmax and self.minmax[at][0] == 'min' and any(x == b for x in self.minmax[at][1]):
            return True
        bt = b.single_atom()
        if bt in self.minmax and self.minmax[bt][0] == 'max' and any(x == a for x in self.minmax[bt][1]):
            return True
        return False


# ---------------------------------------------------------------------------
# difference constraints over linear forms (R3, exact range cells)
# ---------------------------------------------------------------------------

class NotDifference(Exception):
    """A linear form that is not  c, x + c, -y + c  or  x - y + c."""


def lin_subst(lin: Lin, atom: str, repl: Lin) -> Lin:
    c = lin.t.get(atom, 0)
    if not c:
        return lin
    d = {k: v for k, v in lin.t.items() if k != atom}
    for k, v in repl.t.items():
        d[k] = d.get(k, 0) + c * v
    return Lin(d)


def _diff_edge(lin: Lin):
    """lin <= 0 as (x, y, w) meaning x - y <= w ('' is the zero variable), or a bool for a constant form."""
    c = lin.t.get('', 0)
    pos = [k for k, v in lin.t.items() if k != '' and v == 1]
    neg = [k for k, v in lin.t.items() if k != '' and v == -1]
    if len(pos) + len(neg) != len([k for k in lin.t if k != '']) or len(pos) > 1 or len(neg) > 1:
        raise NotDifference(lin.key())
    if not pos and not neg:
        return c <= 0
    return (pos[0] if pos else '', neg[0] if neg else '', -c)


def diff_feasible(conds) -> bool:
    """Is the conjunction of ('lt0'|'le0'|'eq0'|'ne0', lin) / ('null', atom, bool)
    satisfiable over the integers?  Exact for difference constraints
    (shortest paths: no negative cycle); NotDifference for any other form."""
    one = Lin.const(1)
    nulls: Dict[str, bool] = {}
    les: List[Lin] = []
    nes: List[Lin] = []
    for c in conds:
        if c[0] == 'null':
            if nulls.setdefault(c[1], c[2]) != c[2]:
                return False
        elif c[0] == 'le0':
            les.append(c[1])
        elif c[0] == 'lt0':
            les.append(c[1] + one)
        elif c[0] == 'eq0':
            les.extend([c[1], -c[1]])
        elif c[0] == 'ne0':
            nes.append(c[1])
        else:
            raise NotDifference(repr(c))
    if len(nes) > 8:
        raise NotDifference('%d disequalities' % len(nes))

    def solve(forms) -> bool:
        edges = []
        for l in forms:
            e = _diff_edge(l)
            if e is False:
                return False
            if e is not True:
                edges.append(e)
        nodes = {''} | {x for (x, _y, _w) in edges} | {y for (_x, y, _w) in edges}
        dist = {n: 0 for n in nodes}
        for _ in range(len(nodes) + 1):
            changed = False
            for (x, y, w) in edges:     # x - y <= w: edge y -> x
                if dist[y] + w < dist[x]:
                    dist[x] = dist[y] + w
                    changed = True
            if not changed:
                return True
        return False

    def split(i, forms) -> bool:
        if i == len(nes):
            return solve(forms)
        return split(i + 1, forms + [nes[i] + one]) or split(i + 1, forms + [one - nes[i]])

    return split(0, les)


def diff_entails_eq0(conds, lin: Lin) -> bool:
    """conds (assumed satisfiable) imply lin == 0."""
    if lin.is_zero():
        return True
    return not diff_feasible(list(conds) + [('lt0', lin)]) and not diff_feasible(list(conds) + [('lt0', -lin)])


def minmax_cases(minmax, conds, values):
    """Case split over every min(..)/max(..) atom of `minmax` that occurs in
    the conditions or values: yields (conds + 'argument i is the extreme one',
    values with the atom replaced by that argument)."""
    def atoms_of(cs, vs):
        for c in cs:
            if c[0] != 'null':
                for k in c[1].t:
                    if k in minmax:
                        return k
        for v in vs:
            for k in v.t:
                if k in minmax:
                    return k
        return None

    at = atoms_of(conds, values)
    if at is None:
        yield list(conds), list(values)
        return
    kind, args = minmax[at]
    for i, a in enumerate(args):
        extra = [('le0', (a - b) if kind == 'min' else (b - a)) for j, b in enumerate(args) if j != i]
        cs = [c if c[0] == 'null' else (c[0], lin_subst(c[1], at, a)) for c in conds] + extra
        vs = [lin_subst(v, at, a) for v in values]
        for out in minmax_cases(minmax, cs, vs):
            yield out


# ---------------------------------------------------------------------------
# concrete evaluation of how a request constructor computes self.path (R11)
# ---------------------------------------------------------------------------

class _Unk:
    def __repr__(self):
        return '<unknown>'


UNK = _Unk()
ENVIRON = type('_Environ', (), {'__repr__': lambda self: '<the WSGI environ>'})()      # CtorPathEval: the environ dict handed to a helper


class _Raised(Exception):
    def __init__(self, qual: str, node):
        Exception.__init__(self, qual)
        self.qual, self.node = qual, node


_PURE_TEXT_METHODS = {
    'isascii', 'encode', 'decode', 'endswith', 'startswith', 'strip', 'lstrip', 'rstrip', 'lower', 'upper', 'replace', 'removeprefix', 'removesuffix',
    'partition', 'rpartition', 'split', 'rsplit', 'find', 'rfind', 'index', 'count', 'isalnum', 'isalpha', 'isdigit', 'isprintable', 'casefold', 'join',
}
_CONCRETE = (str, bytes, int, bool, type(None), tuple)


class CtorPathEval:
    """Runs the CFG of a request constructor on ONE concrete value of the raw
    path (`<env>[<raw_key>]`) and reports, for every way the constructor can
    go, what it stores as `self.<attr>`.

    Values are concrete text / bytes / ints or UNK (everything that is not
    computed from the raw path by str / bytes methods, slicing, len(), `or`,
    comparisons).  A test whose outcome is UNK forks; an exception raised by
    a concrete step (a strict decode of undecodable bytes) follows the
    node's exceptional edges to the first handler whose class catches it.
    Nothing of the analysed code is executed: only str/bytes methods of the
    checker's own interpreter are applied to the sample."""

    MAX_STEPS = 20000
    MAX_DEPTH = 3

    def __init__(self, project: Project, func: Func, cfg: CFG, attr: str, raw_key: str, parent: Optional['CtorPathEval'] = None):
        self.p, self.f, self.cfg, self.attr, self.raw_key = project, func, cfg, attr, raw_key
        params = func.params()
        self.parent = parent            # set for the evaluation of a helper the constructor calls (see _inline)
        self.depth = 0 if parent is None else parent.depth + 1
        if parent is None:
            if len(params) < 2:
                raise AnchorError('%s: signature %s' % (func.qual, params))
            self.envp = params[1]
        else:
            self.envp = None
        self.steps = 0
        self.sample = None if parent is None else parent.sample
        self.outcomes: List[tuple] = []
        self.raw_read = False

    # ---- expressions
    def _is_environ(self, name: ast.Name, env) -> bool:
        """`name` denotes the WSGI environ: the constructor's own parameter (never rebound), or a helper's parameter that was handed it."""
        if name.id in env:
            return env[name.id] is ENVIRON
        return self.envp is not None and name.id == self.envp

    def _locals(self) -> Set[str]:
        c = self.__dict__.get('_local_names')
        if c is None:
            c = set(self.f.params())
            for x in walk_self(self.f.node):
                if isinstance(x, ast.Name) and isinstance(x.ctx, (ast.Store, ast.Del)):
                    c.add(x.id)
                elif isinstance(x, ast.ExceptHandler) and x.name:
                    c.add(x.name)
                elif isinstance(x, (ast.Import, ast.ImportFrom)):
                    c |= {(a.asname or a.name).split('.')[0] for a in x.names}
            self.__dict__['_local_names'] = c
        return c

    def truth(self, e, env):
        if isinstance(e, ast.BoolOp):
            vals = [self.truth(v, env) for v in e.values]
            if isinstance(e.op, ast.And):
                return False if any(v is False for v in vals) else (True if all(v is True for v in vals) else None)
            return True if any(v is True for v in vals) else (False if all(v is False for v in vals) else None)
        if isinstance(e, ast.UnaryOp) and isinstance(e.op, ast.Not):
            v = self.truth(e.operand, env)
            return None if v is None else (not v)
        v = self.ev(e, env)
        return None if (v is UNK or v is ENVIRON) else bool(v)

    def ev(self, e, env):
        if isinstance(e, ast.Constant):
            return e.value if isinstance(e.value, _CONCRETE) else UNK
        if isinstance(e, ast.Name):
            if self._is_environ(e, env):
                return ENVIRON
            v = env.get(e.id, UNK)
            if v is UNK and e.id not in env and isinstance(e.ctx, ast.Load) and e.id not in self._locals():
                v = self.p.fold(self.f.module, e, self.f.cls, self.f)       # a module-level name bound to a literal is its value
                return v if (v is not UNKNOWN and isinstance(v, _CONCRETE)) else UNK
            return v
        if isinstance(e, ast.Tuple):
            vals = [self.ev(x, env) for x in e.elts]
            return UNK if any(v is UNK or v is ENVIRON for v in vals) else tuple(vals)
        if isinstance(e, ast.Subscript):
            if isinstance(e.value, ast.Name) and self._is_environ(e.value, env):
                k = self.ev(e.slice, env) if not isinstance(e.slice, ast.Slice) else UNK
                if k == self.raw_key:
                    self._mark_raw_read()
                    return self.sample
                return UNK
            base = self.ev(e.value, env)
            if base is UNK or base is ENVIRON or not isinstance(base, (str, bytes, tuple)):
                return UNK
            if isinstance(e.slice, ast.Slice):
                parts = [None if x is None else self.ev(x, env) for x in (e.slice.lower, e.slice.upper, e.slice.step)]
                if any(x is UNK or not (x is None or isinstance(x, int)) for x in parts):
                    return UNK
                return base[slice(*parts)]
            k = self.ev(e.slice, env)
            if k is UNK or not isinstance(k, int):
                return UNK
            try:
                return base[k]
            except IndexError:
                raise _Raised('builtins.IndexError', e)
        if isinstance(e, ast.BoolOp):
            last = UNK
            for x in e.values:
                last = self.ev(x, env)
                if last is UNK:
                    return UNK
                if isinstance(e.op, ast.And) and not last:
                    return last
                if isinstance(e.op, ast.Or) and last:
                    return last
            return last
        if isinstance(e, ast.UnaryOp):
            v = self.ev(e.operand, env)
            if v is UNK:
                return UNK
            if isinstance(e.op, ast.Not):
                return not v
            if isinstance(e.op, ast.USub) and isinstance(v, int):
                return -v
            return UNK
        if isinstance(e, ast.IfExp):
            t = self.truth(e.test, env)
            if t is None:
                a, b = self.ev(e.body, env), self.ev(e.orelse, env)
                return a if (a is not UNK and b is not UNK and type(a) is type(b) and a == b) else UNK
            return self.ev(e.body if t else e.orelse, env)
        if isinstance(e, ast.Compare):
            vals = [self.ev(x, env) for x in [e.left] + list(e.comparators)]
            if any(v is UNK for v in vals):
                return UNK
            try:
                for op, a, b in zip(e.ops, vals, vals[1:]):
                    r = {ast.Eq: lambda: a == b, ast.NotEq: lambda: a != b, ast.Lt: lambda: a < b, ast.LtE: lambda: a <= b, ast.Gt: lambda: a > b,
                         ast.GtE: lambda: a >= b, ast.Is: lambda: a is b, ast.IsNot: lambda: a is not b, ast.In: lambda: a in b,
                         ast.NotIn: lambda: a not in b}[type(op)]()
                    if not r:
                        return False
            except TypeError:
                return UNK
            return True
        if isinstance(e, ast.BinOp):
            a, b = self.ev(e.left, env), self.ev(e.right, env)
            if a is UNK or b is UNK:
                return UNK
            try:
                if isinstance(e.op, ast.Add):
                    return a + b
                if isinstance(e.op, ast.Sub):
                    return a - b
            except TypeError:
                return UNK
            return UNK
        if isinstance(e, ast.Call):
            return self._call(e, env)
        if isinstance(e, ast.NamedExpr) and isinstance(e.target, ast.Name):
            v = self.ev(e.value, env)
            env[e.target.id] = v
            return v
        return UNK

    def _call(self, c: ast.Call, env):
        if any(isinstance(a, ast.Starred) for a in c.args) or any(k.arg is None for k in c.keywords):
            return UNK
        fn = c.func
        args = [self.ev(a, env) for a in c.args]
        kw = {k.arg: self.ev(k.value, env) for k in c.keywords}
        known = not any(v is UNK or v is ENVIRON for v in args) and not any(v is UNK or v is ENVIRON for v in kw.values())
        if isinstance(fn, ast.Attribute):
            if isinstance(fn.value, ast.Name) and self._is_environ(fn.value, env) and fn.attr == 'get':
                if args and args[0] == self.raw_key:
                    self._mark_raw_read()
                    return self.sample
                return UNK
            g = self._helper(c)
            if g is not None:
                return self._inline(g, c, args, kw)
            recv = self.ev(fn.value, env)
            if recv is UNK or recv is ENVIRON or not isinstance(recv, (str, bytes)) or fn.attr not in _PURE_TEXT_METHODS or not known:
                return UNK
            try:
                return getattr(recv, fn.attr)(*args, **kw)
            except UnicodeDecodeError:
                raise _Raised('builtins.UnicodeDecodeError', c)
            except UnicodeEncodeError:
                raise _Raised('builtins.UnicodeEncodeError', c)
            except ValueError:
                raise _Raised('builtins.ValueError', c)
            except (LookupError, TypeError, AttributeError):
                raise UnknownIdiom('%s: %s cannot be evaluated on a sample path' % (self.f.qual, short(c)))
        g = self._helper(c)
        if g is not None:
            return self._inline(g, c, args, kw)
        q = self.p.resolve_expr(self.f.module, fn, self.f)
        if q in ('builtins.len', 'builtins.str', 'builtins.bytes', 'builtins.bool') and known and args and isinstance(args[0], (str, bytes)):
            try:
                return {'builtins.len': len, 'builtins.str': str, 'builtins.bytes': bytes, 'builtins.bool': bool}[q](*args, **kw)
            except UnicodeDecodeError:
                raise _Raised('builtins.UnicodeDecodeError', c)
            except UnicodeEncodeError:
                raise _Raised('builtins.UnicodeEncodeError', c)
            except (LookupError, TypeError, ValueError):
                raise UnknownIdiom('%s: %s cannot be evaluated on a sample path' % (self.f.qual, short(c)))
        return UNK

    # ---- helpers the constructor hands the path to (k2-c06-2: the trailing-slash block of both Request.__init__ moved into the
    # module-level falcon.request_helpers._apply_trailing_slash_option(path, strip), which returns the path)
    def _mark_raw_read(self):
        x = self
        while x is not None:
            x.raw_read = True
            x = x.parent

    def _helper(self, c: ast.Call) -> Optional[Func]:
        """The callee when it is a plain function of the analysed package that the evaluator can run in place: module-level (or a
        method of the constructor's own class called on self), synchronous, no generator, no *args / **kwargs."""
        fn = c.func
        if not isinstance(fn, (ast.Name, ast.Attribute)) or self.depth >= self.MAX_DEPTH:
            return None
        g = self.p.callee(self.f, c)
        if not isinstance(g, Func) or g.is_async or g.parent is not None or g.node.args.vararg or g.node.args.kwarg or g.decorators:
            return None
        if g.cls is not None and not (isinstance(fn, ast.Attribute) and isinstance(fn.value, ast.Name) and fn.value.id == 'self'):
            return None
        if any(isinstance(x, (ast.Yield, ast.YieldFrom, ast.Await, ast.Global, ast.Nonlocal)) for x in walk_self(g.node)):
            return None
        x = self
        while x is not None:
            if x.f is g:
                return None             # recursion
            x = x.parent
        return g

    def _inline(self, g: Func, c: ast.Call, args, kw):
        """Value of `g(*args, **kw)` for the sample: g's CFG is run by a sub-evaluator with the parameters bound to the caller's values
        (defaults: g's own constants).  One return value on every way through g -> that value; g raises on every way -> the
        exception continues in the caller; anything else (ways that differ, a store into the request inside g) -> UNK."""
        from ..cfg import cfg_of
        a = g.node.args
        names = [x.arg for x in a.posonlyargs + a.args]
        env: Dict[str, object] = {}
        if g.cls is not None and names:
            env[names[0]] = UNK
            names = names[1:]
        if len(args) > len(names) or any(k not in names + [x.arg for x in a.kwonlyargs] for k in kw):
            return UNK
        sub = CtorPathEval(self.p, g, cfg_of(g, self.p), self.attr, self.raw_key, parent=self)
        defaults = dict(zip(names[len(names) - len(a.defaults):], a.defaults)) if a.defaults else {}
        defaults.update({x.arg: d for x, d in zip(a.kwonlyargs, a.kw_defaults) if d is not None})
        for nm, v in list(zip(names, args)) + list(kw.items()):
            env[nm] = v
        for nm in names + [x.arg for x in a.kwonlyargs]:
            if nm not in env:
                if nm not in defaults:
                    return UNK
                env[nm] = sub.ev(defaults[nm], {})
        sub.steps = self.steps
        sub._go(sub.cfg.entry, env, ())
        self.steps = sub.steps
        outs = sub.outcomes
        if not outs or any(k == 'stored' for k, _v, _n in outs):
            return UNK
        kinds = {k for k, _v, _n in outs}
        if kinds == {'raised'}:
            quals = {v for _k, v, _n in outs}
            if len(quals) == 1 and None not in quals:
                raise _Raised(quals.pop(), c)
            return UNK
        if kinds <= {'returned', 'nostore'}:
            vals = [None if k == 'nostore' else v for k, v, _n in outs]
            v0 = vals[0]
            if v0 is not UNK and all(v is not UNK and type(v) is type(v0) and v == v0 for v in vals):
                return v0
        return UNK

    # ---- control flow
    def run(self, sample: str) -> List[tuple]:
        """[('stored', value|UNK, stmt) | ('raised', class qual, construct) | ('nostore', None, None)]"""
        self.sample, self.outcomes, self.steps, self.raw_read = sample, [], 0, False
        self._go(self.cfg.entry, {}, ())
        return self.outcomes

    def _bind(self, t, v, env):
        if isinstance(t, ast.Name):
            env[t.id] = v
        elif isinstance(t, (ast.Tuple, ast.List)):
            if isinstance(v, tuple) and len(v) == len(t.elts) and not any(isinstance(x, ast.Starred) for x in t.elts):
                for x, y in zip(t.elts, v):
                    self._bind(x, y, env)
            else:
                for x in ast.walk(t):
                    if isinstance(x, ast.Name):
                        env[x.id] = UNK

    def _normal(self, nid):
        return [(y, l) for (y, l) in self.cfg.succ[nid] if l != 'exc']

    def _raise_to(self, nid, exc: _Raised, env, trail):
        for (y, l) in self.cfg.succ[nid]:
            if l != 'exc':
                continue
            n = self.cfg.node(y)
            if y == self.cfg.xexit:
                self.outcomes.append(('raised', exc.qual, exc.node))
                return
            if n.kind != 'handler':
                raise UnknownIdiom('%s: %s raised inside a try/finally (%s)' % (self.f.qual, exc.qual, short(exc.node)))
            h = n.ast
            if h.type is None:
                catches = True
            else:
                catches = False
                for t in (h.type.elts if isinstance(h.type, ast.Tuple) else [h.type]):
                    q = self.p.resolve_expr(self.f.module, t, self.f)
                    r = self.p.is_subclass(exc.qual, q) if q else None
                    if r is None:
                        raise UnknownIdiom('%s: cannot decide whether `except %s` catches %s' % (self.f.qual, short(t), exc.qual))
                    catches = catches or r
            if catches:
                self._go(y, env, trail)
                return
        self.outcomes.append(('raised', exc.qual, exc.node))

    def _go(self, nid, env, trail):
        while True:
            self.steps += 1
            if self.steps > self.MAX_STEPS or trail.count(nid) > 1:
                raise UnknownIdiom('%s: the computation of self.%s does not terminate in the evaluator (loop?)' % (self.f.qual, self.attr))
            trail = trail + (nid,)
            n = self.cfg.node(nid)
            if nid == self.cfg.exit:
                self.outcomes.append(('nostore', None, None))
                return
            if nid == self.cfg.xexit:
                self.outcomes.append(('raised', None, None))
                return
            try:
                if n.kind == 'test':
                    t = self.truth(n.ast, env)
                    outs = [(y, l) for (y, l) in self.cfg.succ[nid] if l in ('T', 'F')]
                    if t is None:
                        for (y, l) in outs:
                            self._go(y, dict(env), trail)
                        return
                    nxt = [y for (y, l) in outs if (l == 'T') == t]
                    if not nxt:       # `while True` has no F edge
                        return
                    nid = nxt[0]
                    continue
                if n.kind == 'iter':
                    for (y, l) in self.cfg.succ[nid]:
                        if l in ('next', 'done'):
                            e2 = dict(env)
                            if l == 'next':
                                self._bind(n.stmt.target, UNK, e2)
                            self._go(y, e2, trail)
                    return
                if n.kind == 'with':
                    for it in n.stmt.items:
                        if it.optional_vars is not None:
                            self._bind(it.optional_vars, UNK, env)
                elif n.kind == 'handler':
                    if n.ast.name:
                        env[n.ast.name] = UNK
                elif n.kind == 'stmt':
                    s = n.ast
                    if isinstance(s, (ast.Assign, ast.AnnAssign)):
                        if s.value is not None:
                            v = self.ev(s.value, env)
                            for t in (s.targets if isinstance(s, ast.Assign) else [s.target]):
                                if is_self_attr(t, self.attr):
                                    self.outcomes.append(('stored', v, s))
                                    return
                                self._bind(t, v, env)
                    elif isinstance(s, ast.AugAssign):
                        if isinstance(s.target, ast.Name):
                            env[s.target.id] = self.ev(ast.BinOp(left=ast.Name(id=s.target.id, ctx=ast.Load()), op=s.op, right=s.value), env)
                        elif is_self_attr(s.target, self.attr):
                            raise UnknownIdiom('%s: self.%s is updated in place' % (self.f.qual, self.attr))
                    elif isinstance(s, ast.Expr):
                        self.ev(s.value, env)
                    elif isinstance(s, ast.Return) and self.parent is not None:
                        self.outcomes.append(('returned', self.ev(s.value, env) if s.value is not None else None, s))
                        return
                    elif isinstance(s, ast.Raise):
                        e = s.exc.func if isinstance(s.exc, ast.Call) else s.exc
                        q = self.p.resolve_expr(self.f.module, e, self.f) if e is not None else None
                        targets = [y for (y, l) in self.cfg.succ[nid] if l == 'exc']
                        if len(targets) == 1 and targets[0] != self.cfg.xexit and self.cfg.node(targets[0]).kind == 'handler':
                            nid = targets[0]
                            continue
                        if targets == [self.cfg.xexit]:
                            self.outcomes.append(('raised', q or short(s), s))
                            return
                        raise UnknownIdiom('%s: %s on the way to self.%s' % (self.f.qual, short(s), self.attr))
                    elif isinstance(s, ast.Delete):
                        for t in s.targets:
                            if isinstance(t, ast.Name):
                                env[t.id] = UNK
            except _Raised as exc:
                self._raise_to(nid, exc, dict(env), trail)
                return
            nxt = self._normal(nid)
            if not nxt:
                return
            if len(nxt) > 1:
                for (y, l) in nxt:
                    self._go(y, dict(env), trail)
                return
            nid = nxt[0][0]


# ---------------------------------------------------------------------------
# abstract evaluation of the suffix branch of Request.range (C16 R14)
# ---------------------------------------------------------------------------

class SuffixText:
    """The text after the "-" of a suffix range spec `-<last>` as an abstract value: `lead` is the class of its first
    character ('digit', '+', '-'), `mag` the magnitude of the number it spells ('zero', 'pos').  Only NUMERIC spellings
    are cells (int() of the text succeeds); text that int() refuses is rejected by the conversion itself."""

    def __init__(self, lead: str, mag: str):
        self.lead, self.mag = lead, mag

    def label(self) -> str:
        sign = '' if self.lead == 'digit' else self.lead
        return {'zero': 'bytes=-%s0 (and -%s00, ...)', 'pos': 'bytes=-%s5 (any -%sN, N > 0)'}[self.mag] % (sign, sign)

    def sign(self) -> str:
        if self.mag == 'zero':
            return 'zero'
        return 'neg' if self.lead == '-' else 'pos'

    def first_char(self):
        if self.lead != 'digit':
            return self.lead
        return '0' if self.mag == 'zero' else SUFFIX_DIGIT         # a digit-leading spelling of zero has only '0' digits

    def __repr__(self):
        return '<suffix text %s/%s>' % (self.lead, self.mag)


class _Digit:
    """one character out of '0'..'9', not known which"""

    def __repr__(self):
        return '<a digit>'


SUFFIX_DIGIT = _Digit()
SUFFIX_CELLS = tuple(SuffixText(lead, mag) for mag in ('zero', 'pos') for lead in ('digit', '+', '-'))


class SignInt:
    """an integer of which only the sign is known: 'neg' (<= -1) or 'pos' (>= 1); zero is the concrete 0"""

    def __init__(self, sign: str):
        self.sign = sign

    def bounds(self):
        return (None, -1) if self.sign == 'neg' else (1, None)

    def __repr__(self):
        return '<%s int>' % self.sign


def sign_int(sign: str):
    return 0 if sign == 'zero' else SignInt(sign)


def _cmp_interval(op, lo, hi, c):
    """truth of `x <op> c` for every x in [lo, hi] (None = unbounded), or None when it depends on x"""
    below = hi is not None and hi < c          # all x < c
    above = lo is not None and lo > c          # all x > c
    ge = lo is not None and lo >= c
    le = hi is not None and hi <= c
    if isinstance(op, ast.Lt):
        return True if below else (False if ge else None)
    if isinstance(op, ast.LtE):
        return True if le else (False if above else None)
    if isinstance(op, ast.Gt):
        return True if above else (False if le else None)
    if isinstance(op, ast.GtE):
        return True if ge else (False if below else None)
    if isinstance(op, ast.Eq):
        return False if (below or above) else None
    if isinstance(op, ast.NotEq):
        return True if (below or above) else None
    return None


_FLIP = {ast.Lt: ast.Gt, ast.Gt: ast.Lt, ast.LtE: ast.GtE, ast.GtE: ast.LtE, ast.Eq: ast.Eq, ast.NotEq: ast.NotEq}


class SuffixBranchEval:
    """Walks the CFG of `Request.range` from the statement that splits the range spec at "-", with the piece in front of
    the "-" empty, the separator present and the piece behind it ONE cell of SUFFIX_CELLS, over the value domain
    {concrete constants, SuffixText, a digit, SignInt, UNK}.  A test whose outcome the domain does not decide forks (the
    path is then marked undecided).  outcomes: [('return', value, return stmt, undecided tests) | ('raise', None, stmt, ...)]."""

    MAX_STEPS = 4000

    def __init__(self, project: Project, func: Func, cfg: CFG, start: int, env: Dict[str, object]):
        self.p, self.f, self.cfg, self.start, self.env0 = project, func, cfg, start, env
        self.steps = 0
        self.outcomes: List[tuple] = []

    def run(self):
        self.steps, self.outcomes = 0, []
        self._go(self.start, dict(self.env0), (), ())
        return self.outcomes

    # ---- values
    def truth(self, e, env):
        if isinstance(e, ast.BoolOp):
            vals = [self.truth(v, env) for v in e.values]
            if isinstance(e.op, ast.And):
                return False if any(v is False for v in vals) else (True if all(v is True for v in vals) else None)
            return True if any(v is True for v in vals) else (False if all(v is False for v in vals) else None)
        if isinstance(e, ast.UnaryOp) and isinstance(e.op, ast.Not):
            v = self.truth(e.operand, env)
            return None if v is None else (not v)
        return self._bool(self.ev(e, env))

    @staticmethod
    def _bool(v):
        if v is UNK:
            return None
        if isinstance(v, (SuffixText, _Digit, SignInt)):
            return True                 # a non-empty text / a character / a non-zero number
        return bool(v)

    def ev(self, e, env):
        if isinstance(e, ast.Constant):
            return e.value if isinstance(e.value, _CONCRETE) else UNK
        if isinstance(e, ast.Name):
            return env.get(e.id, UNK)
        if isinstance(e, ast.Tuple):
            return tuple(self.ev(x, env) for x in e.elts)
        if isinstance(e, ast.UnaryOp):
            if isinstance(e.op, ast.Not):
                t = self.truth(e.operand, env)
                return UNK if t is None else (not t)
            v = self.ev(e.operand, env)
            if isinstance(e.op, ast.USub):
                if isinstance(v, SignInt):
                    return SignInt('pos' if v.sign == 'neg' else 'neg')
                if isinstance(v, int) and not isinstance(v, bool):
                    return -v
            if isinstance(e.op, ast.UAdd) and (isinstance(v, SignInt) or (isinstance(v, int) and not isinstance(v, bool))):
                return v
            return UNK
        if isinstance(e, ast.BoolOp):
            last = UNK
            for x in e.values:
                last = self.ev(x, env)
                t = self._bool(last)
                if t is None:
                    return UNK
                if isinstance(e.op, ast.And) and not t:
                    return last
                if isinstance(e.op, ast.Or) and t:
                    return last
            return last
        if isinstance(e, ast.IfExp):
            t = self.truth(e.test, env)
            return UNK if t is None else self.ev(e.body if t else e.orelse, env)
        if isinstance(e, ast.Subscript):
            base = self.ev(e.value, env)
            s = e.slice
            if isinstance(base, SuffixText):
                if isinstance(s, ast.Constant) and s.value == 0:
                    return base.first_char()
                if isinstance(s, ast.Slice) and s.step is None and s.lower is None and isinstance(s.upper, ast.Constant) and s.upper.value == 1:
                    return base.first_char()
                return UNK
            if isinstance(base, (str, tuple)) and not isinstance(s, ast.Slice):
                k = self.ev(s, env)
                if isinstance(k, int) and not isinstance(k, bool):
                    try:
                        return base[k]
                    except IndexError:
                        raise _Raised('builtins.IndexError', e)
            return UNK
        if isinstance(e, ast.Compare):
            vals = [self.ev(x, env) for x in [e.left] + list(e.comparators)]
            out = True
            for op, a, b in zip(e.ops, vals, vals[1:]):
                r = self._compare(op, a, b)
                if r is False:
                    return False
                if r is None:
                    out = UNK
            return out
        if isinstance(e, ast.BinOp):
            a, b = self.ev(e.left, env), self.ev(e.right, env)
            ints = all(isinstance(x, int) and not isinstance(x, bool) for x in (a, b))
            if ints and isinstance(e.op, (ast.Add, ast.Sub, ast.Mult)):
                return a + b if isinstance(e.op, ast.Add) else (a - b if isinstance(e.op, ast.Sub) else a * b)
            if isinstance(e.op, ast.Mult) and (isinstance(a, SignInt) or isinstance(b, SignInt)):
                x, k = (a, b) if isinstance(a, SignInt) else (b, a)
                if isinstance(k, int) and not isinstance(k, bool):
                    return 0 if k == 0 else SignInt(x.sign if k > 0 else ('pos' if x.sign == 'neg' else 'neg'))
            if isinstance(e.op, (ast.Add, ast.Sub)) and isinstance(a, int) and not isinstance(a, bool) and a == 0 and isinstance(b, SignInt):
                return b if isinstance(e.op, ast.Add) else SignInt('pos' if b.sign == 'neg' else 'neg')       # 0 - n
            return UNK
        if isinstance(e, ast.Call):
            return self._call(e, env)
        if isinstance(e, ast.NamedExpr) and isinstance(e.target, ast.Name):
            v = self.ev(e.value, env)
            env[e.target.id] = v
            return v
        return UNK

    def _compare(self, op, a, b):
        if a is UNK or b is UNK:
            return None
        if isinstance(op, (ast.In, ast.NotIn)):
            r = None
            if isinstance(b, (str, tuple)):
                if isinstance(a, _Digit):
                    hits = [d in b for d in '0123456789']
                    r = True if all(hits) else (False if not any(hits) else None)
                elif isinstance(a, str) or (isinstance(b, tuple) and isinstance(a, _CONCRETE) and not any(isinstance(x, (SuffixText, _Digit, SignInt)) or x is UNK for x in b)):
                    try:
                        r = a in b
                    except TypeError:
                        r = None
            return r if (r is None or isinstance(op, ast.In)) else (not r)
        if isinstance(op, (ast.Is, ast.IsNot)):
            if a is None or b is None:
                r = a is b
                return r if isinstance(op, ast.Is) else (not r)
            return None
        if type(op) not in _FLIP:
            return None
        if isinstance(b, SignInt) and not isinstance(a, SignInt):
            a, b, op = b, a, _FLIP[type(op)]()
        if isinstance(a, SignInt):
            if isinstance(b, int) and not isinstance(b, bool):
                lo, hi = a.bounds()
                return _cmp_interval(op, lo, hi, b)
            if isinstance(b, SignInt) and a.sign != b.sign:
                (lo, hi), c = a.bounds(), (-1 if b.sign == 'neg' else 1)
                # every neg is below every pos
                return {ast.Lt: a.sign == 'neg', ast.LtE: a.sign == 'neg', ast.Gt: a.sign == 'pos', ast.GtE: a.sign == 'pos', ast.Eq: False, ast.NotEq: True}[type(op)]
            return None
        if isinstance(a, _Digit) or isinstance(b, _Digit):
            d, o = (a, b) if isinstance(a, _Digit) else (b, a)
            if isinstance(op, (ast.Eq, ast.NotEq)) and isinstance(o, str) and not (len(o) == 1 and o in '0123456789'):
                return isinstance(op, ast.NotEq)
            return None
        if isinstance(a, SuffixText) or isinstance(b, SuffixText):
            t, o = (a, b) if isinstance(a, SuffixText) else (b, a)
            if isinstance(op, (ast.Eq, ast.NotEq)) and isinstance(o, str) and suffix_cell_of(o) != (t.lead, t.mag):
                return isinstance(op, ast.NotEq)
            if isinstance(op, (ast.Eq, ast.NotEq)) and not isinstance(o, (str, SuffixText)):
                return isinstance(op, ast.NotEq)        # text never equals a number / None
            return None
        if isinstance(a, _CONCRETE) and isinstance(b, _CONCRETE):
            try:
                return {ast.Eq: lambda: a == b, ast.NotEq: lambda: a != b, ast.Lt: lambda: a < b, ast.LtE: lambda: a <= b,
                        ast.Gt: lambda: a > b, ast.GtE: lambda: a >= b}[type(op)]()
            except TypeError:
                raise _Raised('builtins.TypeError', None)
        return None

    def _call(self, c: ast.Call, env):
        if any(isinstance(a, ast.Starred) for a in c.args) or any(k.arg is None for k in c.keywords):
            return UNK
        fn = c.func
        args = [self.ev(a, env) for a in c.args]
        if isinstance(fn, ast.Attribute):
            recv = self.ev(fn.value, env)
            if isinstance(recv, SuffixText) and not c.keywords:
                if fn.attr in ('isdigit', 'isdecimal', 'isnumeric') and not args:
                    return recv.lead == 'digit'
                if fn.attr == 'startswith' and len(args) == 1 and isinstance(args[0], (str, tuple)):
                    alts = args[0] if isinstance(args[0], tuple) else (args[0],)
                    rs = [self._startswith(recv, a) if isinstance(a, str) else None for a in alts]
                    return True if any(r is True for r in rs) else (False if all(r is False for r in rs) else UNK)
                if fn.attr in ('strip', 'lstrip', 'rstrip') and not args:
                    return recv                        # the pieces of a header value carry no surrounding whitespace cell
                return UNK
            if isinstance(recv, str) and fn.attr in _PURE_TEXT_METHODS and not c.keywords and all(isinstance(a, _CONCRETE) for a in args):
                try:
                    return getattr(recv, fn.attr)(*args)
                except ValueError:
                    raise _Raised('builtins.ValueError', c)
                except (LookupError, TypeError, AttributeError):
                    return UNK
            return UNK
        q = self.p.resolve_expr(self.f.module, fn, self.f)
        if q == 'builtins.int' and len(args) == 1 and not c.keywords:
            v = args[0]
            if isinstance(v, SuffixText):
                return sign_int(v.sign())
            if isinstance(v, SignInt) or (isinstance(v, int) and not isinstance(v, bool)):
                return v
            if isinstance(v, str):
                try:
                    return int(v)
                except ValueError:
                    raise _Raised('builtins.ValueError', c)
            return UNK
        if q == 'builtins.abs' and len(args) == 1 and not c.keywords:
            if isinstance(args[0], SignInt):
                return SignInt('pos')
            if isinstance(args[0], int) and not isinstance(args[0], bool):
                return abs(args[0])
        if q == 'builtins.bool' and len(args) == 1 and not c.keywords:
            t = self._bool(args[0])
            return UNK if t is None else t
        return UNK

    @staticmethod
    def _startswith(t: SuffixText, s: str):
        if s == '':
            return True
        ch = t.first_char()
        if isinstance(ch, _Digit):
            return False if s[0] not in '0123456789' else None
        if s[0] != ch:
            return False
        return True if len(s) == 1 else None

    # ---- control flow
    def _bind(self, t, v, env):
        if isinstance(t, ast.Name):
            env[t.id] = v
        elif isinstance(t, (ast.Tuple, ast.List)):
            if isinstance(v, tuple) and len(v) == len(t.elts) and not any(isinstance(x, ast.Starred) for x in t.elts):
                for x, y in zip(t.elts, v):
                    self._bind(x, y, env)
            else:
                for x in ast.walk(t):
                    if isinstance(x, ast.Name):
                        env[x.id] = UNK

    def _raise_from(self, nid, qual, stmt, env, trail, und):
        """follow the exceptional edges of node nid for an exception of class `qual` (None: whatever the CFG wired for an explicit raise)"""
        for (y, l) in self.cfg.succ[nid]:
            if l != 'exc' or y == self.cfg.xexit:
                continue
            n = self.cfg.node(y)
            if n.kind != 'handler':
                raise UnknownIdiom('%s: an exception inside a try/finally on the suffix branch (%s)' % (self.f.qual, short(stmt) if stmt is not None else qual))
            h = n.ast
            catches = h.type is None or qual is None
            if not catches:
                for t in (h.type.elts if isinstance(h.type, ast.Tuple) else [h.type]):
                    hq = self.p.resolve_expr(self.f.module, t, self.f)
                    r = self.p.is_subclass(qual, hq) if hq else None
                    if r is None:
                        raise UnknownIdiom('%s: cannot decide whether `except %s` catches %s' % (self.f.qual, short(t), qual))
                    catches = catches or r
            if catches:
                self._go(y, env, trail, und)
                return
        self.outcomes.append(('raise', qual, stmt, und))

    def _go(self, nid, env, trail, und):
        while True:
            self.steps += 1
            if self.steps > self.MAX_STEPS or trail.count(nid) > 1:
                raise UnknownIdiom('%s: a loop on the suffix branch of the Range parser is not evaluated' % self.f.qual)
            trail = trail + (nid,)
            n = self.cfg.node(nid)
            if nid == self.cfg.exit:
                self.outcomes.append(('return', None, None, und))
                return
            if nid == self.cfg.xexit:
                self.outcomes.append(('raise', None, None, und))
                return
            try:
                if n.kind == 'test':
                    t = self.truth(n.ast, env)
                    outs = [(y, l) for (y, l) in self.cfg.succ[nid] if l in ('T', 'F')]
                    if t is None:
                        for (y, l) in outs:
                            self._go(y, dict(env), trail, und + ('%s is %s' % (short(n.ast, 60), l == 'T'),))
                        return
                    nxt = [y for (y, l) in outs if (l == 'T') == t]
                    if not nxt:
                        return
                    nid = nxt[0]
                    continue
                if n.kind == 'iter':
                    raise UnknownIdiom('%s: a loop on the suffix branch of the Range parser is not evaluated' % self.f.qual)
                if n.kind == 'with':
                    for it in n.stmt.items:
                        if it.optional_vars is not None:
                            self._bind(it.optional_vars, UNK, env)
                elif n.kind == 'handler':
                    if n.ast.name:
                        env[n.ast.name] = UNK
                elif n.kind == 'stmt':
                    s = n.ast
                    if isinstance(s, (ast.Assign, ast.AnnAssign)):
                        if s.value is not None:
                            v = self.ev(s.value, env)
                            for t in (s.targets if isinstance(s, ast.Assign) else [s.target]):
                                self._bind(t, v, env)
                    elif isinstance(s, ast.AugAssign):
                        if isinstance(s.target, ast.Name):
                            env[s.target.id] = self.ev(ast.BinOp(left=ast.Name(id=s.target.id, ctx=ast.Load()), op=s.op, right=s.value), env)
                    elif isinstance(s, ast.Expr):
                        self.ev(s.value, env)
                    elif isinstance(s, ast.Return):
                        self.outcomes.append(('return', self.ev(s.value, env) if s.value is not None else None, s, und))
                        return
                    elif isinstance(s, ast.Raise):
                        self._raise_from(nid, None, s, dict(env), trail, und)
                        return
                    elif isinstance(s, ast.Delete):
                        for t in s.targets:
                            if isinstance(t, ast.Name):
                                env[t.id] = UNK
            except _Raised as exc:
                self._raise_from(nid, exc.qual, exc.node if exc.node is not None else n.ast, dict(env), trail, und)
                return
            nxt = [(y, l) for (y, l) in self.cfg.succ[nid] if l != 'exc']
            if not nxt:
                return
            if len(nxt) > 1:
                for (y, l) in nxt:
                    self._go(y, dict(env), trail, und)
                return
            nid = nxt[0][0]


def suffix_cell_of(text: str):
    """(lead, mag) of a constant text that spells a number the way int() reads it, else None"""
    t = text
    lead = 'digit'
    if t[:1] in ('+', '-'):
        lead, t = t[0], t[1:]
    if not t or not all(ch in '0123456789' for ch in t):
        return None
    return (lead, 'zero' if int(t) == 0 else 'pos')
