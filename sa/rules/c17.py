"""C17 - WebSocket state machine (DESIGN.md section 3, C17).

R1  per-operation legality: every emission on the raw ASGI send / call of the
    raw receive happens in a connection state in which it is legal; wrong
    state -> documented error; accept/close leave the state they promise.
R2  who may emit: the raw send is only reachable through the state machine.
R3  always closed: _handle_websocket closes after the responder, every
    exception reaches _handle_exception(ws=...), every default error handler
    closes on its ws branch, with the documented code mapping.
R4  close-code validation (partition of the integer line by the folded
    comparisons of close()) and the spec-version gate of the close reason.
    Auto-mutation wave: the TYPE partition of the argument {None, int, anything else} - the third cell (abstract value
    NON_INT: isinstance(code, int) is false, ordering tests against numbers have no usable outcome and may raise TypeError)
    is rejected with ValueError before anything is sent (sa-am01299); the reserved block ends at 1999, the extension range
    2000-2999 of the reference close() documents is accepted at both ends (sa-am01349).  A test over a local computed
    from the code (``reserved = 1015 <= code <= 1999``) is an unknown idiom.
R5  payload types.
R7  = C18 R6 (shared): ``_BufferedReceiver.receive()`` hands out the synthesised disconnect only when no message is
    buffered ("payloads arrive unchanged, in order" includes the ones that preceded a disconnect; seeded s5-c17-2).
R6  the receive pump raises ``client_disconnected`` (what ``_send``/``closed``/``ready`` consult) before its next
    suspension point after pulling the disconnect event (function lives in c18.py: same pump context as C18 R3).
R8  = C18 R7 (shared): the receive path (receive_*, the shared state guard, what they use) does not consult the
    sender-side disconnect flag, so messages buffered before the client left are still handed out (seeded s6-c17-2).
R9  the documented disconnected error always carries an integer close code: the constructor of
    ``WebSocketDisconnected`` is evaluated concretely (a given code is reported unchanged; what None becomes), and for
    every construction site in falcon/asgi/ws.py the argument is traced by def-use - where a None can reach it, the
    constructor must map None to an integer (seeded s6-c17-3).  Anchors: the class, its ``code`` keyword/attribute.

R10 what is put into the events (seeded s7-c17-3): ``send_data`` hands the server a value of type ``bytes`` with the payload's content
    for every admitted argument type (abstract evaluation per type: an immutable snapshot, never the caller's bytearray/memoryview);
    ``send_text`` the str itself; ``send_media`` the matching media handler's ``serialize(media)`` under the key that matches
    ``payload_type``; every websocket.accept/send/close literal uses only the keys the ASGI spec defines.

R1 (wave 7) also decides the converse of the failed-send clause - a server send() error that is RECOGNISED as a connection loss and
reported as WebSocketDisconnected is recorded in the state by ``_send`` itself before the error leaves (no pump raises the receiver's
flag for max_receive_queue=0; seeded s7-c17-1) - and, in ``r1_receive_disconnect`` (registered under C18 as its R8; seeded s7-c18-1),
that a disconnect EVENT in hand leaves the state terminal without relying on the receiver's flag and reports the event's own code.

R1 also decides, for accept()/close(): the write of ACCEPTED/CLOSED is not reachable through an exceptional edge
out of the send of the accept/close event; and for every other method that calls the raw send (``_send``): CLOSED is
written on the exceptional continuation of the send only under a test that the classification helper recognised the
server's error as a connection loss, and that helper can answer "not a connection loss" (seeded s4-c17-1).  ``r3_session_paths`` (the "a completed close() on every path that ends
a session" half of R3) is registered under C18 as its R5.

Wave 8: R2 also decides who may call the raw send INSIDE the state machine (``_raw_send_behind_the_gate``: only close() - tabled - and a
site where a failing server send() is caught and classified; seeded s8-c17-3); R3 that the helper by which ``_handle_exception`` decides
"does the selected error handler accept ws" reports every keyword-bindable parameter kind (abstract evaluation of its ``Parameter.kind``
filter over the five kinds; seeded s8-c17-1; anchors: the ``'ws' in <helper>(<handler>)`` test, ``inspect.signature``); R4 the registered
close-code table below 3000 (1001-1003, 1007-1010, 1012-1014 accepted; 1004, 1016, 1999 rejected; seeded s8-c17-2).

Declared anchors (renaming one gives exit 2, never exit 1): class
``falcon.asgi.ws.WebSocket`` with its public operations, the private enum
``_WebSocketState`` (members HANDSHAKE/ACCEPTED/CLOSED; further members are read from the class and classified by
what the code does with them - see ``c17_helpers.WSModel.states``: a member recorded by ``close()``/the disconnect paths is
one more way of being closed and every obligation stated for CLOSED is evaluated for it; a failing one is laid at the
door of the guard(s) that tell CLOSED and the new member apart; a member nobody writes is not a state), the ``send``/``receive``
parameters of ``WebSocket.__init__`` (ASGI names), ``_BufferedReceiver`` and its
public flag ``client_disconnected``, ``App._handle_websocket``,
``App._handle_exception`` (parameter ``ws`` - the documented handler keyword),
``_get_responder``, ``_find_error_handler``, ``add_error_handler``, the helper
``_supports_reason``, ``ws_options.error_close_code``, the ``code`` parameter of
``close``.  Everything else (state attribute, raw send/receive attributes, the
guard helper, locals) is derived by def-use.
"""

from __future__ import annotations

import ast
from typing import Dict, List, Optional, Set

from .. import flow
from ..cfg import cfg_of
from ..model import UNKNOWN, AnchorError, Func, UnknownIdiom, short
from . import c18 as _c18
from .c17_helpers import (BOTH, OUT_EVENTS, RET_NONE, STATES, WS, WSModel, fold_local, literal_of, local_defs, possible, return_kinds,
                          single_return_expr, values_at, with_inert)
from .common import ancestors, enclosing_map, implied, single, strip_await, walk_self

ASGI_APP = 'falcon.asgi.app.App'
HANDLE_WS = ASGI_APP + '._handle_websocket'
E_NOT_ALLOWED = 'falcon.errors.OperationNotAllowed'
E_DISCONNECTED = 'falcon.errors.WebSocketDisconnected'
E_PAYLOAD = 'falcon.errors.PayloadTypeError'
ARG_ERRORS = {'builtins.TypeError', 'builtins.ValueError'}


def _model(run) -> WSModel:
    m = getattr(run, '_c17_model', None)
    if m is None:
        m = WSModel(run.project)
        run._c17_model = m
    return m


def _cellstr(cell):
    return '%s%s' % (cell[0], '+client-disconnected' if cell[1] else '')


def feasible(cfg, atom):
    """edge filter pruning branch edges whose condition cannot have the needed truth value"""
    cache: Dict[int, Set[bool]] = {}
    # a parameter with a constant default that no call of the package supplies evaluates as that default
    atom = with_inert(getattr(cfg, 'project', None), getattr(cfg, 'func', None), atom)

    def ok(a, b, l):
        n = cfg.node(a)
        if n.kind == 'test' and l in ('T', 'F'):
            cond, want = n.ast, l == 'T'
        elif n.kind == 'stmt' and isinstance(n.ast, ast.Assert) and l != 'exc':
            cond, want = n.ast.test, True
        else:
            return True
        if a not in cache:
            cache[a] = possible(cond, atom)
        return want in cache[a]

    return ok


# ---------------------------------------------------------------------------
# R1
# ---------------------------------------------------------------------------

def _legal_emit(etype, cell):
    s, d = cell
    if etype == 'websocket.accept':
        return s == 'HANDSHAKE'
    if etype == 'websocket.send':
        return s == 'ACCEPTED' and not d
    if etype == 'websocket.close':
        return s in ('HANDSHAKE', 'ACCEPTED') and not d
    return False


def _public_ops(model: WSModel) -> List[Func]:
    return model.public_ops()


def r1_operations(run):
    p = run.project
    model = _model(run)
    ops = _public_ops(model)
    names = {f.name for f in ops}
    for need in ('accept', 'close', 'send_text', 'send_data', 'send_media', 'receive_text', 'receive_data', 'receive_media'):
        if need not in names:
            raise AnchorError('%s.%s not found' % (WS, need))
    run.extra['c17_state_attr'] = model.state_attr
    terminal = set(model.terminal_states())
    extra_terminal = set(model.extra_terminal_states())
    run.extra['c17_states'] = {'members': list(model.members), 'possible': list(model.states()), 'terminal': sorted(terminal),
                               'never written (not a state of any connection)': list(model.unwritten_members)}
    # A failed obligation in an ADDITIONAL terminal state M is laid at the door of the guard(s) that tell CLOSED and M apart
    # (they refuse a CLOSED socket and let an M one through); one violation per guard, naming M.
    blamed: Dict[tuple, dict] = {}

    def fail_or_blame(f, cell, what, construct, witness, runtime_witness):
        guards = model.guards_distinguishing(f, 'CLOSED', cell[0], cell[1]) if cell[0] in extra_terminal else []
        if not guards:
            run.fail(what, f, construct, witness=witness, runtime_witness=runtime_witness)
            return
        for (g, cond) in guards:
            b = blamed.setdefault((g.qual, ast.unparse(cond), cell[0]), {'g': g, 'cond': cond, 'm': cell[0], 'ops': [], 'rw': runtime_witness})
            b['ops'].append(what)

    for f in ops:
        run.use_cfg(cfg_of(f, p))
        kind = ('accept' if f.name == 'accept' else 'close' if f.name == 'close' else
                'send' if f.name.startswith('send_') else 'receive' if f.name.startswith('receive_') else 'other')
        allowed_types = {'accept': {'websocket.accept'}, 'close': {'websocket.close'}, 'send': {'websocket.send'},
                         'receive': set(), 'other': set(OUT_EVENTS)}[kind]
        for cell in model.all_cells():
            r = model.analyse(f, cell)
            where = f.loc()
            tag = '%s() entered in state %s' % (f.name, _cellstr(cell))
            # (a) legality of everything emitted / received
            bad = None
            for (et, cl, fq, nid) in sorted(r.emits, key=str):
                if et not in allowed_types or not _legal_emit(et, cl):
                    g = p.func(fq)
                    bad = ('emits %s in state %s at %s' % (et, _cellstr(cl), g.loc(cfg_of(g, p).node(nid).ast)), fq, nid)
                    break
            if bad is None:
                for (cl, fq, nid) in sorted(r.recvs, key=str):
                    if kind != 'receive' and kind != 'other' or cl[0] != 'ACCEPTED':
                        g = p.func(fq)
                        bad = ('calls the ASGI receive in state %s at %s' % (_cellstr(cl), g.loc(cfg_of(g, p).node(nid).ast)), fq, nid)
                        break
            if bad is None:
                run.ok('%s: every event put on the ASGI send / every ASGI receive is legal in the state in which it happens' % tag,
                       where, f.name)
            else:
                fail_or_blame(f, cell, '%s: %s' % (tag, bad[0]), '%s [%s] %s' % (f.name, _cellstr(cell), bad[0].split(' at ')[0]),
                              [bad[0]], 'a responder calling ws.%s() with the connection in state %s' % (f.name, _cellstr(cell)))
            # (b) wrong state -> documented error, never a silent success
            expects = None
            if kind in ('send', 'receive'):
                if cell[0] == 'HANDSHAKE':
                    expects = (E_NOT_ALLOWED,)
                elif cell[0] in extra_terminal:
                    # an additional way of being closed: which of the two documented wrong-state errors it gets is a decision of the
                    # patch that introduced it; that the operation is refused is not
                    expects = (E_DISCONNECTED, E_NOT_ALLOWED)
                elif cell[0] in terminal or (kind == 'send' and cell[1]):
                    expects = (E_DISCONNECTED,)
            elif kind == 'accept' and cell[0] != 'HANDSHAKE':
                expects = (E_NOT_ALLOWED,)
            if expects is not None:
                classes = {q for (q, _c, _f, _n) in r.raises}

                def documented(c):
                    return any(c == e or p.is_subclass(c, e) is True for e in expects)

                stray = sorted(c for c in classes if c not in ARG_ERRORS and not documented(c))
                unread = [c for c in stray if c.startswith('?')]
                if unread and not r.exits and len(unread) == len(stray) and any(documented(c) for c in classes):
                    # the verdict would hinge on an exception whose class the model cannot read
                    raise UnknownIdiom('%s: %s raises %s, whose class is not understood' % (f.qual, tag, unread[0][1:]))
                good = not r.exits and any(documented(c) for c in classes) and not stray
                what = '%s: cannot complete normally and raises %s' % (tag, ' or '.join(e.rsplit('.', 1)[1] for e in expects))
                if good:
                    run.ok(what, f.loc(), '%s [%s] wrong-state error' % (f.name, _cellstr(cell)))
                else:
                    fail_or_blame(f, cell, what, '%s [%s] wrong-state error' % (f.name, _cellstr(cell)),
                                  ['normal exit reachable in %s' % sorted(r.exits)] if r.exits else ['raises %s' % sorted(classes)],
                                  'ws.%s() in state %s returns normally or raises an undocumented error' % (f.name, _cellstr(cell)))
            # (c) post-state
            if kind == 'accept' and cell[0] == 'HANDSHAKE' and not cell[1]:
                if not r.exits:
                    raise UnknownIdiom('accept() cannot complete from HANDSHAKE')
                run.check(all(s == 'ACCEPTED' for (s, _d) in r.exits), 'accept(): the state is ACCEPTED on every normal return (a second accept is refused)',
                          f, 'accept post-state', witness=['exit states %s' % sorted(r.exits)])
            if kind == 'close':
                run.check(all(s in terminal or d for (s, d) in r.exits),
                          '%s: the connection is closed (state %s or client gone) on every normal return (at most one close event)' % (tag, '/'.join(sorted(terminal))),
                          f, 'close post-state [%s]' % _cellstr(cell), witness=['exit states %s' % sorted(r.exits)],
                          runtime_witness='two ws.close() calls both emit websocket.close')
    for (gq, ctext, mname), b in sorted(blamed.items()):
        g = b['g']
        run.fail('%s: this guard refuses a socket in state CLOSED but lets one in state %s through, although %s is recorded when the '
                 'connection ends (it is written by close()/the disconnect paths): every operation that must fail after close fails in '
                 'every terminal state' % (g.name, mname, mname), g, '%s [%s]' % (ctext, mname), where=g.loc(b['cond']),
                 witness=sorted(set(b['ops']))[:10], runtime_witness=b['rw'])
    # receive: a disconnect event becomes CLOSED + WebSocketDisconnected
    r1_receive_disconnect(run)
    # accept/close: the promised state is entered on the normal continuation of the send only
    for f in ops:
        if f.name in ('accept', 'close'):
            _state_follows_completed_send(run, model, f)
    # everywhere else: a failed send marks the socket CLOSED only when the error was recognised as a connection loss
    _failed_send_marks_closed(run, model, ops)


def _state_follows_completed_send(run, model: WSModel, f: Func):
    """accept()/close(): the write of ACCEPTED/CLOSED is not reachable through an exceptional edge out of the
    send of the websocket.accept/websocket.close event (not in a finally/except covering the send).

    Lemma: state ACCEPTED => the accept event was handed to the server without error; state CLOSED (client still
    connected) => the close event was.  A send that raised delivered nothing: the caller (the error handlers'
    fallback close) must still be able to close.  A write that is reachable from the failed send only through a
    test or a class-specific except clause is a classification of the server error the model does not decide
    (-> unknown idiom); reachable unconditionally (finally, catch-all) is a violation."""
    p = run.project
    cfg = cfg_of(f, p)
    promised, etype = ('ACCEPTED', 'websocket.accept') if f.name == 'accept' else ('CLOSED', 'websocket.close')
    promised_set = (promised,) if promised == 'ACCEPTED' else tuple(model.terminal_states())
    emit = model.emit_nodes(f, etype)
    if not emit:
        raise AnchorError('%s: no statement through which the %s event is sent' % (f.qual, etype))
    emit_asts = {id(cfg.node(e).ast) for e in emit}
    writes = [s for s in model.state_write_stmts(f, promised_set) if id(s) not in emit_asts]
    if not writes:
        r = model.analyse(f, ('HANDSHAKE' if f.name == 'accept' else 'ACCEPTED', False))
        if r.exits and all(s in promised_set or (d and f.name == 'close') for (s, d) in r.exits):
            raise UnknownIdiom('%s: the state %s is reached, but not through an assignment in %s() or in a method it calls '
                               'after the send' % (f.qual, promised, f.name))
        return  # the post-state obligation above already reports the missing write
    starts = [y for e in emit for (y, l) in cfg.succ[e] if l == 'exc']
    conditional = [n.id for n in cfg.live_nodes()
                   if n.kind == 'test' or (n.kind == 'handler' and not _catches_exception(n))]
    for w in writes:
        wn = [i for i in cfg.nodes_for(w) if i in cfg.reachable_ids]
        path = flow.find_path(cfg, starts, wn, avoid_nodes=emit)
        if path is not None and promised == 'CLOSED' and flow.find_path(cfg, starts, wn, avoid_nodes=set(emit) | set(conditional)) is None:
            raise UnknownIdiom('%s: %s is reachable from a failed send of the close event only under a condition (%s); '
                               'classification of server errors in close() is not modelled' % (
                                   f.qual, short(w), ' / '.join(flow.describe_path(cfg, path)[:4])))
        run.check(path is None,
                  '%s(): the state becomes %s only on the normal continuation of the send of the %s event '
                  '(never through an exceptional edge out of the send)' % (f.name, promised, etype), f, w,
                  witness=flow.describe_path(cfg, [e for e in emit if (path[0], 'exc') in cfg.succ[e]][:1] + path) if path else None,
                  runtime_witness=('the server\'s send() raises for the websocket.close event (e.g. "invalid close code"): the socket is '
                                   'marked CLOSED although nothing was delivered, the fallback close of the error handler is a silent '
                                   'no-op and the client never receives a close') if promised == 'CLOSED' else
                                  'the server\'s send() raises for websocket.accept: the socket claims to be ACCEPTED, later sends go out on a '
                                  'connection that was never accepted')


def _failed_send_marks_closed(run, model: WSModel, ops: List[Func]):
    """Outside accept()/close() (decided above): on the exceptional continuation of the raw ASGI send the state may be
    set to CLOSED only under a test showing that the server's error was *recognised as a connection loss* - the
    value of the classification helper called with the caught exception is truthy / ``is not None`` / an instance of
    some exception class - and that test must be able to fail: a helper all of whose returns are exceptions makes
    ``if translated:`` vacuous.

    Lemma: state CLOSED => a close event was delivered or the connection is lost.  A transient error of the
    server's send() (a RuntimeError for one oversized frame, the client still connected) is neither; once CLOSED is
    recorded ``closed`` is true, the framework's final close() returns without sending and every later send raises
    WebSocketDisconnected on a live connection.

    Idioms: truthiness / ``is (not) None`` / ``isinstance`` tests on the helper's result (bound to a single-assignment
    local, a walrus, or tested directly); a CLOSED write reachable from the failed send only through other tests or a
    class-specific ``except`` clause is a classification this rule does not model (-> unknown idiom).

    The converse (seeded s7-c17-1): every ``raise`` on that exceptional continuation that may raise a
    ``WebSocketDisconnected`` (the helper's result when one of its returns builds one, or the class itself) is preceded -
    on every path from the failed send on which the tests do not rule a WebSocketDisconnected out (``is None``,
    ``isinstance`` of an unrelated class) - by a statement after which the state IS terminal (an assignment, or a
    same-class helper that records it with the receiver's flag down), or followed by one before the error leaves
    (``finally``).  Lemma: WebSocketDisconnected raised => state terminal ("a lost connection is reported as
    WebSocketDisconnected on later operations", "nothing after the connection is lost").
    W: max_receive_queue=0 (no pump, nobody raises the receiver's flag), the server's send() raises OSError: the next
    send_*() emits another websocket.send, the final close() emits websocket.close 1000, the cleanup 1011."""
    p = run.project
    for f in ops:
        for cell in model.all_cells():
            model.analyse(f, cell)
    decided_above = {f.qual for f in ops if f.name in ('accept', 'close')}
    n_senders = 0
    n_loss_raises = 0
    helpers_ok: Dict[str, Func] = {}
    helpers_vacuous: Dict[str, tuple] = {}
    for q in sorted(model.visited_funcs):
        if q in decided_above:
            continue
        g = p.func(q)
        cfg = cfg_of(g, p)
        sends = [n.id for n in cfg.live_nodes() if any(model.is_raw_send_call(c) for c in n.calls())]
        if not sends:
            continue
        n_senders += 1
        run.use_cfg(cfg)
        starts = [y for s in sends for (y, l) in cfg.succ[s] if l == 'exc']
        send_asts = {id(cfg.node(s).ast) for s in sends}
        writes = [w for w in model.state_write_stmts(g, tuple(model.terminal_states())) if id(w) not in send_asts]
        exc_names = {n.ast.name for n in cfg.live_nodes() if n.kind == 'handler' and isinstance(n.ast, ast.ExceptHandler) and n.ast.name}

        def helper_call(e, g=g, exc_names=exc_names):
            e = strip_await(e)
            if isinstance(e, ast.NamedExpr):
                e = strip_await(e.value)
            if isinstance(e, ast.Call) and any(isinstance(a, ast.Name) and a.id in exc_names for a in list(e.args) + [kw.value for kw in e.keywords]):
                m = p.callee(g, e)
                if isinstance(m, Func):
                    return m
            return None

        def verdict(e, g=g, helper_call=helper_call):
            """helper Func if `e` is the classification of the caught exception"""
            m = helper_call(e)
            if m is None and isinstance(e, ast.Name) and e.id not in g.params():
                ds = local_defs(g, e.id)
                if len(ds) == 1 and ds[0] is not None:
                    m = helper_call(ds[0])
            return m

        def atom(e, g=g, verdict=verdict):
            """(polarity, kind, helper): `e` true <=> (polarity: the error was recognised)"""
            m = verdict(e)
            if m is not None:
                return (True, 'nonnull', m)
            if isinstance(e, ast.Compare) and len(e.ops) == 1 and isinstance(e.ops[0], (ast.Is, ast.IsNot)) \
                    and isinstance(e.comparators[0], ast.Constant) and e.comparators[0].value is None:
                m = verdict(e.left)
                if m is not None:
                    return (isinstance(e.ops[0], ast.IsNot), 'nonnull', m)
            if isinstance(e, ast.Call) and isinstance(e.func, ast.Name) and e.func.id == 'isinstance' and len(e.args) == 2 and not e.keywords:
                m = verdict(e.args[0])
                if m is not None:
                    ts = e.args[1].elts if isinstance(e.args[1], ast.Tuple) else [e.args[1]]
                    qs = tuple(sorted(p.resolve_expr(g.module, t, g) or '?' for t in ts))
                    if '?' in qs:
                        raise UnknownIdiom('%s: %s' % (g.qual, short(e)))
                    return (True, qs, m)
            return None

        def facts(expr, truth, atom=atom):
            """what `expr` evaluating to `truth` establishes: [(kind, helper)]"""
            expr = strip_await(expr)
            a = atom(expr)
            if a is not None:
                return [(a[1], a[2])] if a[0] == truth else []
            if isinstance(expr, ast.UnaryOp) and isinstance(expr.op, ast.Not):
                return facts(expr.operand, not truth)
            if isinstance(expr, ast.BoolOp) and ((isinstance(expr.op, ast.And) and truth) or (isinstance(expr.op, ast.Or) and not truth)):
                return [x for v in expr.values for x in facts(v, truth)]
            return []

        def says_not_a_loss(expr, truth, atom=atom):
            """`expr` evaluating to `truth` establishes that the helper answered None"""
            expr = strip_await(expr)
            a = atom(expr)
            if a is not None:
                return a[1] == 'nonnull' and a[0] != truth
            if isinstance(expr, ast.UnaryOp) and isinstance(expr.op, ast.Not):
                return says_not_a_loss(expr.operand, not truth)
            if isinstance(expr, ast.BoolOp) and ((isinstance(expr.op, ast.And) and truth) or (isinstance(expr.op, ast.Or) and not truth)):
                return any(says_not_a_loss(v, truth) for v in expr.values)
            return False

        def is_vacuous(kind, m):
            kinds = return_kinds(p, m)
            if kind == 'nonnull':
                return RET_NONE not in kinds
            return all(k != RET_NONE and any(p.is_subclass(k, c) is True for c in kind) for k in kinds)

        effective, vacuous, negative = [], [], []
        edge_helpers: Dict[tuple, List[Func]] = {}
        for t in cfg.live_nodes():
            if t.kind != 'test':
                continue
            for lab, truth in (('T', True), ('F', False)):
                if says_not_a_loss(t.ast, truth):
                    negative.extend(flow.edges_out(cfg, t.id, lab))     # on this edge the helper answered None
                fs = facts(t.ast, truth)
                if not fs:
                    continue
                real = [(k, m) for (k, m) in fs if not is_vacuous(k, m)]
                for e in flow.edges_out(cfg, t.id, lab):
                    (effective if real else vacuous).append(e)
                    edge_helpers[e] = [m for (_k, m) in (real or fs)]
        conditional = [n.id for n in cfg.live_nodes() if n.kind == 'test' or (n.kind == 'handler' and not _catches_exception(n))]
        n_on_failure_path = 0
        for w in writes:
            wn = [i for i in cfg.nodes_for(w)]
            if not wn or flow.find_path(cfg, starts, wn, avoid_nodes=sends) is None:
                continue
            n_on_failure_path += 1
            what = ('%s(): on the exceptional continuation of the ASGI send the state becomes CLOSED only under a test that the '
                    'server\'s error was recognised as a connection loss (a transient send error does not close the session)' % g.name)
            rw = ('the server\'s send() raises a RuntimeError for one data frame while the client stays connected: the socket is marked '
                  'CLOSED, the framework\'s final close() returns without sending websocket.close and the next send_*() raises '
                  'WebSocketDisconnected on a live connection')
            path = flow.find_path(cfg, starts, wn, avoid_nodes=sends, avoid_edges=effective)
            if path is None:
                run.ok(what, g.loc(w), w)
                for e in effective:
                    for m in edge_helpers[e]:
                        helpers_ok[m.qual] = m
                continue
            through_negative = None
            for (a_, b_, l_) in negative:
                p1 = flow.find_path(cfg, starts, [a_], avoid_nodes=sends, avoid_edges=effective)
                p2 = flow.find_path(cfg, [b_], wn, avoid_nodes=sends, avoid_edges=effective)
                if p1 is not None and p2 is not None:
                    through_negative = p1 + p2
            if through_negative is not None:
                run.fail(what, g, w, witness=flow.describe_path(cfg, through_negative), runtime_witness=rw)
                continue
            if flow.find_path(cfg, starts, wn, avoid_nodes=sends, avoid_edges=effective + vacuous) is None:
                for e in vacuous:
                    for m in edge_helpers[e]:
                        helpers_vacuous.setdefault(m.qual, (m, g, w, path, cfg))
                continue
            if flow.find_path(cfg, starts, wn, avoid_nodes=set(sends) | set(conditional)) is None:
                raise UnknownIdiom('%s: %s is reachable from a failed ASGI send under a condition that is not a test of the '
                                   'classification of the caught error (%s)' % (g.qual, short(w), ' / '.join(flow.describe_path(cfg, path)[:5])))
            run.fail(what, g, w, witness=flow.describe_path(cfg, [s for s in sends if (path[0], 'exc') in cfg.succ[s]][:1] + path), runtime_witness=rw)
        if n_on_failure_path == 0:
            run.ok('%s(): no write of CLOSED is reachable from the exceptional continuation of the ASGI send' % g.name, g.loc(), '%s failed send' % g.name)
        # the converse: a RECOGNISED connection loss is recorded in the state before it is reported
        def rules_out_loss(expr, truth, atom=atom):
            """`expr` evaluating to `truth` establishes that the helper's result is not a WebSocketDisconnected"""
            expr = strip_await(expr)
            a = atom(expr)
            if a is not None:
                pol, kind, _m = a
                if kind == 'nonnull':
                    return pol != truth                                        # the result is None
                if pol == truth:                                               # an instance of one of `kind`
                    return all(q != E_DISCONNECTED and p.is_subclass(E_DISCONNECTED, q) is False and p.is_subclass(q, E_DISCONNECTED) is False for q in kind)
                return any(q == E_DISCONNECTED or p.is_subclass(E_DISCONNECTED, q) is True for q in kind)   # an instance of none of `kind`
            if isinstance(expr, ast.UnaryOp) and isinstance(expr.op, ast.Not):
                return rules_out_loss(expr.operand, not truth)
            if isinstance(expr, ast.BoolOp) and ((isinstance(expr.op, ast.And) and truth) or (isinstance(expr.op, ast.Or) and not truth)):
                return any(rules_out_loss(v, truth) for v in expr.values)
            return False

        def is_loss(q):
            return q is not None and (q == E_DISCONNECTED or p.is_subclass(q, E_DISCONNECTED) is True)

        not_loss_edges = [e for t in cfg.live_nodes() if t.kind == 'test' for lab, truth in (('T', True), ('F', False))
                          if rules_out_loss(t.ast, truth) for e in flow.edges_out(cfg, t.id, lab)]
        recorded = set(_must_close_nodes(model, g, cfg)) - set(sends)
        for n in cfg.live_nodes():
            if not (n.kind == 'stmt' and isinstance(n.ast, ast.Raise) and n.ast.exc is not None):
                continue
            if flow.find_path(cfg, starts, [n.id], avoid_nodes=sends) is None:
                continue
            m = verdict(n.ast.exc)
            if m is not None:
                may = any(k != RET_NONE and is_loss(k) for k in return_kinds(p, m))
            else:
                e = n.ast.exc.func if isinstance(n.ast.exc, ast.Call) else n.ast.exc
                may = is_loss(p.resolve_expr(g.module, e, g))
            if not may:
                continue
            n_loss_raises += 1
            what = ('%s(): an error of the server\'s send() that is recognised as a connection loss (reported as WebSocketDisconnected) is recorded '
                    'in the state (%s) before the error leaves %s() - by this method itself, not by the receiver\'s flag, which no pump raises '
                    'for max_receive_queue=0' % (g.name, '/'.join(sorted(model.terminal_states())), g.name))
            p1 = flow.find_path(cfg, starts, [n.id], avoid_nodes=set(sends) | recorded, avoid_edges=not_loss_edges)
            p2 = flow.find_path(cfg, [y for (y, _l) in cfg.succ[n.id]], [cfg.xexit], avoid_nodes=recorded) if p1 is not None else None
            run.check(p1 is None or p2 is None, what, g, n.ast,
                      witness=flow.describe_path(cfg, [s_ for s_ in sends if (p1[0], 'exc') in cfg.succ[s_]][:1] + p1 + p2) if p1 and p2 else None,
                      runtime_witness='max_receive_queue=0, the server\'s send() raises OSError once the client is gone: the responder swallows the '
                                      'WebSocketDisconnected of one send_*(), the next send_*() hands the server another websocket.send, the '
                                      'framework then sends websocket.close 1000 and 1011 on the dead connection and the OSError escapes the app')
    if n_senders == 0:
        raise AnchorError('no method of the state machine besides accept()/close() calls the raw ASGI send')
    if n_loss_raises == 0:
        raise AnchorError('no raise of WebSocketDisconnected on the exceptional continuation of the raw ASGI send (the translation of a '
                          'lost connection reported by the server\'s send() was not found)')
    for q, m in sorted(helpers_ok.items()):
        if q in helpers_vacuous:
            continue
        kinds = return_kinds(p, m)
        run.ok('%s can answer "not a connection loss" (returns: %s), so the test guarding CLOSED after a failed send is a real one'
               % (m.name, ', '.join(sorted(k.rsplit('.', 1)[-1] for k in kinds))), m.loc(), '%s verdicts' % m.name)
    for q, (m, g, w, path, cfg) in sorted(helpers_vacuous.items()):
        kinds = return_kinds(p, m)
        run.fail('%s can answer "not a connection loss": some return hands back None / something the guard of %s() rejects '
                 '(otherwise every error of the server\'s send() marks the socket CLOSED)' % (m.name, g.name), m, '%s verdicts' % m.name,
                 witness=['%s: %s' % (m.loc(r), short(r) if not isinstance(r, (ast.FunctionDef, ast.AsyncFunctionDef)) else 'implicit return')
                          for k in sorted(kinds) for r in kinds[k]][:8] + ['guarded write: %s %s' % (g.loc(w), short(w))],
                 runtime_witness='the server\'s send() raises a RuntimeError for one data frame while the client stays connected: the helper hands the '
                                 'error back, the guard in %s() passes, the socket is marked CLOSED and no websocket.close is ever sent' % g.name)


def _must_close_nodes(model: WSModel, f: Func, cfg) -> List[int]:
    """CFG nodes of `f` after whose normal completion the state IS a terminal member, whatever the receiver's flag says:
    the assignment of a terminal member itself, or a statement calling a method of the state machine all of whose normal
    exits - entered in a non-terminal state with the disconnect flag DOWN (the unbuffered mode never raises it) - are
    in a terminal state.  A helper that records the loss only when the receiver's flag is up is not one."""
    terminal = tuple(model.terminal_states())
    open_states = [s for s in model.states() if s not in terminal]
    out = []
    for n in cfg.live_nodes():
        if n.kind != 'stmt' or n.ast is None:
            continue
        if model._sets_state_to(f, n.ast, terminal):
            out.append(n.id)
            continue
        for c in n.calls():
            m = model._self_method(f, c)
            if m is None or m is f or not model.state_write_stmts(m, terminal):
                continue
            cenv = model.call_env(f, c, m, {})
            rs = [model.analyse(m, (s, False), cenv) for s in open_states]
            if all(r.exits and all(s2 in terminal for (s2, _d) in r.exits) for r in rs):
                out.append(n.id)
                break
    return out


def r1_receive_disconnect(run):
    """The receive path, buffered or not: a ``websocket.disconnect`` event in hand never returns as a message, is
    reported as ``WebSocketDisconnected``, leaves the state terminal (by an assignment, or by a helper that records it
    with the receiver's flag DOWN - the flag is raised by the pump only, and there is no pump for max_receive_queue=0),
    and the close code reported/recorded is taken from the EVENT in hand.  Part of C17 R1; registered under C18 as R8
    ("a client disconnect is reported to a receiver ...", unbuffered mode 0 included).

    W: max_receive_queue=0, the client leaves with code 4001: receive_*() raises WebSocketDisconnected, but ``closed`` stays
    False, the code is None/stale and the framework's final close() puts a websocket.close on the dead connection."""
    p = run.project
    model = _model(run)
    ops = _public_ops(model)
    recv_funcs = sorted({fq for f in ops for cell in model.all_cells() for (_c, fq, _n) in model.analyse(f, cell).recvs})
    if not recv_funcs:
        raise AnchorError('no call of the raw ASGI receive reachable from the receive_* methods')
    for fq in recv_funcs:
        _receive_disconnect(run, model, p.func(fq))


def _receive_disconnect(run, model: WSModel, f: Func):
    p = run.project
    cfg = cfg_of(f, p)
    run.use_cfg(cfg)
    ev = None
    start = None
    for n in cfg.live_nodes():
        if n.kind == 'stmt' and isinstance(n.ast, (ast.Assign, ast.AnnAssign)) and any(model.is_raw_recv_call(c) for c in n.calls()):
            tgt = n.ast.targets[0] if isinstance(n.ast, ast.Assign) else n.ast.target
            if not isinstance(tgt, ast.Name) or not model.is_raw_recv_call(strip_await(n.ast.value)):
                raise UnknownIdiom('%s: received event bound by %s' % (f.qual, short(n.ast)))
            ev, start = tgt.id, n.id
    if ev is None:
        raise UnknownIdiom('%s: result of the raw receive is not bound to a local' % f.qual)

    def is_type_expr(e):
        if isinstance(e, ast.Subscript) and isinstance(e.value, ast.Name) and e.value.id == ev and isinstance(e.slice, ast.Constant) and e.slice.value == 'type':
            return True
        if isinstance(e, ast.Name) and e.id != ev:
            ds = local_defs(f, e.id)
            return len(ds) == 1 and ds[0] is not None and is_type_expr(ds[0])
        return False

    def atom_for(evtype):
        def atom(e):
            if isinstance(e, ast.Compare) and len(e.ops) == 1 and isinstance(e.ops[0], (ast.Eq, ast.NotEq)):
                l, r = e.left, e.comparators[0]
                if is_type_expr(r):
                    l, r = r, l
                if is_type_expr(l):
                    k = p.fold(f.module, r, None, f)
                    if not isinstance(k, str):
                        raise UnknownIdiom('%s: event type compared with %s' % (f.qual, short(r)))
                    eq = evtype == k
                    return {eq} if isinstance(e.ops[0], ast.Eq) else {not eq}
            return None
        return atom

    starts = [y for (y, l) in cfg.succ[start] if l != 'exc']
    closed_writes = _must_close_nodes(model, f, cfg)
    # disconnect
    filt = feasible(cfg, atom_for('websocket.disconnect'))
    reach = flow.reachable(cfg, starts, edge_filter=filt)
    run.check(cfg.exit not in reach, '%s: a websocket.disconnect event never reaches a normal return' % f.name, f, 'disconnect-event returns',
              witness=flow.describe_path(cfg, flow.find_path(cfg, starts, [cfg.exit], edge_filter=filt) or []),
              runtime_witness='receive_*() returns the disconnect event as if it were a message')
    raises = [n for n in cfg.live_nodes() if n.id in reach and n.kind == 'stmt' and isinstance(n.ast, ast.Raise)]
    if not raises and cfg.exit not in reach:
        raise UnknownIdiom('%s: no raise on the disconnect path' % f.qual)
    for n in raises:
        e = n.ast.exc.func if isinstance(n.ast.exc, ast.Call) else n.ast.exc
        q = p.resolve_expr(f.module, e, f) if e is not None else None
        run.check(q is not None and p.is_subclass(q, E_DISCONNECTED) is True,
                  '%s: a websocket.disconnect event is reported as WebSocketDisconnected' % f.name, f, n.ast)
        path = flow.find_path(cfg, starts, [n.id], avoid_nodes=closed_writes, edge_filter=filt)
        run.check(path is None, '%s: the state is set to CLOSED before the disconnect is reported (by an assignment or a helper that records it '
                                'whatever the receiver\'s flag says: no pump raises that flag for max_receive_queue=0)' % f.name, f, n.ast,
                  witness=flow.describe_path(cfg, path) if path else None,
                  runtime_witness='after the client disconnected, ws.closed is False and a later send is attempted')
        _disconnect_code_from_event(run, model, f, cfg, ev, starts, n, filt)
    # message
    filt = feasible(cfg, atom_for('websocket.receive'))
    reach = flow.reachable(cfg, starts, edge_filter=filt)
    run.check(cfg.exit in reach and not (set(closed_writes) & reach),
              '%s: a websocket.receive event is returned and does not close the connection' % f.name, f, 'receive-event returns')


def _disconnect_code_from_event(run, model: WSModel, f: Func, cfg, ev: str, starts, rn, filt):
    """The close code reported for a disconnect EVENT in hand is the event's: the argument of the WebSocketDisconnected
    raised on the disconnect path mentions the event (through single-assignment locals), or is a field ``self.X`` that is
    stored from the event on every path from the receive to the raise (directly, or by a same-class helper that is
    handed the event/a value read from it and stores its parameter).  A code copied from the receiver
    (``client_disconnected_code``) is whatever the PUMP recorded - nothing, without a pump."""
    p = run.project
    c = rn.ast.exc
    if not isinstance(c, ast.Call):
        return
    arg = c.args[0] if c.args else next((kw.value for kw in c.keywords if kw.arg == 'code'), None)
    if arg is None or any(isinstance(a, ast.Starred) for a in c.args):
        return          # no code given: the constructor's default (R9)

    def from_event(e, depth=0):
        for x in walk_self(e):
            if isinstance(x, ast.Name) and isinstance(x.ctx, ast.Load):
                if x.id == ev:
                    return True
                if depth < 3 and x.id not in f.params():
                    ds = local_defs(f, x.id)
                    if len(ds) == 1 and ds[0] is not None and from_event(ds[0], depth + 1):
                        return True
        return False

    what = ('%s: the close code reported for a websocket.disconnect event in hand is taken from that event (not from a field only the '
            'pump sets)' % f.name)
    rw = ('max_receive_queue=0, the client leaves with close code 4001: WebSocketDisconnected carries None/a stale code, '
          'and so does every later operation')
    if from_event(arg):
        run.ok(what, f.loc(c), c)
        return
    if not (isinstance(arg, ast.Attribute) and isinstance(arg.value, ast.Name) and arg.value.id == 'self'):
        if p.fold(f.module, arg, f.cls, f) is not UNKNOWN:
            run.fail(what, f, c, witness=['the argument is the constant %s' % short(arg)], runtime_witness=rw)
            return
        raise UnknownIdiom('%s: close code of the reported disconnect is %s' % (f.qual, short(arg)))
    field = arg.attr
    good_nodes = []
    for (a2, val, node) in _c18._stores(f):
        if a2 == field and from_event(val):
            good_nodes += [i for i in cfg.nodes_for(node)]
    for n in cfg.live_nodes():
        for call in n.calls():
            m = model._self_method(f, call)
            if m is None or m is f:
                continue
            mp = [a for a in m.params() if a != 'self']
            handed = {mp[i] for i, a in enumerate(call.args) if i < len(mp) and not isinstance(a, ast.Starred) and from_event(a)}
            handed |= {kw.arg for kw in call.keywords if kw.arg and from_event(kw.value)}
            if not handed:
                continue
            sts = [(val, node) for (a2, val, node) in _c18._stores(m) if a2 == field]
            if not sts:
                continue
            mcfg = cfg_of(m, p)
            ok_nodes = [i for (val, node) in sts if any(isinstance(x, ast.Name) and x.id in handed for x in walk_self(val)) for i in mcfg.nodes_for(node)]
            if ok_nodes and flow.find_path(mcfg, [mcfg.entry], [mcfg.exit], avoid_nodes=ok_nodes) is None:
                good_nodes.append(n.id)
            else:
                raise UnknownIdiom('%s: %s is handed the disconnect event and stores %s in a way that is not understood' % (f.qual, m.name, field))
    path = flow.find_path(cfg, starts, [rn.id], avoid_nodes=good_nodes, edge_filter=filt)
    run.check(path is None, what, f, c, witness=(flow.describe_path(cfg, path) if path else None), runtime_witness=rw)


# ---------------------------------------------------------------------------
# R2
# ---------------------------------------------------------------------------

def _in_scope(mod_name: str) -> bool:
    return not (mod_name.startswith('falcon.testing') or mod_name.startswith('falcon.bench') or mod_name.startswith('falcon.cmd'))


def r2_who_may_emit(run):
    p = run.project
    model = _model(run)
    for f in _public_ops(model):
        for cell in model.all_cells():
            model.analyse(f, cell)
    visited = set(model.visited_funcs)
    sites = 0
    for g in p.all_functions():
        if not _in_scope(g.module.name):
            continue
        own = g.cls or (g.parent.cls if g.parent is not None else None)
        for c in walk_self(g.node):
            if isinstance(c, ast.Call) and isinstance(c.func, ast.Attribute) and c.func.attr == model.raw_send:
                if own is not None and own.qual != WS and p.is_subclass(own.qual, WS) is not True:
                    init = p.lookup_method(own.qual, '__init__')
                    if init is not None and any(isinstance(x, ast.Attribute) and x.attr == model.raw_send and isinstance(x.ctx, ast.Store)
                                                for x in walk_self(init.node)) and isinstance(c.func.value, ast.Name) and c.func.value.id == 'self':
                        continue  # another class's own attribute of the same name
                sites += 1
                run.check(model.is_raw_send_call(c) and g.qual in visited,
                          'the raw ASGI send of a WebSocket is called only inside the analysed state machine (methods reachable from the public operations)',
                          g, c, runtime_witness='an event is emitted without passing the state guards')
    if sites == 0:
        raise AnchorError('no call of WebSocket.%s found' % model.raw_send)
    _raw_send_behind_the_gate(run, model)
    # direct use of the send callable in _handle_websocket
    f = p.func(HANDLE_WS)
    cfg = cfg_of(f, p)
    run.use_cfg(cfg)
    ctor_call, ws_name, ctor_node = _ws_ctor(p, f, cfg)
    init_params = [a for a in model.init.params() if a != 'self']
    idx = init_params.index('send')
    send_arg = None
    if idx < len(ctor_call.args):
        send_arg = ctor_call.args[idx]
    for kw in ctor_call.keywords:
        if kw.arg == 'send':
            send_arg = kw.value
    if not (isinstance(send_arg, ast.Name) and send_arg.id in f.params()):
        raise UnknownIdiom('%s: the send callable given to WebSocket() is %s' % (f.qual, short(send_arg) if send_arg is not None else None))
    send_name = send_arg.id
    direct = []
    for n in cfg.live_nodes():
        for x in n.walk():
            if isinstance(x, ast.Name) and x.id == send_name and isinstance(x.ctx, ast.Load) and x is not send_arg:
                direct.append((n, x))
    for n, x in direct:
        calls = [c for c in n.calls() if c.func is x]
        if not calls:
            raise UnknownIdiom('%s: the ASGI send callable escapes through %s' % (f.qual, n.text()))
        c = calls[0]
        et = model.event_type(f, c.args[0], {}) if len(c.args) == 1 else None
        if et is None:
            raise UnknownIdiom('%s: event type of %s' % (f.qual, short(c)))
        fwd = flow.reachable(cfg, [y for (y, _l) in cfg.succ[n.id]])
        ok = et == 'websocket.close' and ctor_node not in fwd and n.id not in flow.reachable(cfg, [ctor_node]) and n.id not in fwd
        run.check(ok, '_handle_websocket: a direct use of the ASGI send only refuses the connection (one websocket.close, no WebSocket object on that path)',
                  f, c, runtime_witness='an event bypasses the WebSocket state machine')
    # every server->client WebSocket event literal belongs to the state machine
    refusal = {id(c.args[0]) for n, x in direct for c in n.calls() if c.func is x and c.args}
    refusal_dicts = set()
    for n, x in direct:
        for c in n.calls():
            if c.func is x and c.args:
                a = c.args[0]
                if isinstance(a, ast.Name):
                    ds = local_defs(f, a.id)
                    refusal_dicts.update(id(d) for d in ds if d is not None)
                else:
                    refusal_dicts.add(id(a))
    table: Dict[str, Set[str]] = {}
    for g in p.all_functions():
        if not _in_scope(g.module.name):
            continue
        for d in walk_self(g.node):
            if not isinstance(d, ast.Dict):
                continue
            for k, v in zip(d.keys, d.values):
                if isinstance(k, ast.Constant) and k.value == 'type':
                    t = p.fold(g.module, v, g.cls, g)
                    if t in OUT_EVENTS:
                        table.setdefault(t, set()).add(g.qual)
                        run.check(id(d) in model.builder_dicts or id(d) in refusal_dicts,
                                  'every %s event is built inside the analysed state machine (or the pre-connect refusal)' % t, g, d,
                                  runtime_witness='an event built elsewhere is emitted without the state guards')
    run.extra['c17_event_builders'] = {k: sorted(v) for k, v in table.items()}
    for t in OUT_EVENTS:
        if t not in table:
            raise AnchorError('no %s event literal found' % t)


def _raw_send_behind_the_gate(run, model: WSModel):
    """Who may call the raw ASGI send INSIDE the state machine (wave 8, seeded s8-c17-3).  The raw send is called only

    (a) by ``close()`` - tabled: the closing operation does its own state test and must be able to put websocket.close on the wire
        after errors, whatever the gate thinks of the receiver's flag (R1 decides its guards and post-state); and
    (b) at a site that IS a gate: every exceptional edge out of the call ends in an ``except`` arm catching Exception, and on
        that arm the server's error is classified - the caught exception is handed to a same-class helper one of whose returns is a
        ``WebSocketDisconnected`` (R1 ties the CLOSED write and the re-raise to that helper's verdict), or a WebSocketDisconnected
        is raised there directly.

    Every other operation (accept, send_*) therefore emits through a gate.  Lemma: a server send() error that means "connection lost"
    leaves EVERY operation as WebSocketDisconnected with the state terminal.
    W: the server's send() raises OSError for the websocket.accept event (client gave up during the handshake): accept() lets the raw
    OSError escape, the state stays HANDSHAKE and the error handler's cleanup sends websocket.close on the lost connection."""
    p = run.project
    n_gates = 0
    for q in sorted(model.visited_funcs):
        g = p.func(q)
        cfg = cfg_of(g, p)
        sends = [n for n in cfg.live_nodes() if any(model.is_raw_send_call(c) for c in n.calls())]
        if not sends:
            continue
        run.use_cfg(cfg)
        send_ids = [n.id for n in sends]
        exc_names = {n.ast.name for n in cfg.live_nodes() if n.kind == 'handler' and isinstance(n.ast, ast.ExceptHandler) and n.ast.name}
        for s in sends:
            call = [c for c in s.calls() if model.is_raw_send_call(c)][0]
            if g.cls is not None and g.cls.qual == WS and g.name == 'close':
                run.ok('close() puts its event on the raw ASGI send itself (tabled: the one operation that must be able to emit after errors; '
                       'its guards and post-state are decided by R1)', g.loc(s.ast), call)
                continue
            excs = [y for (y, l) in cfg.succ[s.id] if l == 'exc']
            caught = bool(excs) and all(cfg.node(y).kind == 'handler' for y in excs) and any(_catches_exception(cfg.node(y)) for y in excs)
            classified, unread = False, None
            if caught:
                for nid in flow.reachable(cfg, excs, avoid_nodes=send_ids):
                    n = cfg.node(nid)
                    if n.kind == 'stmt' and isinstance(n.ast, ast.Raise) and n.ast.exc is not None:
                        e = n.ast.exc.func if isinstance(n.ast.exc, ast.Call) else n.ast.exc
                        rq = p.resolve_expr(g.module, e, g)
                        if rq is not None and (rq == E_DISCONNECTED or p.is_subclass(rq, E_DISCONNECTED) is True):
                            classified = True
                    for c in n.calls():
                        m = model._self_method(g, c)
                        if m is None or not any(isinstance(a, ast.Name) and a.id in exc_names for a in list(c.args) + [kw.value for kw in c.keywords]):
                            continue
                        try:
                            kinds = return_kinds(p, m)
                        except UnknownIdiom as ex:
                            unread = str(ex)
                            continue
                        if any(k != RET_NONE and (k == E_DISCONNECTED or p.is_subclass(k, E_DISCONNECTED) is True) for k in kinds):
                            classified = True
                if not classified and unread is not None:
                    raise UnknownIdiom('%s: the handling of a failed raw send is not understood (%s)' % (g.qual, unread))
            if caught and classified:
                n_gates += 1
            run.check(caught and classified,
                      'the raw ASGI send is called only by close() and at a site where a failing server send() is caught and classified '
                      '(connection loss -> WebSocketDisconnected): every other operation emits through that gate', g, call,
                      witness=['%s: an exception of %s leaves %s() %s' % (g.loc(s.ast), short(call), g.name,
                                                                        'uncaught' if not caught else 'without being classified')],
                      runtime_witness='the server\'s send() raises OSError for the event %s() emits (the client is gone): the raw error escapes instead of '
                                      'WebSocketDisconnected, the state is not marked CLOSED and the error handler\'s cleanup sends websocket.close '
                                      'on the lost connection' % g.name)
    if n_gates == 0:
        raise AnchorError('no call of the raw ASGI send whose failure is caught and classified (the gate _send) was found')


def _ws_ctor(p, f, cfg):
    wscls = p.classes.get(WS)
    found = []
    for n in cfg.live_nodes():
        if n.kind == 'stmt' and isinstance(n.ast, (ast.Assign, ast.AnnAssign)) and isinstance(n.ast.value, ast.Call):
            if p.resolve_callable(f, n.ast.value.func) is wscls:
                tgt = n.ast.targets[0] if isinstance(n.ast, ast.Assign) else n.ast.target
                if not isinstance(tgt, ast.Name):
                    raise UnknownIdiom('%s: WebSocket bound to %s' % (f.qual, short(tgt)))
                found.append((n.ast.value, tgt.id, n.id))
    return single(found, 'WebSocket(...) construction', f.qual)


# ---------------------------------------------------------------------------
# R3
# ---------------------------------------------------------------------------

def _ws_helper_call(p, f: Func, c: ast.Call, ws_name: str):
    """(helper Func, its parameter that receives the socket, {parameter: argument expression}) when `c` hands the socket
    `ws_name` to a method of the class (`self._close_for_status(ws, ...)`) or a module-level function of the package
    (`_close_with_status(ws, ...)`); None otherwise."""
    fn = c.func
    if isinstance(fn, ast.Name) and fn.id not in f.params():
        # `cleanup = self._ws_cleanup_on_error` ... `await cleanup(ws)`: a local bound once to a bound method is that method
        ds = local_defs(f, fn.id)
        if len(ds) == 1 and isinstance(ds[0], ast.Attribute) and isinstance(ds[0].value, ast.Name) and ds[0].value.id == 'self':
            fn = ds[0]
            c = ast.copy_location(ast.Call(func=fn, args=c.args, keywords=c.keywords), c)
    if not ((isinstance(fn, ast.Attribute) and isinstance(fn.value, ast.Name) and fn.value.id == 'self') or isinstance(fn, ast.Name)):
        return None
    if any(isinstance(a, ast.Starred) for a in c.args) or any(kw.arg is None for kw in c.keywords):
        return None
    m = p.callee(f, c)
    if not isinstance(m, Func) or (isinstance(fn, ast.Name) and (m.cls is not None or m.parent is not None)):
        return None
    mp = [a for a in m.params() if not (m.cls is not None and a in ('self', 'cls'))]
    bound: Dict[str, ast.AST] = {}
    for i, a in enumerate(c.args):
        if i < len(mp):
            bound[mp[i]] = a
    for kw in c.keywords:
        bound[kw.arg] = kw.value
    pos = [q for q, a in bound.items() if isinstance(a, ast.Name) and a.id == ws_name]
    if len(pos) != 1:
        return None
    return m, pos[0], bound


def _closing_nodes(p, f: Func, cfg, ws_name: str, depth=0) -> List[int]:
    """Nodes whose normal completion implies that <ws_name>.close() ran."""
    out = []
    for n in cfg.live_nodes():
        for c in n.calls():
            fn = c.func
            if isinstance(fn, ast.Attribute) and fn.attr == 'close' and isinstance(fn.value, ast.Name) and fn.value.id == ws_name:
                out.append(n.id)
            elif depth < 3:
                h = _ws_helper_call(p, f, c, ws_name)
                if h is not None and _always_closes(p, h[0], h[1], None, depth + 1)[0] is None:
                    out.append(n.id)
    return out


def _always_closes(p, f: Func, ws_param: str, resp_param: Optional[str], depth=0):
    """None if every normal return of f (entered with a falsy resp and a
    truthy ws) is preceded by a completed close of ws; else a witness path."""
    cfg = cfg_of(f, p)

    def atom(e):
        if isinstance(e, ast.Name) and e.id == ws_param:
            return {True}
        if isinstance(e, ast.Name) and resp_param and e.id == resp_param:
            return {False}
        if isinstance(e, ast.Compare) and len(e.ops) == 1 and isinstance(e.ops[0], (ast.Is, ast.IsNot)) \
                and isinstance(e.comparators[0], ast.Constant) and e.comparators[0].value is None and isinstance(e.left, ast.Name):
            if e.left.id == ws_param:
                return {isinstance(e.ops[0], ast.IsNot)}
            if resp_param and e.left.id == resp_param:
                return {isinstance(e.ops[0], ast.Is)}
        return None

    closing = _closing_nodes(p, f, cfg, ws_param, depth)
    avoid = [(a, y, l) for a in closing for (y, l) in cfg.succ[a] if l != 'exc']
    return flow.find_path(cfg, [cfg.entry], [cfg.exit], avoid_edges=avoid, edge_filter=feasible(cfg, atom)), cfg, closing


def _registered_handlers(p):
    """(exception class qual, handler Func) registered by App.__init__ of the ASGI app and its bases."""
    out = []
    for cq in p.mro(ASGI_APP):
        c = p.classes.get(cq)
        if c is None or '__init__' not in c.methods:
            continue
        init = c.methods['__init__']
        for call in walk_self(init.node):
            if isinstance(call, ast.Call) and isinstance(call.func, ast.Attribute) and call.func.attr == 'add_error_handler' \
                    and isinstance(call.func.value, ast.Name) and call.func.value.id == 'self' and len(call.args) == 2:
                h = call.args[1]
                if not (isinstance(h, ast.Attribute) and isinstance(h.value, ast.Name) and h.value.id == 'self'):
                    raise UnknownIdiom('%s: handler registration %s' % (init.qual, short(call)))
                m = p.lookup_method(ASGI_APP, h.attr)
                if m is None:
                    raise AnchorError('%s.%s not found' % (ASGI_APP, h.attr))
                out.append((p.resolve_expr(init.module, call.args[0], init), m))
    return out


def _one_def(f: Func, e):
    """Look through a single-assignment local."""
    seen = 0
    while isinstance(e, ast.Name) and e.id not in f.params() and seen < 4:
        ds = local_defs(f, e.id)
        if len(ds) != 1 or ds[0] is None:
            break
        e = ds[0]
        seen += 1
    return e


def r3_always_closed(run):
    r3_session_paths(run)
    _r3_close_codes(run)
    _r3_handler_accepts_ws(run)


_PARAM_KINDS = ('POSITIONAL_ONLY', 'POSITIONAL_OR_KEYWORD', 'VAR_POSITIONAL', 'KEYWORD_ONLY', 'VAR_KEYWORD')
# the kinds of parameter that ``handler(..., ws=<socket>)`` can bind by keyword
_KEYWORD_BINDABLE = (('POSITIONAL_OR_KEYWORD', 'async def handle(req, resp, ex, params, ws=None)'),
                     ('KEYWORD_ONLY', 'async def handle(req, resp, ex, params, *, ws=None)'))


def _conjuncts(expr, truth):
    """[(atom, truth)] that all hold when `expr` evaluates to `truth`; None when that is a disjunction"""
    expr = strip_await(expr)
    if isinstance(expr, ast.UnaryOp) and isinstance(expr.op, ast.Not):
        return _conjuncts(expr.operand, not truth)
    if isinstance(expr, ast.BoolOp):
        if isinstance(expr.op, ast.And) == truth:
            out = []
            for v in expr.values:
                r = _conjuncts(v, truth)
                if r is None:
                    return None
                out += r
            return out
        return None
    return [(expr, truth)]


def _reported_param_kinds(p, h: Func) -> Dict[str, bool]:
    """Abstract evaluation of an "argument names of this callable" helper over the five ``inspect.Parameter`` kinds:
    kind -> is a parameter of that kind reported.  Understood: ``return <names>`` where every value of <names> is either a
    comprehension over ``inspect.signature(<parameter>).parameters.values()`` / ``.items()`` yielding the parameter's name under filters
    on ``<param>.kind`` (==, !=, is, is not, in, not in against inspect.Parameter.<KIND> constants, and/or/not), or the same list minus a
    leading element guarded by ``<names>[0] == '<constant>'`` (the 'self' normalisation).  Anything else: unknown idiom."""
    hp = [a for a in h.params() if a not in ('self', 'cls')]
    rets = [n for n in walk_self(h.node) if isinstance(n, ast.Return)]
    if not rets:
        raise UnknownIdiom('%s never returns' % h.qual)
    cfg = cfg_of(h, p)

    def is_signature_of_param(e, depth=0):
        e = _one_def(h, e)
        return (isinstance(e, ast.Call) and p.resolve_expr(h.module, e.func, h) == 'inspect.signature' and len(e.args) == 1 and not e.keywords
                and isinstance(e.args[0], ast.Name) and e.args[0].id in hp)

    def kind_const(e):
        q = p.resolve_expr(h.module, e, h)
        if q is not None and q.startswith('inspect.Parameter.') and q.rsplit('.', 1)[1] in _PARAM_KINDS:
            return q.rsplit('.', 1)[1]
        if q is not None and q.startswith('inspect._ParameterKind.') and q.rsplit('.', 1)[1] in _PARAM_KINDS:
            return q.rsplit('.', 1)[1]
        raise UnknownIdiom('%s: %s compared with the parameter kind' % (h.qual, short(e)))

    def comp_kinds(c):
        if len(c.generators) != 1 or c.generators[0].is_async:
            raise UnknownIdiom('%s: %s' % (h.qual, short(c)))
        gen = c.generators[0]
        it = gen.iter
        if not (isinstance(it, ast.Call) and isinstance(it.func, ast.Attribute) and it.func.attr in ('values', 'items') and not it.args
                and isinstance(it.func.value, ast.Attribute) and it.func.value.attr == 'parameters' and is_signature_of_param(it.func.value.value)):
            raise UnknownIdiom('%s: the names are not taken from inspect.signature(<callable>).parameters (%s)' % (h.qual, short(it)))
        name_var = par_var = None
        if it.func.attr == 'values' and isinstance(gen.target, ast.Name):
            par_var = gen.target.id
        elif it.func.attr == 'items' and isinstance(gen.target, ast.Tuple) and len(gen.target.elts) == 2 and all(isinstance(x, ast.Name) for x in gen.target.elts):
            name_var, par_var = gen.target.elts[0].id, gen.target.elts[1].id
        else:
            raise UnknownIdiom('%s: loop target of %s' % (h.qual, short(c)))
        elt = c.elt
        if not ((isinstance(elt, ast.Name) and elt.id == name_var)
                or (isinstance(elt, ast.Attribute) and elt.attr == 'name' and isinstance(elt.value, ast.Name) and elt.value.id == par_var)):
            raise UnknownIdiom('%s: %s is not the name of the parameter' % (h.qual, short(elt)))

        def is_kind(e):
            return isinstance(e, ast.Attribute) and e.attr == 'kind' and isinstance(e.value, ast.Name) and e.value.id == par_var

        out = {}
        for kind in _PARAM_KINDS:
            def atom(e, kind=kind):
                if isinstance(e, (ast.BoolOp, ast.Constant)) or (isinstance(e, ast.UnaryOp) and isinstance(e.op, ast.Not)):
                    return None
                if isinstance(e, ast.Compare) and len(e.ops) == 1 and (is_kind(e.left) or is_kind(e.comparators[0])):
                    other = e.comparators[0] if is_kind(e.left) else e.left
                    op = e.ops[0]
                    if isinstance(op, (ast.In, ast.NotIn)) and is_kind(e.left) and isinstance(other, (ast.Tuple, ast.List, ast.Set)):
                        r = kind in [kind_const(x) for x in other.elts]
                        return {r if isinstance(op, ast.In) else not r}
                    if isinstance(op, (ast.Eq, ast.Is, ast.NotEq, ast.IsNot)):
                        r = kind == kind_const(other)
                        return {r if isinstance(op, (ast.Eq, ast.Is)) else not r}
                raise UnknownIdiom('%s: filter %s on the reported parameters' % (h.qual, short(e)))
            vals = [possible(cond, atom) for cond in gen.ifs]
            if any(len(v) != 1 for v in vals):
                raise UnknownIdiom('%s: filter of %s not decided for kind %s' % (h.qual, short(c), kind))
            out[kind] = all(True in v for v in vals)
        return out

    def kinds_of(e, seen=()):
        """-> {kind: reported} for the sequence-of-names expression e"""
        if isinstance(e, ast.Call) and isinstance(e.func, ast.Name) and e.func.id in ('list', 'tuple') and len(e.args) == 1 and not e.keywords:
            return kinds_of(e.args[0], seen)
        if isinstance(e, (ast.ListComp, ast.GeneratorExp)):
            return comp_kinds(e)
        if isinstance(e, ast.Name) and e.id not in h.params() and e.id not in seen:
            results = []
            for n in walk_self(h.node):
                if isinstance(n, ast.AnnAssign) and isinstance(n.target, ast.Name) and n.target.id == e.id and n.value is not None:
                    tg, val = [n.target], n.value
                elif isinstance(n, ast.Assign):
                    tg, val = n.targets, n.value
                elif isinstance(n, (ast.AugAssign, ast.For, ast.AsyncFor, ast.NamedExpr, ast.Delete)) and any(
                        isinstance(x, ast.Name) and x.id == e.id and isinstance(x.ctx, (ast.Store, ast.Del)) for x in ast.walk(n)):
                    raise UnknownIdiom('%s: %s is rebound by %s' % (h.qual, e.id, short(n)))
                else:
                    continue
                if not any(isinstance(t, ast.Name) and t.id == e.id for t in tg):
                    if any(isinstance(x, ast.Name) and x.id == e.id for t in tg for x in ast.walk(t)):
                        raise UnknownIdiom('%s: %s is rebound by %s' % (h.qual, e.id, short(n)))
                    continue
                # <names> = <names>[k:] under a test <names>[0] == '<const>': drops a leading name equal to that constant only
                if isinstance(val, ast.Subscript) and isinstance(val.value, ast.Name) and val.value.id == e.id and isinstance(val.slice, ast.Slice) \
                        and val.slice.upper is None and val.slice.step is None and p.fold(h.module, val.slice.lower, None, h) == 1:
                    def first_is_const(x, name=e.id):
                        return (isinstance(x, ast.Compare) and len(x.ops) == 1 and isinstance(x.ops[0], ast.Eq) and isinstance(x.left, ast.Subscript)
                                and isinstance(x.left.value, ast.Name) and x.left.value.id == name and p.fold(h.module, x.left.slice, None, h) == 0
                                and isinstance(p.fold(h.module, x.comparators[0], None, h), str) and p.fold(h.module, x.comparators[0], None, h) != 'ws')
                    nodes = cfg.nodes_for(n)
                    guarded = bool(nodes) and all(any(implied(t.ast, lab == 'T', first_is_const) is True
                                                      and any(flow.dominated_by_edge(cfg, nid, ed) for ed in flow.edges_out(cfg, t.id, lab))
                                                      for t in cfg.live_nodes() if t.kind == 'test' for lab in ('T', 'F')) for nid in nodes)
                    if not guarded:
                        raise UnknownIdiom('%s: %s drops leading names unconditionally' % (h.qual, short(n)))
                    continue
                results.append(kinds_of(val, seen + (e.id,)))
            if not results:
                raise UnknownIdiom('%s: values of %s not understood' % (h.qual, e.id))
            return {k: all(r[k] for r in results) for k in _PARAM_KINDS}
        raise UnknownIdiom('%s: the reported names %s' % (h.qual, short(e)))

    per_ret = []
    for r in rets:
        if r.value is None:
            raise UnknownIdiom('%s: bare return' % h.qual)
        per_ret.append(kinds_of(r.value))
    return {k: all(r[k] for r in per_ret) for k in _PARAM_KINDS}


def _r3_handler_accepts_ws(run):
    """``_handle_exception`` hands the socket to the selected error handler "when the handler accepts it" (wave 8, seeded s8-c17-1):
    the condition under which ``ws`` is put among the handler's keyword arguments may, besides the socket being there, only be
    ``'ws' in <helper>(<handler>)``, and that helper - evaluated abstractly over the five ``inspect.Parameter`` kinds - reports the
    parameters of EVERY kind that can be bound by keyword (POSITIONAL_OR_KEYWORD and KEYWORD_ONLY).
    W: ``async def handle(req, resp, ex, params, *, ws=None)`` registered for the raised exception: it is called without the socket,
    cannot close it, _handle_exception() returns True and the session ends without a websocket.close."""
    p = run.project
    he = p.func(ASGI_APP + '._handle_exception')
    hcfg = cfg_of(he, p)
    finder = [n for n in walk_self(he.node) if isinstance(n, ast.Assign) and isinstance(strip_await(n.value), ast.Call)
              and isinstance(strip_await(n.value).func, ast.Attribute) and strip_await(n.value).func.attr == '_find_error_handler'
              and isinstance(n.targets[0], ast.Name)]
    hname = single(finder, 'self._find_error_handler(...) binding', he.qual).targets[0].id
    stores = [m for m in hcfg.live_nodes() if m.kind == 'stmt' and isinstance(m.ast, ast.Assign) and len(m.ast.targets) == 1
              and isinstance(m.ast.targets[0], ast.Subscript) and isinstance(m.ast.targets[0].slice, ast.Constant) and m.ast.targets[0].slice.value == 'ws'
              and isinstance(m.ast.value, ast.Name) and m.ast.value.id == 'ws']
    if not stores:
        return  # ws passed as a direct keyword (or not at all): decided by r3_session_paths

    def mentions(e, name):
        return any(isinstance(x, ast.Name) and x.id == name for x in ast.walk(e))

    helpers: Dict[str, Func] = {}
    for s in stores:
        for t in hcfg.live_nodes():
            if t.kind != 'test':
                continue
            for lab in ('T', 'F'):
                if not any(flow.dominated_by_edge(hcfg, s.id, e) for e in flow.edges_out(hcfg, t.id, lab)):
                    continue
                if not (mentions(t.ast, 'ws') or mentions(t.ast, hname)):
                    continue
                cj = _conjuncts(t.ast, lab == 'T')
                if cj is None:
                    raise UnknownIdiom('%s: condition %s on handing ws to the handler' % (he.qual, short(t.ast)))
                for (a, truth) in cj:
                    if isinstance(a, ast.Name) and a.id in ('ws', hname) and truth:
                        continue
                    if isinstance(a, ast.Compare) and len(a.ops) == 1 and isinstance(a.ops[0], (ast.Is, ast.IsNot)) and isinstance(a.left, ast.Name) \
                            and a.left.id in ('ws', hname) and isinstance(a.comparators[0], ast.Constant) and a.comparators[0].value is None \
                            and isinstance(a.ops[0], ast.IsNot) == truth:
                        continue
                    if isinstance(a, ast.Compare) and len(a.ops) == 1 and isinstance(a.ops[0], (ast.In, ast.NotIn)) and isinstance(a.ops[0], ast.In) == truth \
                            and isinstance(a.left, ast.Constant) and a.left.value == 'ws':
                        c = _one_def(he, a.comparators[0])
                        if isinstance(c, ast.Call) and len(c.args) == 1 and not c.keywords and isinstance(c.args[0], ast.Name) and c.args[0].id == hname:
                            m = p.callee(he, c)
                            if isinstance(m, Func):
                                helpers[m.qual] = m
                                continue
                    if mentions(a, 'ws') or mentions(a, hname):
                        raise UnknownIdiom('%s: condition %s on handing ws to the handler' % (he.qual, short(a)))
    if not helpers:
        run.ok('_handle_exception hands ws to the selected handler whenever there is a socket (no test of the handler\'s signature)', he.loc(), 'ws handed over')
        return
    for q, m in sorted(helpers.items()):
        kinds = _reported_param_kinds(p, m)
        run.sample({'rule': 'R3', 'helper': q, 'reported parameter kinds': kinds})
        for kind, example in _KEYWORD_BINDABLE:
            run.check(kinds[kind], '%s (how _handle_exception decides whether the selected error handler accepts ws=<socket>) reports '
                                   'parameters of kind %s' % (m.name, kind), m, '%s reports %s parameters' % (m.name, kind),
                      runtime_witness='a custom error handler declared as "%s" is called without the socket: it cannot close it, '
                                      '_handle_exception() returns True and the session ends without a websocket.close' % example)


def r3_session_paths(run):
    """Every framework path that ends a WebSocket session passes a completed ``ws.close()``: after the responder,
    through the except arm -> _handle_exception(ws=...) -> the registered default handlers.  Shared with C18 (R5):
    ``close()`` is the only caller of the receive pump's ``stop()`` (C18 R4), so a path that skips it - also one that
    skips it only when the socket already reports ``closed`` / not ``ready``, which is the case as soon as the CLIENT
    side is gone - leaves the pump task running.  Tests on properties of the socket are non-deterministic here."""
    p = run.project
    f = p.func(HANDLE_WS)
    cfg = cfg_of(f, p)
    run.use_cfg(cfg)
    _call, ws_name, ctor_node = _ws_ctor(p, f, cfg)
    # responder role: first component of the tuple unpacked from self._get_responder(...)
    responder = None
    for n in walk_self(f.node):
        if isinstance(n, ast.Assign) and len(n.targets) == 1 and isinstance(n.targets[0], ast.Tuple):
            v = strip_await(n.value)
            if isinstance(v, ast.Call) and isinstance(v.func, ast.Attribute) and v.func.attr == '_get_responder' and isinstance(n.targets[0].elts[0], ast.Name):
                responder = n.targets[0].elts[0].id
    if responder is None:
        raise AnchorError('%s: unpacking of self._get_responder() not found' % f.qual)
    resp_nodes = [n.id for n in cfg.live_nodes() if any(isinstance(c.func, ast.Name) and c.func.id == responder for c in n.calls())]
    if not resp_nodes:
        raise AnchorError('%s: responder call not found' % f.qual)
    closing = _closing_nodes(p, f, cfg, ws_name)
    avoid = [(a, y, l) for a in closing for (y, l) in cfg.succ[a] if l != 'exc']
    # (branches on a parameter nobody passes - `_close_on_return: bool = True` - are evaluated for its default)
    inert_ok = feasible(cfg, lambda e: None)
    for rn in resp_nodes:
        starts = [y for (y, l) in cfg.succ[rn] if l != 'exc']
        path = flow.find_path(cfg, starts, [cfg.exit], avoid_edges=avoid, edge_filter=lambda a, b, l: l != 'exc' and inert_ok(a, b, l))
        run.check(path is None, '_handle_websocket: after the responder returns, close() is awaited on every normal path', f, cfg.node(rn).ast,
                  witness=flow.describe_path(cfg, [rn] + path) if path else None,
                  runtime_witness='a responder that returns without closing leaves the connection open (no websocket.close sent)')
    # every exception after the socket exists goes to an except-Exception arm that calls _handle_exception(ws=socket)
    handlers = [n.id for n in cfg.live_nodes() if n.kind == 'handler']
    region = flow.reachable(cfg, [y for (y, l) in cfg.succ[ctor_node] if l != 'exc'], avoid_nodes=handlers)
    used_handlers = set()
    n_raising = 0
    for nid in sorted(region):
        excs = [y for (y, l) in cfg.succ[nid] if l == 'exc']
        if not excs:
            continue
        n_raising += 1
        n = cfg.node(nid)
        good = True
        for y in excs:
            t = cfg.node(y)
            if t.kind != 'handler':
                good = False
            else:
                used_handlers.add(y)
        catch_all = any(_catches_exception(cfg.node(y)) for y in excs if cfg.node(y).kind == 'handler')
        run.check(good and catch_all, '_handle_websocket: an exception raised here is caught by the except-Exception arm', f,
                  n.ast if n.ast is not None else n.text(), where='%s:%s' % (f.file, n.lineno),
                  runtime_witness='an exception from middleware/responder escapes and the socket is never closed')
    if n_raising < 3:
        raise AnchorError('%s: protected region after WebSocket() not found' % f.qual)

    def passes_ws(c):
        for kw in c.keywords:
            if kw.arg == 'ws' and isinstance(kw.value, ast.Name) and kw.value.id == ws_name:
                return True
        return len(c.args) >= 5 and isinstance(c.args[4], ast.Name) and c.args[4].id == ws_name

    handle_nodes = [n.id for n in cfg.live_nodes() for c in n.calls()
                    if isinstance(c.func, ast.Attribute) and c.func.attr == '_handle_exception' and passes_ws(c)]
    for h in sorted(used_handlers):
        if not _catches_exception(cfg.node(h)):
            continue
        path = flow.find_path(cfg, [h], [cfg.exit, cfg.xexit], avoid_nodes=handle_nodes)
        run.check(path is None, '_handle_websocket: the except arm hands the exception to _handle_exception(..., ws=<socket>)', f,
                  'except %s' % short(cfg.node(h).ast.type) if cfg.node(h).ast.type is not None else 'except',
                  witness=flow.describe_path(cfg, path) if path else None,
                  runtime_witness='an error handler is invoked without the socket and cannot close it')
    # _handle_exception forwards the socket
    he = p.func(ASGI_APP + '._handle_exception')
    hcfg = cfg_of(he, p)
    run.use_cfg(hcfg)
    if 'ws' not in he.params():
        raise AnchorError('%s has no ws parameter' % he.qual)
    n_fw = 0
    for c in walk_self(he.node):
        if isinstance(c, ast.Call) and isinstance(c.func, ast.Attribute) and isinstance(c.func.value, ast.Name) and c.func.value.id == 'self':
            m = p.callee(he, c)
            if isinstance(m, Func) and 'ws' in m.params():
                n_fw += 1
                ok = any(kw.arg == 'ws' and isinstance(kw.value, ast.Name) and kw.value.id == 'ws' for kw in c.keywords)
                mp = [a for a in m.params() if a != 'self']
                if 'ws' in mp and mp.index('ws') < len(c.args):
                    a = c.args[mp.index('ws')]
                    ok = ok or (isinstance(a, ast.Name) and a.id == 'ws')
                run.check(ok, '_handle_exception forwards the socket to the default handler it re-dispatches to', he, c,
                          runtime_witness='HTTPError raised by a custom WebSocket error handler is rendered with resp=None and ws=None')
    # dynamic handler call gets ws through **kwargs
    finder = [n for n in walk_self(he.node) if isinstance(n, ast.Assign) and isinstance(strip_await(n.value), ast.Call)
              and isinstance(strip_await(n.value).func, ast.Attribute) and strip_await(n.value).func.attr == '_find_error_handler'
              and isinstance(n.targets[0], ast.Name)]
    hname = single(finder, 'self._find_error_handler(...) binding', he.qual).targets[0].id
    dyn = [n for n in hcfg.live_nodes() for c in n.calls() if isinstance(c.func, ast.Name) and c.func.id == hname]
    if not dyn:
        raise AnchorError('%s: call of the selected error handler not found' % he.qual)
    for n in dyn:
        c = [c for c in n.calls() if isinstance(c.func, ast.Name) and c.func.id == hname][0]
        star = [kw.value.id for kw in c.keywords if kw.arg is None and isinstance(kw.value, ast.Name)]
        direct = any(kw.arg == 'ws' for kw in c.keywords)
        stores = [m.id for m in hcfg.live_nodes() if m.kind == 'stmt' and isinstance(m.ast, ast.Assign) and len(m.ast.targets) == 1
                  and isinstance(m.ast.targets[0], ast.Subscript) and isinstance(m.ast.targets[0].value, ast.Name)
                  and m.ast.targets[0].value.id in star and isinstance(m.ast.targets[0].slice, ast.Constant) and m.ast.targets[0].slice.value == 'ws'
                  and isinstance(m.ast.value, ast.Name) and m.ast.value.id == 'ws']
        ok = direct or any(n.id in flow.reachable(hcfg, [s], edge_filter=flow.no_exc) for s in stores)
        run.check(ok, '_handle_exception passes ws=<socket> to the selected handler (when the handler accepts it)', he, c,
                  runtime_witness='a custom handler declaring ws receives None and cannot close the socket')
    # the registered default handlers close the socket on their ws branch
    regs = _registered_handlers(p)
    if len(regs) < 4:
        raise AnchorError('expected at least 4 default error handlers registered by %s.__init__, found %d' % (ASGI_APP, len(regs)))
    for (excq, h) in regs:
        run.use_cfg(cfg_of(h, p))
        hp = [a for a in h.params() if a != 'self']
        if 'ws' not in hp or len(hp) < 4:
            raise UnknownIdiom('%s: default handler without a ws parameter' % h.qual)
        resp_param, exc_param = hp[1], hp[2]
        path, hc, closing = _always_closes(p, h, 'ws', resp_param)
        run.check(path is None, '%s: with resp=None and a socket, every normal return follows a completed ws.close() '
                                '(whatever the socket\'s closed/ready properties say: close() is also what stops the receive pump)' % h.name, h,
                  '%s ws-branch closes' % h.name, witness=flow.describe_path(hc, path) if path else None,
                  runtime_witness='an exception of type %s in a WebSocket responder leaves the connection open '
                                  '(or, with the client already gone and a full receive queue, the pump task running)' % (excq or '?').rsplit('.', 1)[-1])


def _r3_close_codes(run):
    """code mapping of the default handlers; unrouted -> 3404, no responder -> 3405"""
    p = run.project
    model = _model(run)
    for (excq, h) in _registered_handlers(p):
        hp = [a for a in h.params() if a != 'self']
        if 'ws' not in hp or len(hp) < 4:
            raise UnknownIdiom('%s: default handler without a ws parameter' % h.qual)
        resp_param, exc_param = hp[1], hp[2]
        _path, hc, closing = _always_closes(p, h, 'ws', resp_param)
        # code mapping
        is_http = excq is not None and (p.is_subclass(excq, 'falcon.http_error.HTTPError') is True or p.is_subclass(excq, 'falcon.http_status.HTTPStatus') is True)
        for nid in closing:
            for c in hc.node(nid).calls():
                fn = c.func
                scope, bound = h, {}
                if not (isinstance(fn, ast.Attribute) and fn.attr == 'close' and isinstance(fn.value, ast.Name) and fn.value.id == 'ws'):
                    # the close made by a helper that is handed the socket (and the status): judged at the helper's own close calls,
                    # its parameters read as the handler's arguments
                    hc_ = _ws_helper_call(p, h, c, 'ws') if is_http else None
                    if hc_ is None:
                        continue
                    scope, wsp_, bound = hc_
                    inner = [c2 for n2 in cfg_of(scope, p).live_nodes() for c2 in n2.calls() if isinstance(c2.func, ast.Attribute)
                             and c2.func.attr == 'close' and isinstance(c2.func.value, ast.Name) and c2.func.value.id == wsp_]
                    if not inner:
                        raise UnknownIdiom('%s: %s closes the socket, but not by a close call of its own' % (h.qual, scope.qual))
                else:
                    inner = [c]
                if not is_http:
                    # a generic-error handler that closes the socket itself: judged like the cleanup helper (configured code AND the
                    # fallback for a rejected code around that very call), see _cleanup_codes
                    continue
                for c2 in inner:
                    arg = _one_def(scope, c2.args[0]) if c2.args else None
                    ok = False
                    if isinstance(arg, ast.Call) and len(arg.args) == 1:
                        g = p.callee(scope, arg)
                        a = arg.args[0]
                        if scope is not h and isinstance(a, ast.Name) and a.id in bound and not local_defs(scope, a.id):
                            a = bound[a.id]
                        if isinstance(g, Func) and isinstance(a, ast.Attribute) and a.attr == 'status_code' and isinstance(a.value, ast.Name) and a.value.id == exc_param:
                            ok = _adds_3000(p, g)
                    run.check(ok, '%s closes with 3000 + the HTTP status code of the raised %s' % (h.name, (excq or '?').rsplit('.', 1)[-1]), scope, c2,
                              runtime_witness='HTTPNotFound raised in on_websocket closes with a code other than 3404')
        if not is_http:
            _cleanup_codes(run, model, h)
    # unrouted -> 404, missing responder -> 405
    _default_responder_status(run)


def _catches_exception(node) -> bool:
    h = node.ast
    if not isinstance(h, ast.ExceptHandler):
        return False
    if h.type is None:
        return True
    ts = h.type.elts if isinstance(h.type, ast.Tuple) else [h.type]
    return any(isinstance(t, ast.Name) and t.id in ('Exception', 'BaseException') for t in ts)


def _adds_3000(p, g: Func) -> bool:
    e = single_return_expr(g)
    params = [a for a in g.params() if a != 'self']
    if e is None or not params:
        raise UnknownIdiom('%s: shape of the status->close-code mapping' % g.qual)
    if isinstance(e, ast.BinOp) and isinstance(e.op, ast.Add):
        for a, b in ((e.left, e.right), (e.right, e.left)):
            if isinstance(a, ast.Name) and a.id == params[0] and p.fold(g.module, b, None, g) == 3000:
                return True
    return False


def _cleanup_codes(run, model: WSModel, h: Func):
    """generic errors (Exception, WebSocketDisconnected): close(error_close_code), falling back to a valid constant code when
    close() - or the server - rejects it.  The clause is about every function on the default error path that closes the socket
    with the configured code: the cleanup helper the handlers delegate to, and a handler that closes DIRECTLY.  A direct
    ``ws.close(<configured code>)`` with no handler around it from which a fallback close is reachable is a violation
    (seed s9-c17-3: `await self._ws_cleanup_on_error(ws)` -> `await ws.close(self.ws_options.error_close_code)` in
    _python_error_handler: a server that refuses 1011 gets no close at all and the exception escapes the ASGI callable)."""
    p = run.project
    hc = cfg_of(h, p)
    targets = []
    for n in hc.live_nodes():
        for c in n.calls():
            hc_ = _ws_helper_call(p, h, c, 'ws')        # a method of the class or a module-level function handed the socket
            if hc_ is not None:
                targets.append((hc_[0], hc_[1]))
            elif isinstance(p.callee(h, c), Func) and any(isinstance(a, ast.Name) and a.id == 'ws' for a in list(c.args) + [kw.value for kw in c.keywords]) \
                    and isinstance(c.func, ast.Attribute) and isinstance(c.func.value, ast.Name) and c.func.value.id == 'self':
                raise UnknownIdiom('%s: how %s receives the socket' % (h.qual, short(c)))
            elif isinstance(c.func, ast.Attribute) and c.func.attr == 'close' and isinstance(c.func.value, ast.Name) and c.func.value.id == 'ws':
                targets.append((h, 'ws'))
    if not targets:
        raise UnknownIdiom('%s: neither closes the socket nor hands it to a helper' % h.qual)
    for (m, wsp) in targets:
        done = run.__dict__.setdefault('_c17_done', set())
        if m.qual in done:
            continue
        done.add(m.qual)
        cfg = cfg_of(m, p)
        run.use_cfg(cfg)
        closes = [(n, c) for n in cfg.live_nodes() for c in n.calls() if isinstance(c.func, ast.Attribute) and c.func.attr == 'close'
                  and isinstance(c.func.value, ast.Name) and c.func.value.id == wsp]
        def configured_code(e, n, m=m):
            e = _one_def(m, e)        # looks through a single-assignment local
            if isinstance(e, ast.Attribute) and e.attr == 'error_close_code':
                return True
            if isinstance(e, ast.Name):
                # a local / parameter bound on several paths (`def helper(self, ws, code=None)` ... `if code is None: code =
                # self.ws_options.error_close_code`): every value it can hold at the close, a parameter being what the package's own
                # calls pass (nobody passes it: the declared default, and None does not survive the `is None` rebinding)
                vals = values_at(p, m, e.id, n.id)
                if vals:
                    return all(isinstance(_one_def(sc, v) if sc is not None else v, ast.Attribute)
                               and (_one_def(sc, v) if sc is not None else v).attr == 'error_close_code' for (sc, v) in vals)
            return False

        first = [(n, c) for (n, c) in closes if (c.args and configured_code(c.args[0], n))
                 or any(kw.arg == 'code' and configured_code(kw.value, n) for kw in c.keywords)]
        if not first:
            run.fail('%s: the socket is not closed with ws_options.error_close_code' % m.name, m, closes[0][1] if closes else m.name)
            continue
        for (n, c) in first:
            run.ok('%s closes with the configured ws_options.error_close_code' % m.name, m.loc(c), c)
            hs = [y for (y, l) in cfg.succ[n.id] if l == 'exc' and cfg.node(y).kind == 'handler']
            fallback = [(n2, c2) for (n2, c2) in closes if c2 is not c and n2.id in flow.reachable(cfg, hs)]
            if not fallback:
                run.fail('%s: no fallback close when the configured code is rejected' % m.name, m, c,
                         runtime_witness='error_close_code=999 -> ValueError escapes, no close event is sent')
                continue
            _fallback_for_any_exception(run, m, cfg, n, c, fallback)
            for (n2, c2) in fallback:
                v = fold_local(p, m, c2.args[0]) if c2.args else UNKNOWN
                verdict = _classify_code(p, model, v) if isinstance(v, int) else None
                run.check(verdict == 'accept', '%s: the fallback close code is a constant that close() itself accepts' % m.name, m, c2,
                          runtime_witness='the fallback close raises ValueError again and no close event is sent')
                # the branch that selects the fallback recognises the messages of close()'s own rejections
                lits = []
                for t in cfg.live_nodes():
                    if t.kind == 'test' and any(flow.dominated_by_edge(cfg, n2.id, e) for e in flow.edges_out(cfg, t.id, 'T')):
                        for x in walk_self(t.ast):
                            if isinstance(x, ast.Compare) and len(x.ops) == 1 and isinstance(x.ops[0], ast.In):
                                # the marker: a literal or a module-level constant; the text searched: in place or a local bound
                                # once (`message = str(ex).lower()`)
                                marker = fold_local(p, m, x.left)
                                if not isinstance(marker, str):
                                    continue
                                lower = any(isinstance(y, ast.Attribute) and y.attr == 'lower' for y in walk_self(_one_def(m, x.comparators[0])))
                                lits.append((marker, lower, x))
                msgs = _range_rejection_messages(p, model)
                for (lit, lower, x) in lits:
                    missing = [mm for mm in msgs if lit not in (mm.lower() if lower else mm)]
                    run.check(not missing, '%s: the fallback is selected for every message close() uses to reject an out-of-range code' % m.name, m, x,
                              witness=['not matched: %r' % mm for mm in missing],
                              runtime_witness='error_close_code=999: the ValueError text is not recognised, the error is re-raised and no close is sent')


def _handler_catches_plain_exception(p, f: Func, h: ast.ExceptHandler) -> bool:
    """does `h` catch an instance of class Exception itself (what a server raises when it has no better class)"""
    if h.type is None:
        return True
    for t in (h.type.elts if isinstance(h.type, ast.Tuple) else [h.type]):
        q = p.resolve_expr(f.module, t, f)
        if q is None:
            raise UnknownIdiom('%s: exception class %s of an except clause around the close' % (f.qual, short(t)))
        r = p.is_subclass('builtins.Exception', q)
        if r is None:
            raise UnknownIdiom('%s: cannot decide whether except %s catches Exception' % (f.qual, short(t)))
        if r:
            return True
    return False


def _fallback_for_any_exception(run, m: Func, cfg, n, c, fallback):
    """The cleanup fallback serves *every* failure of the first close attempt - close()'s own ValueError for a
    misconfigured code and whatever the SERVER's send() raises when it refuses the code (Daphne/Autobahn: a plain
    ``Exception('invalid close code 1011')``).  Decided by dispatching an exception of class ``Exception`` raised by
    the first ``ws.close(<configured code>)`` over the enclosing ``try`` statements (innermost first, clauses in
    order): the first clause that catches it must be able to reach the fallback close.  How that arm then decides
    (today: a test of the message) is read by the caller, not frozen here.

    A fallback that is reachable only from arms for narrower classes is a violation on those ``except`` clauses."""
    p = run.project
    parent = enclosing_map(m.node)
    stmt = n.ast if n.ast is not None else n.stmt
    arm = None
    child = stmt
    for a in ancestors(stmt, parent):
        if isinstance(a, (ast.FunctionDef, ast.AsyncFunctionDef, ast.Lambda)):
            break
        if isinstance(a, ast.Try) and any(child is s for s in a.body):
            for h in a.handlers:
                if _handler_catches_plain_exception(p, m, h):
                    arm = h
                    break
            if arm is not None:
                break
        elif getattr(ast, 'TryStar', None) is not None and isinstance(a, ast.TryStar):
            raise UnknownIdiom('%s: except* around the close' % m.qual)
        child = a
    fb_nodes = [n2.id for (n2, _c2) in fallback]

    def reaches(h):
        hn = [i for i in cfg.nodes_for(h) if cfg.node(i).kind == 'handler']
        if not hn:
            raise UnknownIdiom('%s: except clause %s not found in the CFG' % (m.qual, short(h.type) if h.type is not None else ''))
        return bool(flow.reachable(cfg, hn) & set(fb_nodes))

    ok = arm is not None and reaches(arm)
    what = ('%s: an exception of class Exception raised by the first close attempt (a server that refuses the configured code) is '
            'caught by an arm from which the fallback close is reachable' % m.name)
    rw = ('Daphne/Autobahn refuse error_close_code 1011 with a plain Exception("invalid close code 1011") from send(): the fallback close '
          'with the framework\'s own code is never attempted, no close reaches the client and the ASGI callable raises')
    if ok:
        run.ok(what, m.loc(arm), 'except %s' % short(arm.type) if arm.type is not None else 'except')
        return
    narrow = []
    for y in [y for (y, l) in cfg.succ[n.id] if l == 'exc' and cfg.node(y).kind == 'handler']:
        h = cfg.node(y).ast
        if h is not arm and isinstance(h, ast.ExceptHandler) and flow.reachable(cfg, [y]) & set(fb_nodes):
            narrow.append(h)
    if not narrow:
        raise UnknownIdiom('%s: the fallback close is reachable from the failed first close, but not through an except clause' % m.qual)
    for h in narrow:
        run.fail(what, m, 'except %s' % short(h.type) if h.type is not None else 'except', where=m.loc(h),
                 witness=['first attempt: %s %s' % (m.loc(c), short(c)),
                          'fallback only under: except %s' % (short(h.type) if h.type is not None else ''),
                          'an Exception is dispatched to: %s' % ('%s except %s' % (m.loc(arm), short(arm.type) if arm.type is not None else '')
                                                                 if arm is not None else 'no clause (it escapes)')],
                 runtime_witness=rw)


def _default_responder_status(run):
    p = run.project
    for attr, want in (('_default_responder_path_not_found', '404'),):
        c, val = p.lookup_class_attr(ASGI_APP, attr)
        if val is None:
            raise AnchorError('%s.%s not found' % (ASGI_APP, attr))
        q = p.resolve_expr(c.module, val)
        g = p.funcs.get(q) if q else None
        if not isinstance(g, Func):
            raise UnknownIdiom('%s.%s = %s' % (ASGI_APP, attr, short(val)))
        _raises_status(run, g, want, 'an unrouted WebSocket path')
    mk = p.func('falcon.responders.create_method_not_allowed')
    asyncs = [g for g in mk.nested.values() if g.is_async]
    g = single(asyncs, 'async method-not-allowed responder', mk.qual)
    _raises_status(run, g, '405', 'a resource without on_websocket')


def _raises_status(run, g: Func, want: str, what: str):
    p = run.project
    raises = [n for n in walk_self(g.node) if isinstance(n, ast.Raise) and n.exc is not None]
    r = single(raises, 'raise', g.qual)
    e = r.exc.func if isinstance(r.exc, ast.Call) else r.exc
    q = p.resolve_expr(g.module, e, g)
    if q not in p.classes and isinstance(e, ast.Name):
        # an instance built once by this function or an enclosing one (`error = HTTPMethodNotAllowed(...)` ... `raise error`): the status
        # is that of its class (whether one instance may be raised for every request is C19's question, not this rule's)
        h = g
        while h is not None and q not in p.classes:
            ds = local_defs(h, e.id)
            if len(ds) == 1 and isinstance(ds[0], ast.Call) and not isinstance(r.exc, ast.Call):
                q = p.resolve_expr(h.module, ds[0].func, h)
            elif len(ds) == 1 and isinstance(ds[0], (ast.Name, ast.Attribute)):
                q = p.resolve_expr(h.module, ds[0], h)         # an alias of the class
            elif ds:
                break
            h = h.parent
    if q not in p.classes:
        raise UnknownIdiom('%s raises %s' % (g.qual, short(r.exc)))
    init = p.lookup_method(q, '__init__')
    status = None
    if init is not None:
        for c in walk_self(init.node):
            if isinstance(c, ast.Call) and isinstance(c.func, ast.Attribute) and c.func.attr == '__init__' and c.args:
                v = p.fold(init.module, c.args[0], None, init)
                if isinstance(v, str):
                    status = v
    if status is None:
        raise UnknownIdiom('status of %s not found' % q)
    run.check(status.startswith(want), '%s raises %s whose status is %s (-> close code %d)' % (what, q.rsplit('.', 1)[1], want, 3000 + int(want)),
              g, r, runtime_witness='the socket is closed with a code other than %d' % (3000 + int(want)))


# ---------------------------------------------------------------------------
# R4
# ---------------------------------------------------------------------------

class _NonInt:
    """Abstract close code: any value whose type is not int (and that is not None)."""

    def __repr__(self):
        return '<non-int value>'


NON_INT = _NonInt()
# builtin classes no int (and no None) is an instance of
_DISJOINT_FROM_INT = ('builtins.str', 'builtins.bytes', 'builtins.bytearray', 'builtins.float', 'builtins.tuple', 'builtins.list', 'builtins.dict')


def _code_predicate(e, derived=frozenset(), name='code') -> bool:
    """e is a truth-valued expression over the close code: a comparison / isinstance() that mentions `code`, a boolean local already
    known to be computed from it, or not/and/or of such"""
    if isinstance(e, ast.Compare) or (isinstance(e, ast.Call) and isinstance(e.func, ast.Name) and e.func.id == 'isinstance'):
        return any(isinstance(x, ast.Name) and x.id == name for x in walk_self(e))
    if isinstance(e, ast.Name):
        return e.id in derived
    if isinstance(e, ast.UnaryOp) and isinstance(e.op, ast.Not):
        return _code_predicate(e.operand, derived, name)
    if isinstance(e, ast.BoolOp):
        return any(_code_predicate(v, derived, name) for v in e.values) and all(
            _code_predicate(v, derived, name) or isinstance(v, (ast.Compare, ast.Constant)) for v in e.values)
    return False


class _CloseEval:
    """Evaluation of close()'s validation for one value of `code`: an integer, None, or the abstract NON_INT (type partition
    {None, int, anything else} of the argument).

    The validation is read where it is made: in close() itself, or in a synchronous helper of the class / module that is handed
    the code - `code = _validate_close_code(code)` (the helper's returns are the new value), `self._check_close_code(code)` as a
    statement (it returns normally or raises), `if _is_reserved(code): raise` (a one-expression predicate).  Each helper is
    evaluated by an evaluator of its own for the parameter that receives the code."""

    def __init__(self, p, model: WSModel, f: Optional[Func] = None, name: str = 'code', depth: int = 0):
        self.p = p
        self.model = model
        self.f = f if f is not None else p.func(WS + '.close')
        self.name = name
        self.depth = depth
        if name not in self.f.params():
            raise AnchorError('%s has no %s parameter' % (self.f.qual, name))
        self.cfg = cfg_of(self.f, p)
        self.type_errors: List[str] = []
        self.returns: Set[object] = set()
        # boolean locals computed from the close code (`reserved = 1015 <= code and code <= 1999` ... `if not reserved: reserved =
        # 1004 <= code and code <= 1006` ... `if reserved: raise`): evaluated along the path like the tests themselves (run() keeps
        # their truth value per path).  Every binding of such a local must be a predicate of the code / a bool constant.
        self.derived: Set[str] = set()
        while True:
            before = set(self.derived)
            for n in walk_self(self.f.node):
                if isinstance(n, (ast.Assign, ast.AnnAssign, ast.NamedExpr)) and getattr(n, 'value', None) is not None \
                        and _code_predicate(n.value, frozenset(self.derived), name):
                    tg = n.targets if isinstance(n, ast.Assign) else [n.target]
                    self.derived |= {t.id for t in tg if isinstance(t, ast.Name) and t.id != name}
            if self.derived == before:
                break
        if self.derived & set(self.f.params()):
            raise UnknownIdiom('%s: a parameter is rebound to a test of the close code' % self.f.qual)
        plain = set()
        for n in walk_self(self.f.node):
            if isinstance(n, (ast.Assign, ast.AnnAssign)):
                plain |= {id(t) for t in (n.targets if isinstance(n, ast.Assign) else [n.target]) if isinstance(t, ast.Name)}
        for n in walk_self(self.f.node):
            if (isinstance(n, ast.Name) and n.id in self.derived and isinstance(n.ctx, (ast.Store, ast.Del)) and id(n) not in plain) \
                    or (isinstance(n, ast.ExceptHandler) and n.name in self.derived):
                raise UnknownIdiom('%s: a local computed from the close code is rebound by something that is not a plain assignment' % self.f.qual)
        self.consts: Set[int] = set()
        for n in walk_self(self.f.node):
            if isinstance(n, ast.Compare) and any(isinstance(x, ast.Name) and x.id == name for x in walk_self(n)):
                for x in [n.left] + list(n.comparators):
                    xs = x.elts if isinstance(x, (ast.Tuple, ast.List, ast.Set)) else [x]
                    for y in xs:
                        v = p.fold(self.f.module, y, None, self.f)
                        if isinstance(v, int) and not isinstance(v, bool):
                            self.consts.add(v)
        # helpers handed the code
        from .c15_helpers import bound_args, key_helper
        self.helpers: Dict[int, '_CloseEval'] = {}
        for n in walk_self(self.f.node):
            if not isinstance(n, ast.Call) or self.model.is_raw_send_call(n):
                continue
            if not any(isinstance(a, ast.Name) and a.id == name for a in list(n.args) + [k.value for k in n.keywords]):
                continue
            g = key_helper(p, self.f, n)
            if g is None or g is self.f:
                continue
            qs = [q for q, a in bound_args(g, n).items() if isinstance(a, ast.Name) and a.id == name]
            if len(qs) != 1:
                raise UnknownIdiom('%s: %s hands the close code to %s more than once' % (self.f.qual, short(n), g.name))
            if depth >= 2:
                raise UnknownIdiom('%s: the close code is handed down more than two helper levels' % self.f.qual)
            sub = _CloseEval(p, model, g, qs[0], depth + 1)
            self.helpers[id(n)] = sub
            self.consts |= sub.consts

    def _val(self, e, code):
        if isinstance(e, ast.Name) and e.id == self.name:
            return code
        v = self.p.fold(self.f.module, e, None, self.f)
        if v is UNKNOWN:
            raise UnknownIdiom('%s: operand %s in a test of the close code' % (self.f.qual, short(e)))
        return v

    def atom(self, code, env=()):
        known = dict(env)
        name = self.name

        def atom(e):
            if isinstance(e, ast.Call) and id(e) in self.helpers:
                # a predicate helper: `if _is_reserved(code): raise ...` with `return 1015 <= code <= 1999 or ...`
                sub = self.helpers[id(e)]
                body = single_return_expr(sub.f)
                if body is None or not _code_predicate(body, frozenset(), sub.name):
                    raise UnknownIdiom('%s: the result of %s is tested, but it is not a one-expression test of the code' % (self.f.qual, short(e)))
                sub.type_errors = []
                r = possible(body, sub.atom(code))
                self.type_errors += sub.type_errors
                return r
            if self.derived and any(isinstance(x, ast.Name) and x.id in self.derived for x in walk_self(e)):
                if isinstance(e, ast.Name):
                    if e.id not in known:
                        raise UnknownIdiom('%s: %s (computed from the close code) is tested on a path that does not bind it' % (self.f.qual, e.id))
                    return {known[e.id]}
                if isinstance(e, ast.BoolOp) or (isinstance(e, ast.UnaryOp) and isinstance(e.op, ast.Not)):
                    return None  # decomposed by possible()
                raise UnknownIdiom('%s: test %s over a local computed from the close code' % (self.f.qual, short(e)))
            if not any(isinstance(x, ast.Name) and x.id == name for x in walk_self(e)):
                return None
            if isinstance(e, ast.Name):
                return {True, False} if code is NON_INT else {bool(code)}
            if isinstance(e, ast.Call) and isinstance(e.func, ast.Name) and e.func.id == 'isinstance' and len(e.args) == 2 \
                    and isinstance(e.args[0], ast.Name) and e.args[0].id == name:
                t = self.p.resolve_expr(self.f.module, e.args[1], self.f)
                if t == 'builtins.int':
                    return {False} if code is NON_INT else {isinstance(code, int)}
                if t == 'builtins.bool':
                    return {False} if code is NON_INT else {isinstance(code, bool)}    # bool is a subclass of int
                if code is NON_INT:
                    # the abstract value stands for every type outside int (str, bytes, float, tuple, ...): a test for some
                    # other class holds for some of them and not for others
                    return {True, False}
                if t in _DISJOINT_FROM_INT:
                    return {False}
                raise UnknownIdiom('%s: %s' % (self.f.qual, short(e)))
            if isinstance(e, ast.Compare) and code is NON_INT:
                # identity with None is decided (the abstract value is not None); every other comparison of a non-int value
                # with a constant has no outcome the rule may rely on (TypeError for str/bytes/tuple, numeric for float)
                if len(e.ops) == 1 and isinstance(e.ops[0], (ast.Is, ast.IsNot)) and isinstance(e.left, ast.Name) and e.left.id == name \
                        and isinstance(e.comparators[0], ast.Constant) and e.comparators[0].value is None:
                    return {isinstance(e.ops[0], ast.IsNot)}
                if any(isinstance(o, (ast.Lt, ast.LtE, ast.Gt, ast.GtE)) for o in e.ops):
                    # an ordering test reached with a non-int value: str/bytes/tuple/None-like objects raise TypeError here
                    self.type_errors.append(short(e))
                return {True, False}
            if isinstance(e, ast.Compare):
                vals = [self._val(x, code) if not isinstance(x, (ast.Tuple, ast.List, ast.Set)) else [self._val(y, code) for y in x.elts]
                        for x in [e.left] + list(e.comparators)]
                res = True
                for i, op in enumerate(e.ops):
                    a, b = vals[i], vals[i + 1]
                    try:
                        if isinstance(op, ast.Is):
                            r = a is b
                        elif isinstance(op, ast.IsNot):
                            r = a is not b
                        elif isinstance(op, ast.Eq):
                            r = a == b
                        elif isinstance(op, ast.NotEq):
                            r = a != b
                        elif isinstance(op, ast.In):
                            r = a in b
                        elif isinstance(op, ast.NotIn):
                            r = a not in b
                        elif isinstance(op, ast.Lt):
                            r = a < b
                        elif isinstance(op, ast.LtE):
                            r = a <= b
                        elif isinstance(op, ast.Gt):
                            r = a > b
                        elif isinstance(op, ast.GtE):
                            r = a >= b
                        else:
                            raise UnknownIdiom('%s: operator in %s' % (self.f.qual, short(e)))
                    except TypeError:
                        raise UnknownIdiom('%s: %s evaluated with code=%r' % (self.f.qual, short(e), code))
                    if not r:
                        res = False
                        break
                return {res}
            if isinstance(e, (ast.BoolOp, ast.UnaryOp)):
                return None  # decomposed by possible()
            raise UnknownIdiom('%s: test %s on the close code' % (self.f.qual, short(e)))
        return atom

    def run(self, code):
        """-> (raised [(class, (evaluator, raise node id))], raw send reachable, wire code values); self.returns = the values the
        function can hand back (for a helper)"""
        cfg, f, p = self.cfg, self.f, self.p
        name = self.name
        seen = set()
        work = [(cfg.entry, code, ())]
        raised, sent, wire = set(), False, set()
        self.returns = set()
        live = {n.id for n in cfg.live_nodes()}
        while work:
            nid, v, env = work.pop()
            if (nid, repr(v), env) in seen:
                continue
            seen.add((nid, repr(v), env))
            n = cfg.node(nid)
            if n.kind == 'stmt' and isinstance(n.ast, ast.Raise):
                e = n.ast.exc.func if isinstance(n.ast.exc, ast.Call) else n.ast.exc
                raised.add((p.resolve_expr(f.module, e, f) if e is not None else None, (self, nid)))
                continue
            if n.kind == 'stmt' and isinstance(n.ast, ast.Return):
                rv = n.ast.value
                if rv is None or (isinstance(rv, ast.Constant) and rv.value is None):
                    self.returns.add(None)
                elif isinstance(rv, ast.Name) and rv.id == name:
                    self.returns.add(v)
                else:
                    c = p.fold(f.module, rv, None, f)
                    if c is UNKNOWN and self.depth > 0:
                        raise UnknownIdiom('%s: returns %s' % (f.qual, short(rv)))
                    self.returns.add(c if c is not UNKNOWN else '?')
                continue
            if any(self.model.is_raw_send_call(c) for c in n.calls()):
                sent = True
            for x in n.walk():
                if isinstance(x, ast.Dict):
                    for k, val in zip(x.keys, x.values):
                        if isinstance(k, ast.Constant) and k.value == 'code':
                            wire.add(v if isinstance(val, ast.Name) and val.id == name else '?' + short(val))
            v2s = [v]
            envs = [env]
            at = self.atom(v, env)
            # helpers handed the code in this node
            hcalls = [c for c in n.calls() if id(c) in self.helpers]
            handled = set()
            if hcalls and n.kind == 'stmt' and isinstance(n.ast, (ast.Assign, ast.AnnAssign, ast.Expr)) and n.ast.value is not None \
                    and id(strip_await(n.ast.value)) in self.helpers:
                call = strip_await(n.ast.value)
                sub = self.helpers[id(call)]
                r_s, sent_s, wire_s = sub.run(v)
                raised |= r_s
                sent = sent or sent_s
                wire |= wire_s
                handled.add(id(call))
                if isinstance(n.ast, ast.Expr):
                    if not sub.returns:
                        continue                 # the helper refuses this value: nothing follows
                else:
                    tg = n.ast.targets if isinstance(n.ast, ast.Assign) else [n.ast.target]
                    if len(tg) != 1 or not (isinstance(tg[0], ast.Name) and tg[0].id == name):
                        raise UnknownIdiom('%s: the result of the code helper is bound by %s' % (f.qual, short(n.ast)))
                    if not sub.returns:
                        continue
                    if any(r == '?' for r in sub.returns):
                        raise UnknownIdiom('%s: what %s returns is not the code or a constant' % (f.qual, sub.f.qual))
                    v2s = sorted(sub.returns, key=repr)
            if n.kind != 'test' and any(id(c) not in handled for c in hcalls):
                raise UnknownIdiom('%s: cannot read how %s uses the helper that is handed the close code' % (f.qual, short(n.ast, 80)))
            if n.kind == 'stmt' and isinstance(n.ast, (ast.Assign, ast.AnnAssign, ast.AugAssign)) and not handled:
                tg = n.ast.targets if isinstance(n.ast, ast.Assign) else [n.ast.target]
                if any(isinstance(t, ast.Name) and t.id == name for t in tg):
                    nv = p.fold(f.module, n.ast.value, None, f) if not isinstance(n.ast, ast.AugAssign) else UNKNOWN
                    if nv is UNKNOWN:
                        raise UnknownIdiom('%s: close code rebound by %s' % (f.qual, short(n.ast)))
                    v2s = [nv]
                bound = [t.id for t in tg if isinstance(t, ast.Name) and t.id in self.derived]
                if bound:
                    val = n.ast.value
                    if isinstance(n.ast, ast.AugAssign) or val is None or len(tg) != len(bound) or v2s != [v] or not (
                            _code_predicate(val, frozenset(self.derived), name) or (isinstance(val, ast.Constant) and isinstance(val.value, bool))):
                        raise UnknownIdiom('%s: %s binds a local computed from the close code to something that is not a test of the code'
                                           % (f.qual, short(n.ast)))
                    # the truth value of the test, per path (one successor state per possible outcome)
                    self.type_errors = []
                    outs = possible(val, at)
                    if self.type_errors:
                        raised.add(('builtins.TypeError', (self, nid)))
                    envs = []
                    for o in sorted(outs):
                        d = dict(env)
                        for b in bound:
                            d[b] = o
                        envs.append(tuple(sorted(d.items())))
            outcomes = None
            if n.kind == 'test':
                self.type_errors = []
                outcomes = possible(n.ast, at)
                if self.type_errors:
                    raised.add(('builtins.TypeError', (self, nid)))
            for (y, l) in cfg.succ[nid]:
                if l == 'exc':
                    continue
                if n.kind == 'test' and l in ('T', 'F'):
                    if (l == 'T') not in outcomes:
                        continue
                if y == cfg.exit and not (n.kind == 'stmt' and isinstance(n.ast, ast.Return)):
                    self.returns.add(None)        # falling off the end
                for v2 in v2s:
                    for e2 in envs:
                        work.append((y, v2, e2))
        return raised, sent, wire


def _classify_code(p, model, v):
    ce = _CloseEval(p, model)
    raised, sent, wire = ce.run(v)
    if raised and not sent and all(q == 'builtins.ValueError' for (q, _n) in raised):
        return 'reject'
    if sent and not raised and wire == {v if v is not None else 1000}:
        return 'accept'
    return 'mixed: raised=%s sent=%s wire=%s' % (sorted(str(q) for (q, _n) in raised), sent, sorted(map(str, wire)))


def _raise_message(p, ev: '_CloseEval', r: ast.Raise):
    """folded message of `raise C(<message>)` in the evaluator's function"""
    return p.fold(ev.f.module, r.exc.args[0], None, ev.f)


def _range_rejection_messages(p, model) -> List[str]:
    """Folded messages of the ValueErrors close() raises for integer codes."""
    ce = _CloseEval(p, model)
    msgs = set()
    for v in _points(ce, lo=-10, hi=6000):
        raised, _sent, _wire = ce.run(v)
        for (q, (ev, nid)) in raised:
            r = ev.cfg.node(nid).ast
            if isinstance(r.exc, ast.Call) and r.exc.args:
                m = _raise_message(p, ev, r)
                if isinstance(m, str):
                    msgs.add(m)
                else:
                    raise UnknownIdiom('%s: message of %s' % (ev.f.qual, short(r)))
    return sorted(msgs)


def _points(ce: _CloseEval, lo, hi):
    """Finite set of integers hitting every cell of the partition induced by the constants compared with `code`."""
    base = set()
    for c in ce.consts | {lo, hi, 0, 999, 1000, 1005, 1006, 1011, 1015, 2999, 3000, 4999, 5000}:
        base.update((c - 1, c, c + 1))
    pts = sorted(base)
    out = set(pts)
    for a, b in zip(pts, pts[1:]):
        if b - a > 1:
            out.add((a + b) // 2)
    return sorted(x for x in out if lo <= x <= hi)


# Close codes below 3000 as registered (RFC 6455 section 7.4.1, IANA "WebSocket Close Code Number Registry", restated by the MDN
# CloseEvent/code page that close() documents as the reference for its `code` argument).  1000/1011 and 1005/1006/1015 are decided above.
_SENDABLE_REGISTERED = (
    (1001, 'Going Away, RFC 6455'),
    (1002, 'Protocol Error, RFC 6455'),
    (1003, 'Unsupported Data, RFC 6455'),
    (1007, 'Invalid Frame Payload Data, RFC 6455'),
    (1008, 'Policy Violation, RFC 6455'),
    (1009, 'Message Too Big, RFC 6455'),
    (1010, 'Mandatory Extension, RFC 6455'),
    (1012, 'Service Restart, IANA registry - assigned after the RFC text was written'),
    (1013, 'Try Again Later, IANA registry - assigned after the RFC text was written'),
    (1014, 'Bad Gateway, IANA registry - assigned after the RFC text was written'),
)
# 2000-2999 (auto-mutation seed sa-am01349).  The page close() documents as the reference for `code` (MDN CloseEvent/code) lists
# "1016-1999: for definition by future revisions of the WebSocket Protocol specification" and, as a separate row, "2000-2999: for
# use by WebSocket extensions"; close() rejects "reserved" codes only ('Only unreserved codes may be used') and accepts the
# extension range today.  So the end of the reserved block is 1999: the two boundary codes of the extension range are accepted.
_EXTENSION_RANGE = (
    (2000, 'first code of 2000-2999, "for use by WebSocket extensions" (MDN CloseEvent/code, RFC 6455 section 7.4.2) - not part of the '
           'block 1016-1999 reserved for future protocol revisions'),
    (2999, 'last code of 2000-2999, "for use by WebSocket extensions"'),
)
_UNSENDABLE_REGISTERED = (
    (1004, 'RFC 6455: reserved, "the specific meaning might be defined in the future"'),
    (1016, 'first unassigned code: 1016-1999 are reserved for future revisions of the WebSocket protocol'),
    (1999, 'last code of the range reserved for future revisions of the WebSocket protocol'),
)


def r4_close_codes(run):
    p = run.project
    model = _model(run)
    ce = _CloseEval(p, model)
    run.use_cfg(ce.cfg)
    f = ce.f
    if not ce.consts:
        raise AnchorError('%s: no comparison of the close code with a constant' % f.qual)
    run.extra['c17_close_code_constants'] = sorted(ce.consts)
    pts = _points(ce, lo=min(ce.consts | {0}) - 10, hi=max(ce.consts | {5000}) + 10)
    verdicts = {v: _classify_code(p, model, v) for v in pts}
    run.sample({'rule': 'R4', 'rejected': [v for v in pts if verdicts[v] == 'reject'][:40], 'accepted': [v for v in pts if verdicts[v] == 'accept'][:40]})

    def group(name, values, want, rw):
        bad = [v for v in values if verdicts[v] != want]
        run.check(not bad, 'close(): %s' % name, f, 'close-code %s' % name,
                  witness=['code=%s -> %s' % (v, verdicts[v]) for v in bad[:6]], runtime_witness=rw % (bad[0] if bad else 0))

    group('every code below 1000 is rejected with ValueError before anything is sent', [v for v in pts if v < 1000], 'reject',
          'ws.close(%d) puts an invalid close code on the wire')
    for v in (1005, 1006, 1015):
        group('the reserved code %d (RFC 6455 section 7.4.1: must not be sent) is rejected with ValueError' % v, [v], 'reject',
              'ws.close(%d) puts a reserved close code on the wire')
    group('1000 and 1011 are accepted and sent unchanged', [1000, 1011], 'accept', 'ws.close(%d) raises although the framework itself uses this code')
    group('every code in 3000-4999 is accepted and sent unchanged (the framework emits 3000+status and 3011)', [v for v in pts if 3000 <= v <= 4999],
          'accept', 'ws.close(%d) raises, so an HTTPError in on_websocket cannot be reported')
    # the registered table below 3000 (wave 8, seeded s8-c17-2): the oracle is the reference close() documents for its `code` argument
    # (MDN CloseEvent/code = RFC 6455 section 7.4.1 + the IANA WebSocket Close Code Number Registry), one line of reason per code
    for v, why in _SENDABLE_REGISTERED:
        verdicts.setdefault(v, _classify_code(p, model, v))
        group('the registered, sendable code %d (%s) is accepted and sent unchanged' % (v, why), [v], 'accept',
              'ws.close(%d) raises "Invalid close code" for a valid code (and as ws_options.error_close_code it is replaced by the fallback 3011)')
    for v, why in _UNSENDABLE_REGISTERED:
        verdicts.setdefault(v, _classify_code(p, model, v))
        group('the code %d (%s) is rejected with ValueError' % (v, why), [v], 'reject', 'ws.close(%d) puts a reserved close code on the wire')
    for v, why in _EXTENSION_RANGE:
        verdicts.setdefault(v, _classify_code(p, model, v))
        group('the code %d (%s) is accepted and sent unchanged' % (v, why), [v], 'accept',
              'ws.close(%d) raises "Only unreserved codes may be used" for a code outside the reserved block 1016-1999')
    v = _classify_code(p, model, None)
    run.check(v == 'accept', 'close(): code=None means 1000 on the wire', f, 'close-code default', witness=[str(v)])
    # type partition of the argument {None, int, anything else}: the third cell is rejected before anything is sent and before
    # its value is compared with a number (auto-mutation seed sa-am01299)
    v = _classify_code(p, model, NON_INT)
    run.check(v == 'reject', 'close(): a code that is not an int (and not None) is rejected with ValueError before anything is sent, on every '
              'outcome of the value tests that follow', f, 'close-code type', witness=['code=<any non-int value> -> %s' % v],
              runtime_witness="ws.close('abc') / ws.close(1000.5) puts {'type': 'websocket.close', 'code': 'abc'} on the wire "
                              "(or fails with TypeError inside the range tests)")
    # reason only when the spec version supports it
    _reason_gates(run, model)


def _reason_gates(run, model: WSModel):
    p = run.project
    sup_attr = None
    gate_fn = None
    for n in walk_self(model.init.node):
        if isinstance(n, ast.Assign) and len(n.targets) == 1 and isinstance(n.targets[0], ast.Attribute) and isinstance(n.value, ast.Call):
            g = p.callee(model.init, n.value)
            if isinstance(g, Func) and g.name == '_supports_reason':
                sup_attr, gate_fn = n.targets[0].attr, g
    if gate_fn is None:
        raise AnchorError('%s.__init__: spec-version gate of the close reason not found' % WS)
    # the gate compares the parsed version against (2, 3) with >=
    rets = [n for n in walk_self(gate_fn.node) if isinstance(n, ast.Return) and n.value is not None]
    r = single(rets, 'return', gate_fn.qual).value
    ok = False
    if isinstance(r, ast.Compare) and len(r.ops) == 1:
        a, b, op = r.left, r.comparators[0], r.ops[0]
        fa, fb = fold_local(p, gate_fn, a), fold_local(p, gate_fn, b)
        if fb == (2, 3) and isinstance(op, ast.GtE) and fa is UNKNOWN:
            ok = True
        if fa == (2, 3) and isinstance(op, ast.LtE) and fb is UNKNOWN:
            ok = True
    else:
        raise UnknownIdiom('%s: shape of the version comparison %s' % (gate_fn.qual, short(r)))
    run.check(ok, 'close reasons are enabled exactly for ASGI spec versions >= 2.3', gate_fn, r,
              runtime_witness='a reason is sent to a 2.2 server (or withheld from a 2.3 server)')

    def check_stores(f: Func, gate_atom0):
        cfg = cfg_of(f, p)
        run.use_cfg(cfg)
        cnt = 0

        def gate_atom(e):
            # in place, or through a local bound once to the gate (`supported = self._supports_reason` - the attribute is only
            # written by the constructor - / `supported = _supports_reason(ver)`)
            return gate_atom0(e) or (isinstance(e, ast.Name) and e.id not in f.params() and gate_atom0(strip_await(_one_def(f, e))))

        for n in cfg.live_nodes():
            hit = None
            if n.kind == 'stmt' and isinstance(n.ast, ast.Assign):
                for t in n.ast.targets:
                    if isinstance(t, ast.Subscript) and isinstance(t.slice, ast.Constant) and t.slice.value == 'reason':
                        hit = n.ast
            for x in n.walk():
                if isinstance(x, ast.Dict) and any(isinstance(k, ast.Constant) and k.value == 'reason' for k in x.keys):
                    hit = x
            if hit is None:
                continue
            cnt += 1
            ok = False
            for t in cfg.live_nodes():
                if t.kind != 'test':
                    continue
                for lab, truth in (('T', True), ('F', False)):
                    if implied(t.ast, truth, gate_atom) is True and any(flow.dominated_by_edge(cfg, n.id, e) for e in flow.edges_out(cfg, t.id, lab)):
                        ok = True
            run.check(ok, '%s: the close reason is attached only under the spec-version gate' % f.name, f, hit,
                      runtime_witness='a websocket.close event with a reason key is sent to an ASGI 2.0-2.2 server')
        return cnt

    n1 = check_stores(p.func(WS + '.close'),
                      lambda e: isinstance(e, ast.Attribute) and e.attr == sup_attr and isinstance(e.value, ast.Name) and e.value.id == 'self')
    hw = p.func(HANDLE_WS)
    n2 = check_stores(hw, lambda e: isinstance(e, ast.Call) and p.callee(hw, e) is gate_fn)
    if n1 == 0:
        raise AnchorError('%s.close never attaches a reason' % WS)


# ---------------------------------------------------------------------------
# R5
# ---------------------------------------------------------------------------

def _mentions_through_locals(f: Func, e, name: str, depth=0) -> bool:
    for x in walk_self(e):
        if isinstance(x, ast.Name) and isinstance(x.ctx, ast.Load):
            if x.id == name:
                return True
            if depth < 3 and x.id not in f.params():
                ds = local_defs(f, x.id)
                if len(ds) == 1 and ds[0] is not None and _mentions_through_locals(f, ds[0], name, depth + 1):
                    return True
    return False


def r5_payload_types(run):
    p = run.project
    model = _model(run)
    for name, key, types in (('send_text', 'text', {'builtins.str'}),
                             ('send_data', 'bytes', {'builtins.bytes', 'builtins.bytearray', 'builtins.memoryview'})):
        f = p.func('%s.%s' % (WS, name))
        cfg = cfg_of(f, p)
        run.use_cfg(cfg)
        params = [a for a in f.params() if a != 'self']
        if not params:
            raise UnknownIdiom('%s has no payload parameter' % f.qual)
        pay = params[0]

        def mk_check(f, pay, types=types):
            def is_check(e):
                if isinstance(e, ast.Call) and isinstance(e.func, ast.Name) and e.func.id == 'isinstance' and len(e.args) == 2 \
                        and isinstance(e.args[0], ast.Name) and e.args[0].id == pay:
                    mod, lit = literal_of(p, f, e.args[1])     # a module-level tuple of types bound once is its value
                    ts = lit.elts if isinstance(lit, ast.Tuple) else [lit]
                    qs = {p.resolve_expr(mod, t, f if mod is f.module else None) for t in ts}
                    return bool(qs) and qs <= types
                return False
            return is_check

        is_check = mk_check(f, pay)

        def helper_checks(call, f=f, pay=pay):
            """`call` hands the payload to a synchronous helper of the class / module that returns normally only for an argument
            of the admitted types (every normal path through it takes the true outcome of the isinstance test of that parameter)"""
            from .c15_helpers import bound_args, key_helper
            g = key_helper(p, f, call)
            if g is None:
                return False
            qs = [q for q, a in bound_args(g, call).items() if isinstance(a, ast.Name) and a.id == pay]
            if len(qs) != 1 or local_defs(g, qs[0]) or local_defs(f, pay):
                return False
            gcfg = cfg_of(g, p)
            chk = mk_check(g, qs[0])
            good = [e for t in gcfg.live_nodes() if t.kind == 'test' for lab, truth in (('T', True), ('F', False))
                    if implied(t.ast, truth, chk) is True for e in flow.edges_out(gcfg, t.id, lab)]
            return bool(good) and flow.find_path(gcfg, [gcfg.entry], [gcfg.exit], avoid_edges=good, edge_filter=flow.no_exc) is None

        emit_nodes = []
        for n in cfg.live_nodes():
            for c in n.calls():
                if model._self_method(f, c) is not None and c.args and model.event_type(f, c.args[0], {}) == 'websocket.send':
                    emit_nodes.append((n, c))
        if not emit_nodes:
            raise AnchorError('%s: emission of the websocket.send event not found' % f.qual)
        for (n, c) in emit_nodes:
            ok = False
            for t in cfg.live_nodes():
                if t.kind != 'test':
                    continue
                for lab, truth in (('T', True), ('F', False)):
                    if implied(t.ast, truth, is_check) is True and any(flow.dominated_by_edge(cfg, n.id, e) for e in flow.edges_out(cfg, t.id, lab)):
                        ok = True
            if not ok:
                # the check made by a helper: called among the arguments of the emission itself (evaluated before the send), or
                # in a statement whose normal completion dominates the emission
                inner = [x for a in list(c.args) + [k.value for k in c.keywords] for x in walk_self(_one_def(f, a)) if isinstance(x, ast.Call)]
                ok = any(helper_checks(x) for x in inner)
                for t in cfg.live_nodes():
                    if ok or t.id == n.id:
                        continue
                    if any(helper_checks(x) for x in t.calls()) and any(
                            flow.dominated_by_edge(cfg, n.id, (t.id, y, l)) for (y, l) in cfg.succ[t.id] if l != 'exc'):
                        ok = True
            run.check(ok, '%s: the payload is type-checked (isinstance %s) before the event is sent' % (name, '/'.join(sorted(t.split('.')[1] for t in types))),
                      f, c, runtime_witness='ws.%s(123) hands a non-%s payload to the ASGI server' % (name, key))
            ev = _one_def(f, c.args[0])
            keys = {k.value: v for k, v in zip(ev.keys, ev.values) if isinstance(k, ast.Constant)} if isinstance(ev, ast.Dict) else {}
            other = 'bytes' if key == 'text' else 'text'
            val = keys.get(key)
            uses = val is not None and _mentions_through_locals(f, val, pay)      # also through snapshot locals
            run.check(uses and other not in keys, '%s: the payload travels under the %r key only' % (name, key), f, ev if isinstance(ev, ast.Dict) else c)
    for name, keys in (('receive_text', {'text'}), ('receive_data', {'bytes'}), ('receive_media', {'text', 'bytes'})):
        f = p.func('%s.%s' % (WS, name))
        cfg = cfg_of(f, p)
        run.use_cfg(cfg)
        evs = [n.targets[0].id for n in walk_self(f.node) if isinstance(n, ast.Assign) and isinstance(n.targets[0], ast.Name)
               and isinstance(strip_await(n.value), ast.Call) and model._self_method(f, strip_await(n.value)) is not None
               and any(r for r in model.analyse(model._self_method(f, strip_await(n.value)), ('ACCEPTED', False)).recvs)]
        ev = single(evs, 'received event local', f.qual)

        def payload_key(e, ev=ev):
            if isinstance(e, ast.Subscript) and isinstance(e.value, ast.Name) and e.value.id == ev and isinstance(e.slice, ast.Constant):
                return e.slice.value
            if isinstance(e, ast.Call) and isinstance(e.func, ast.Attribute) and e.func.attr == 'get' and isinstance(e.func.value, ast.Name) \
                    and e.func.value.id == ev and len(e.args) == 1 and isinstance(e.args[0], ast.Constant):
                return e.args[0].value
            return None

        pay_locals: Dict[str, str] = {}
        for n in cfg.live_nodes():
            if n.kind == 'stmt' and isinstance(n.ast, ast.Assign) and len(n.ast.targets) == 1 and isinstance(n.ast.targets[0], ast.Name):
                k = payload_key(n.ast.value)
                if k is not None:
                    if k not in keys:
                        run.fail('%s reads the %r payload' % (name, k), f, n.ast)
                        continue
                    pay_locals[n.ast.targets[0].id] = k
                    if isinstance(n.ast.value, ast.Subscript):
                        hs = [cfg.node(y) for (y, l) in cfg.succ[n.id] if l == 'exc' and cfg.node(y).kind == 'handler']
                        caught = any(h.ast.type is None or any(p.is_subclass('builtins.KeyError', q) is True for q in
                                                               [p.resolve_expr(f.module, t, f) or '' for t in (h.ast.type.elts if isinstance(h.ast.type, ast.Tuple) else [h.ast.type])])
                                     for h in hs)
                        run.check(caught, '%s: a missing %r key is caught (KeyError does not escape)' % (name, k), f, n.ast,
                                  runtime_witness='a binary message makes %s raise KeyError instead of PayloadTypeError' % name)
        if set(pay_locals.values()) != keys:
            raise UnknownIdiom('%s: payload keys read %s, expected %s' % (f.qual, sorted(pay_locals.values()), sorted(keys)))
        rets = [n for n in cfg.live_nodes() if n.kind == 'stmt' and isinstance(n.ast, ast.Return)]
        if not rets:
            raise AnchorError('%s has no return' % f.qual)
        for n in rets:
            used = [x.id for x in walk_self(n.ast) if isinstance(x, ast.Name) and x.id in pay_locals]
            if len(set(used)) != 1:
                run.fail('%s returns something that is not derived from exactly one payload' % name, f, n.ast)
                continue
            v = used[0]

            def not_none(e, v=v):
                return (isinstance(e, ast.Compare) and len(e.ops) == 1 and isinstance(e.ops[0], ast.IsNot) and isinstance(e.left, ast.Name)
                        and e.left.id == v and isinstance(e.comparators[0], ast.Constant) and e.comparators[0].value is None)

            def is_none(e, v=v):
                return (isinstance(e, ast.Compare) and len(e.ops) == 1 and isinstance(e.ops[0], ast.Is) and isinstance(e.left, ast.Name)
                        and e.left.id == v and isinstance(e.comparators[0], ast.Constant) and e.comparators[0].value is None)

            ok = False
            for t in cfg.live_nodes():
                if t.kind != 'test':
                    continue
                for lab, truth in (('T', True), ('F', False)):
                    if (implied(t.ast, truth, not_none) is True or implied(t.ast, truth, is_none) is False) \
                            and any(flow.dominated_by_edge(cfg, n.id, e) for e in flow.edges_out(cfg, t.id, lab)):
                        ok = True
            run.check(ok, '%s returns the %r payload only when it is present and not None' % (name, pay_locals[v]), f, n.ast,
                      runtime_witness='%s() returns None for a message of the other payload type' % name)
        # the absent case raises PayloadTypeError
        raises = [n for n in cfg.live_nodes() if n.kind == 'stmt' and isinstance(n.ast, ast.Raise) and n.ast.exc is not None]
        classes = {p.resolve_expr(f.module, (r.ast.exc.func if isinstance(r.ast.exc, ast.Call) else r.ast.exc), f) for r in raises}
        run.check(E_PAYLOAD in classes and cfg.exit not in flow.reachable(cfg, [cfg.entry], avoid_nodes=[r.id for r in rets]),
                  '%s raises PayloadTypeError when the expected payload is absent (and has no other normal exit)' % name, f, '%s absent payload' % name)


# ---------------------------------------------------------------------------
# R9 the disconnected error always carries an integer close code
# ---------------------------------------------------------------------------

WS_MODULE = 'falcon.asgi.ws'
_UNSET = '<self.code not assigned>'
_RAISES = '<raises>'


def _ctor_code(p, init: Func, given, absent=False):
    """Concrete evaluation of ``WebSocketDisconnected.__init__`` for one value of its ``code`` argument (``absent``: the
    argument is omitted and the declared default applies): the set of values ``self.code`` holds when the constructor
    returns (``_UNSET`` for a path that never assigns it, ``_RAISES`` for one that raises).  The body is read, not matched:
    ``code or K``, ``K if code is None else code``, ``if code is None: code = K`` ... all evaluate."""
    cfg = cfg_of(init, p)
    params = init.params()
    selfn = params[0]
    a = init.node.args
    pos = [x.arg for x in a.posonlyargs + a.args]
    env0: Dict[str, object] = {}
    for name, d in list(zip(pos[len(pos) - len(a.defaults):], a.defaults)) + [(k.arg, d) for k, d in zip(a.kwonlyargs, a.kw_defaults) if d is not None]:
        v = p.fold(init.module, d, init.cls, init)
        if v is not UNKNOWN:
            env0[name] = v
    if absent:
        if 'code' not in env0:
            raise UnknownIdiom('%s: called without a code although the parameter has no (constant) default' % init.qual)
    else:
        env0['code'] = given

    def ev(e, env):
        if isinstance(e, ast.Constant):
            return e.value
        if isinstance(e, ast.Name) and e.id in env:
            return env[e.id]
        if isinstance(e, ast.NamedExpr):
            raise UnknownIdiom('%s: %s' % (init.qual, short(e)))
        if isinstance(e, ast.BoolOp):
            v = None
            for x in e.values:
                v = ev(x, env)
                if (isinstance(e.op, ast.Or) and v) or (isinstance(e.op, ast.And) and not v):
                    return v
            return v
        if isinstance(e, ast.IfExp):
            return ev(e.body, env) if ev(e.test, env) else ev(e.orelse, env)
        if isinstance(e, ast.UnaryOp) and isinstance(e.op, ast.Not):
            return not ev(e.operand, env)
        if isinstance(e, ast.Compare) and len(e.ops) == 1:
            x, y, op = ev(e.left, env), ev(e.comparators[0], env), e.ops[0]
            try:
                if isinstance(op, ast.Is):
                    return x is y
                if isinstance(op, ast.IsNot):
                    return x is not y
                if isinstance(op, ast.Eq):
                    return x == y
                if isinstance(op, ast.NotEq):
                    return x != y
                if isinstance(op, ast.Lt):
                    return x < y
                if isinstance(op, ast.LtE):
                    return x <= y
                if isinstance(op, ast.Gt):
                    return x > y
                if isinstance(op, ast.GtE):
                    return x >= y
                if isinstance(op, ast.In):
                    return x in y
                if isinstance(op, ast.NotIn):
                    return x not in y
            except TypeError:
                return _RAISES
            raise UnknownIdiom('%s: operator in %s' % (init.qual, short(e)))
        if isinstance(e, ast.Call) and isinstance(e.func, ast.Name) and e.func.id not in env and not e.keywords:
            if e.func.id == 'isinstance' and len(e.args) == 2:
                ts = e.args[1].elts if isinstance(e.args[1], ast.Tuple) else [e.args[1]]
                qs = [p.resolve_expr(init.module, t, init) for t in ts]
                if all(q in ('builtins.int', 'builtins.bool', 'builtins.str', 'builtins.float') for q in qs):
                    table = {'builtins.int': int, 'builtins.bool': bool, 'builtins.str': str, 'builtins.float': float}
                    return isinstance(ev(e.args[0], env), tuple(table[q] for q in qs))
            if e.func.id == 'int' and len(e.args) == 1:
                v = ev(e.args[0], env)
                return int(v) if isinstance(v, int) else _RAISES
        v = p.fold(init.module, e, init.cls, init)
        if v is UNKNOWN:
            raise UnknownIdiom('%s: %s is not understood (evaluating the constructor for code=%r)' % (init.qual, short(e), given))
        return v

    def mentions_code(node):
        return any((isinstance(x, ast.Name) and x.id == 'code') or (isinstance(x, ast.Attribute) and x.attr == 'code') for x in ast.walk(node))

    out: Set[object] = set()
    seen = set()
    work = [(cfg.entry, tuple(sorted(env0.items(), key=lambda kv: kv[0])), _UNSET)]
    while work:
        nid, envt, stored = work.pop()
        key = (nid, repr(envt), repr(stored))
        if key in seen:
            continue
        seen.add(key)
        if nid == cfg.exit:
            out.add(stored)
            continue
        n = cfg.node(nid)
        env = dict(envt)
        if n.kind == 'stmt' and isinstance(n.ast, ast.Raise):
            out.add(_RAISES)
            continue
        if n.kind == 'stmt' and isinstance(n.ast, (ast.Assign, ast.AnnAssign)) and getattr(n.ast, 'value', None) is not None:
            tgs = n.ast.targets if isinstance(n.ast, ast.Assign) else [n.ast.target]
            relevant = any((isinstance(t, ast.Name)) or (isinstance(t, ast.Attribute) and t.attr == 'code') for t in tgs)
            if relevant:
                for t in tgs:
                    if isinstance(t, ast.Name):
                        try:
                            env[t.id] = ev(n.ast.value, env)
                        except UnknownIdiom:
                            if t.id == 'code' or mentions_code(n.ast.value):
                                raise
                            env.pop(t.id, None)
                    elif isinstance(t, ast.Attribute) and t.attr == 'code' and isinstance(t.value, ast.Name) and t.value.id == selfn:
                        stored = ev(n.ast.value, env)
                    elif mentions_code(t):
                        raise UnknownIdiom('%s: %s' % (init.qual, short(n.ast)))
        elif n.kind == 'stmt' and n.ast is not None and mentions_code(n.ast) and not isinstance(n.ast, (ast.Expr, ast.Assert, ast.Pass)):
            raise UnknownIdiom('%s: %s' % (init.qual, short(n.ast)))
        elif n.kind == 'stmt' and isinstance(n.ast, ast.Expr):
            # setattr(self, 'code', ...) / self.__dict__ tricks are not read
            if any(isinstance(c.func, ast.Name) and c.func.id == 'setattr' for c in n.calls()):
                raise UnknownIdiom('%s: %s' % (init.qual, short(n.ast)))
        want = None
        if n.kind == 'test':
            v = ev(n.ast, env)
            if v is _RAISES:
                out.add(_RAISES)
                continue
            want = 'T' if v else 'F'
        elif n.kind == 'stmt' and isinstance(n.ast, ast.Assert):
            if not ev(n.ast.test, env):
                out.add(_RAISES)
                continue
        elif n.kind not in ('entry', 'stmt', 'join'):
            raise UnknownIdiom('%s: control construct %s in the constructor' % (init.qual, n.text()))
        envt2 = tuple(sorted(env.items(), key=lambda kv: kv[0]))
        for (y, l) in cfg.succ[nid]:
            if l == 'exc' or (want is not None and l in ('T', 'F') and l != want):
                continue
            work.append((y, envt2, stored))
    return out


def _is_code(v) -> bool:
    return isinstance(v, int) and not isinstance(v, bool)


class _NoneFlow:
    """May the value of an expression be None?  Def-use, flow-insensitive over attributes: True (with the None source(s)
    that reach it), False (every source is a non-None value), None (some source is not understood, no None source found)."""

    def __init__(self, p):
        self.p = p

    @staticmethod
    def join(rs):
        srcs = [s for (v, ss) in rs if v is True for s in ss]
        if srcs:
            return True, srcs
        if any(v is None for (v, _s) in rs) or not rs:
            return None, []
        return False, []

    def attr_stores(self, cq: str, attr: str):
        """(func, value expr) for every ``self.<attr> = value`` in the methods of class `cq` and its project bases"""
        p = self.p
        out = []
        for q in p.mro(cq):
            c = p.classes.get(q)
            if c is None:
                continue
            if attr in c.attrs and c.attrs[attr] is not None:
                out.append((None, c.attrs[attr], c))
            for _n, m in sorted(list(c.methods.items()) + list(getattr(c, 'accessors', {}).items()), key=lambda kv: kv[0]):
                if not isinstance(m, Func):
                    continue
                for attr2, val, _node in _c18._stores(m):
                    if attr2 == attr:
                        out.append((m, val, c))
        return out

    def attr_class(self, f: Func, e) -> Optional[str]:
        """class of ``self.<a>`` when every store of it in the owning class is a constructor call of one project class"""
        p = self.p
        if not (isinstance(e, ast.Attribute) and isinstance(e.value, ast.Name) and e.value.id == 'self' and f.cls is not None):
            return None
        qs = set()
        for (m, val, _c) in self.attr_stores(f.cls.qual, e.attr):
            t = p.resolve_callable(m, val.func) if (m is not None and isinstance(val, ast.Call)) else None
            qs.add(t.qual if t is not None and not isinstance(t, (str, Func)) else None)
        return qs.pop() if len(qs) == 1 and None not in qs else None

    def of_attr(self, cq: str, attr: str, seen, depth):
        key = (cq, attr)
        if key in seen or depth > 4:
            return None, []
        stores = self.attr_stores(cq, attr)
        if not stores:
            return None, []
        return self.join([self.of(m, val, seen | {key}, depth + 1, indirect=True) if m is not None else self.of_const(c, val) for (m, val, c) in stores])

    def of_const(self, c, val):
        if isinstance(val, ast.Constant):
            return (True, ['%s: class attribute = None' % c.qual]) if val.value is None else (False, [])
        return None, []

    def of(self, f: Func, e, seen=frozenset(), depth=0, local_stores=None, indirect=False):
        """`indirect`: `e` is a value some method copies into the field that is being read.  A None that sits in ANOTHER
        field reaches the read only if the copy runs while that field is still None - a temporal fact this reading does
        not establish (``_send`` copies the receiver's ``client_disconnected_code`` only after the pump set it together
        with the flag): such a source makes the verdict 'not understood', never 'may be None'."""
        p = self.p
        e = strip_await(e)
        if indirect and isinstance(e, ast.Attribute):
            r = self.of(f, e, seen, depth)
            return (None, []) if r[0] is True else r
        if isinstance(e, ast.Constant):
            return (True, ['%s None' % f.loc(e)]) if e.value is None else (False, [])
        if isinstance(e, ast.NamedExpr):
            return self.of(f, e.value, seen, depth)
        if isinstance(e, ast.BoolOp):
            if isinstance(e.op, ast.Or):
                return self.of(f, e.values[-1], seen, depth)        # a None operand on the left is replaced by the next one
            return self.join([self.of(f, v, seen, depth) for v in e.values])
        if isinstance(e, ast.IfExp):
            subj, none_in_body = None, None
            t = e.test
            if isinstance(t, ast.Compare) and len(t.ops) == 1 and isinstance(t.ops[0], (ast.Is, ast.IsNot)) and isinstance(t.comparators[0], ast.Constant) \
                    and t.comparators[0].value is None:
                subj, none_in_body = ast.unparse(t.left), isinstance(t.ops[0], ast.Is)
            elif isinstance(t, ast.UnaryOp) and isinstance(t.op, ast.Not):
                subj, none_in_body = ast.unparse(t.operand), True
            else:
                subj, none_in_body = ast.unparse(t), False
            rs = []
            for br, may_hold_none in ((e.body, none_in_body), (e.orelse, not none_in_body)):
                if not may_hold_none and ast.unparse(br) == subj:
                    rs.append((False, []))          # the guarded operand itself, on the branch where it is not None
                else:
                    rs.append(self.of(f, br, seen, depth))
            return self.join(rs)
        v = p.fold(f.module, e, f.cls, f)
        if v is not UNKNOWN:
            return (True, ['%s %s' % (f.loc(e), short(e))]) if v is None else (False, [])
        if isinstance(e, ast.Name):
            if e.id in f.params():
                if local_defs(f, e.id):
                    return None, []         # a parameter the function rebinds (``if code is None: code = K``): not read flow-sensitively
                a = f.node.args
                pos = [x.arg for x in a.posonlyargs + a.args]
                for name, d in list(zip(pos[len(pos) - len(a.defaults):], a.defaults)) + [(k.arg, d) for k, d in zip(a.kwonlyargs, a.kw_defaults)]:
                    if name == e.id and isinstance(d, ast.Constant) and d.value is None:
                        return True, ['%s parameter %s defaults to None' % (f.loc(), e.id)]
                return None, []
            if depth > 4:
                return None, []
            ds = local_defs(f, e.id)
            if not ds:
                return None, []
            return self.join([(None, []) if d is None else self.of(f, d, seen, depth + 1) for d in ds])
        if isinstance(e, ast.Attribute):
            if isinstance(e.value, ast.Name) and e.value.id == 'self' and f.cls is not None:
                if local_stores is not None:
                    return self.join([self.of(f, val, seen | {(f.cls.qual, e.attr)}, depth + 1, indirect=True) for val in local_stores])
                return self.of_attr(f.cls.qual, e.attr, seen, depth)
            cq = self.attr_class(f, e.value)
            if cq is not None:
                return self.of_attr(cq, e.attr, seen, depth)
            return None, []
        if isinstance(e, ast.Call):
            fn = e.func
            if isinstance(fn, ast.Name) and fn.id in ('int', 'len', 'str', 'abs') and p.resolve_expr(f.module, fn, f) in (None, 'builtins.' + fn.id):
                return False, []
            if isinstance(fn, ast.Attribute) and fn.attr == 'get' and 1 <= len(e.args) <= 2 and not e.keywords:
                if len(e.args) == 1:
                    return True, ['%s %s (no default)' % (f.loc(e), short(e))]
                r = self.of(f, e.args[1], seen, depth)
                return r if r[0] is True else (None, [])
            m = p.callee(f, e)
            if isinstance(m, Func) and depth < 3:
                rets = [n for n in walk_self(m.node) if isinstance(n, ast.Return)]
                rs = [self.of(m, r.value, seen, depth + 1) if r.value is not None else (True, ['%s bare return' % m.loc(r)]) for r in rets]
                mc = cfg_of(m, p)
                if any(i in mc.reachable_ids and not (mc.node(i).kind == 'stmt' and isinstance(mc.node(i).ast, ast.Return)) for (i, _l) in mc.pred[mc.exit]):
                    rs.append((True, ['%s falls off the end' % m.loc()]))
                return self.join(rs)
            return None, []
        return None, []


def r9_disconnected_code(run):
    """"Operations in the wrong state raise the documented errors": the documented disconnected error is
    ``WebSocketDisconnected`` with an integer ``code`` (default 1000).  Decided:

    * the constructor reports a code it is given unchanged;
    * for every construction site in falcon/asgi/ws.py, by def-use of the argument: when a None can reach it (a local
      assigned None on some path, a field that some method initialises to None, a helper that can return None, an
      omitted argument whose default is None) the constructor - evaluated concretely for that input - stores an
      integer.  A site whose argument cannot be None (a folded constant, ``x or K``, ``K if x is None else x``) is
      fine whatever the constructor does; a constructor that maps None to an integer makes every site fine.

    W: the server's send() raises an OSError that names no close code: ``_translate_webserver_error`` builds
    ``WebSocketDisconnected(None)`` and the failing and every later send_*/receive_* raises it with ``code is None``
    instead of 1000 (``'%d' % ex.code`` / ``ws.close(ex.code)`` in the application break).

    A field is read flow-insensitively (all stores of the class), except when the site is dominated by stores of that
    field in the same function: then only those count."""
    p = run.project
    p.cls(E_DISCONNECTED)
    init = p.lookup_method(E_DISCONNECTED, '__init__')
    if init is None:
        raise AnchorError('%s has no __init__ of its own' % E_DISCONNECTED)
    if 'code' not in init.params()[1:]:
        raise AnchorError('%s has no code parameter (the documented keyword)' % init.qual)
    run.use_cfg(cfg_of(init, p))
    idx = init.params()[1:].index('code')
    samples = (1000, 1001, 1011, 3404, 4042)
    got = {v: _ctor_code(p, init, v) for v in samples}
    if all(_UNSET in g for g in got.values()):
        raise AnchorError('%s never assigns self.code' % init.qual)
    bad = [v for v in samples if got[v] != {v}]
    run.check(not bad, 'WebSocketDisconnected(code) reports the close code it was given', init, 'self.code for a given code',
              witness=['code=%r -> self.code in %s' % (v, sorted(map(repr, got[v]))) for v in bad[:4]],
              runtime_witness='a client leaving with close code %d is reported to the application with another code' % (bad[0] if bad else 0))
    cache: Dict[object, Set[object]] = {}

    def ctor(given=None, absent=False):
        k = ('absent',) if absent else ('given', given)
        if k not in cache:
            cache[k] = _ctor_code(p, init, given, absent)
        return cache[k]

    nf = _NoneFlow(p)
    n_sites = 0
    undecided = []
    rw = ('the server\'s send() raises an OSError naming no close code (ASGI spec 2.4, uvicorn+wsproto ClientDisconnected): the failing and every later '
          'send_*/receive_* raises WebSocketDisconnected with code None instead of 1000')
    for f in sorted(p.all_functions(), key=lambda g: g.qual):
        if f.module.name != WS_MODULE:
            continue
        cfg = None
        for c in walk_self(f.node):
            if not isinstance(c, ast.Call):
                continue
            q = p.resolve_expr(f.module, c.func, f)
            if q is None or q not in p.classes or not (q == E_DISCONNECTED or p.is_subclass(q, E_DISCONNECTED) is True):
                continue
            if p.lookup_method(q, '__init__') is not init:
                raise UnknownIdiom('%s: %s has a constructor of its own' % (f.qual, q))
            if any(isinstance(a, ast.Starred) for a in c.args) or any(kw.arg is None for kw in c.keywords):
                raise UnknownIdiom('%s: star-arguments in %s' % (f.qual, short(c)))
            n_sites += 1
            run.use(f)
            arg = c.args[idx] if idx < len(c.args) else next((kw.value for kw in c.keywords if kw.arg == 'code'), None)
            what = '%s: the WebSocketDisconnected built here carries an integer close code (its argument is never None, or the constructor maps None to the default code)' % f.name
            if arg is None:
                stored = ctor(absent=True)
                run.check(all(_is_code(v) for v in stored), what, f, c, witness=['no argument: self.code in %s' % sorted(map(repr, stored))], runtime_witness=rw)
                continue
            # a field read right after this function assigned it: only those stores count
            local_stores = None
            if isinstance(arg, ast.Attribute) and isinstance(arg.value, ast.Name) and arg.value.id == 'self':
                cfg = cfg or cfg_of(f, p)
                site = [n.id for n in cfg.live_nodes() if any(x is c for x in n.walk())]
                st = [(node, val) for (a2, val, node) in _c18._stores(f) if a2 == arg.attr]
                st_nodes = [i for (node, _v) in st for i in cfg.nodes_for(node)]
                if site and st_nodes and all(flow.dominated_by_nodes(cfg, s, st_nodes) for s in site):
                    local_stores = [val for (_n, val) in st]
            verdict, sources = nf.of(f, arg, local_stores=local_stores)
            if verdict is False:
                run.ok(what, f.loc(c), c)
                continue
            stored = ctor(None)
            safe = all(_is_code(v) for v in stored)
            if verdict is None and not safe:
                undecided.append('%s %s' % (f.loc(c), short(c)))     # no None source proven: not accused
                continue
            run.check(safe, what, f, c,
                      witness=(['None reaches the argument from: %s' % s for s in sources[:4]]
                               + ['%s with code=None stores self.code in %s' % (init.qual, sorted(map(repr, stored)))]),
                      runtime_witness=rw)
    if n_sites < 3:
        raise AnchorError('%s: fewer than 3 construction sites of WebSocketDisconnected found' % WS_MODULE)
    run.extra['c17_disconnected_code'] = {'constructor(None)': sorted(map(repr, ctor(None))), 'sites': n_sites,
                                         'sites whose argument is not understood (not accused)': undecided}


# ---------------------------------------------------------------------------
# R10 what travels in the events: immutable snapshot of the payload, documented serializer, documented keys
# ---------------------------------------------------------------------------

PAYLOAD_ENUM = 'falcon.constants.WebSocketPayloadType'
_BYTESLIKE = ('bytes', 'bytearray', 'memoryview')
_UNREAD = '?'
# keys the ASGI WebSocket spec defines for the three server->client events (one line each)
DOCUMENTED_KEYS = {
    'websocket.accept': {'type', 'subprotocol', 'headers'},     # asgiref www spec, "Accept - send event"
    'websocket.send': {'type', 'bytes', 'text'},                # "Send - send event"
    'websocket.close': {'type', 'code', 'reason'},              # "Close - send event"
}


class _PayloadEval:
    """Abstract evaluation of one send_* method for ONE concrete type of its payload argument.  A value is
    ``(type, content)``: type in {bytes, bytearray, memoryview, str, '?'}, content 'payload' (the same bytes/characters
    as the argument) or 'other'.  Tests on the type of a tracked local (``isinstance``, ``type(x) is C``) are evaluated,
    every other test is non-deterministic; locals are rebound by plain assignments."""

    def __init__(self, p, f: Func, pay: Optional[str], depth: int = 0):
        self.p, self.f, self.pay, self.depth = p, f, pay, depth
        self.cfg = cfg_of(f, p)

    def through_helper(self, e: ast.Call, env) -> Optional[Set[tuple]]:
        """The values a call of a synchronous helper of the class / module returns (`_as_bytes(payload)` with `if not
        isinstance(payload, (bytes, ...)): raise` ... `return bytes(payload)`): the helper is evaluated like the method, its
        parameters bound to the values of the arguments; a path that raises returns nothing.  None: not such a call."""
        from .c15_helpers import bound_args, key_helper
        g = key_helper(self.p, self.f, e) if self.depth < 2 else None
        if g is None:
            return None
        bound = bound_args(g, e)
        envs0 = [()]
        for q, a in sorted(bound.items()):
            vs = sorted(self.values(a, env))
            envs0 = [e0 + ((q, v),) for e0 in envs0 for v in vs]
            if len(envs0) > 16:
                raise UnknownIdiom('%s: too many argument value combinations for %s' % (self.f.qual, short(e)))
        sub = _PayloadEval(self.p, g, None, self.depth + 1)
        rets = {n.id for n in sub.cfg.live_nodes() if n.kind == 'stmt' and isinstance(n.ast, ast.Return)}
        for (x, l) in sub.cfg.pred[sub.cfg.exit]:
            if x not in rets and l != 'exc' and x in {n.id for n in sub.cfg.live_nodes()}:
                raise UnknownIdiom('%s: the helper %s can fall off its end' % (self.f.qual, g.qual))
        out: Set[tuple] = set()
        for e0 in envs0:
            for nid, envs in sub.at(rets, None, env0=tuple(sorted(e0))).items():
                rv = sub.cfg.node(nid).ast.value
                for env2 in envs:
                    out |= sub.values(rv, env2) if rv is not None else {('NoneType', 'other')}
        return out

    def _builtin(self, e) -> Optional[str]:
        q = self.p.resolve_expr(self.f.module, e, self.f)
        if q is None and isinstance(e, ast.Name) and e.id not in local_names_of(self.f):
            q = 'builtins.' + e.id
        return q[len('builtins.'):] if q and q.startswith('builtins.') else None

    def _types(self, e) -> List[str]:
        mod, e = literal_of(self.p, self.f, e)        # a module-level tuple of types bound once is its value
        ts = e.elts if isinstance(e, ast.Tuple) else [e]
        out = []
        for t in ts:
            b = self._builtin(t) if mod is self.f.module else None
            if mod is not self.f.module:
                q = self.p.resolve_expr(mod, t) or ('builtins.' + t.id if isinstance(t, ast.Name) else None)
                b = q[len('builtins.'):] if q and q.startswith('builtins.') else None
            if b is None:
                raise UnknownIdiom('%s: type test against %s' % (self.f.qual, short(t)))
            out.append(b)
        return out

    def atom(self, env):
        def type_of_name(x):
            if isinstance(x, ast.Name) and x.id in env:
                return env[x.id][0]
            return None

        def atom(e):
            if isinstance(e, ast.Call) and isinstance(e.func, ast.Name) and e.func.id == 'isinstance' and len(e.args) == 2 and not e.keywords:
                t = type_of_name(e.args[0])
                if t is None:
                    return None
                if t == _UNREAD:
                    raise UnknownIdiom('%s: %s on a value that is not understood' % (self.f.qual, short(e)))
                return {t in self._types(e.args[1])}
            if isinstance(e, ast.Compare) and len(e.ops) == 1 and isinstance(e.left, ast.Call) and isinstance(e.left.func, ast.Name) \
                    and e.left.func.id == 'type' and len(e.left.args) == 1:
                t = type_of_name(e.left.args[0])
                if t is None:
                    return None
                if t == _UNREAD:
                    raise UnknownIdiom('%s: %s on a value that is not understood' % (self.f.qual, short(e)))
                op, r = e.ops[0], e.comparators[0]
                if isinstance(op, (ast.Is, ast.Eq, ast.IsNot, ast.NotEq)):
                    hit = t in self._types(r) if not isinstance(r, ast.Tuple) else None
                    if hit is None:
                        raise UnknownIdiom('%s: %s' % (self.f.qual, short(e)))
                    return {hit} if isinstance(op, (ast.Is, ast.Eq)) else {not hit}
                if isinstance(op, (ast.In, ast.NotIn)) and isinstance(r, (ast.Tuple, ast.List, ast.Set)):
                    hit = t in self._types(ast.Tuple(elts=r.elts, ctx=ast.Load()))
                    return {hit} if isinstance(op, ast.In) else {not hit}
                raise UnknownIdiom('%s: %s' % (self.f.qual, short(e)))
            if isinstance(e, (ast.BoolOp, ast.UnaryOp, ast.Constant)):
                return None
            for x in walk_self(e):
                if (isinstance(x, ast.Attribute) and x.attr == '__class__' and type_of_name(x.value) is not None) or \
                        (isinstance(x, ast.Call) and isinstance(x.func, ast.Name) and x.func.id in ('type', 'isinstance', 'issubclass')
                         and any(type_of_name(a) is not None for a in x.args)):
                    raise UnknownIdiom('%s: test %s on the type of the payload' % (self.f.qual, short(e)))
            return None
        return atom

    def values(self, e, env) -> Set[tuple]:
        e = strip_await(e)
        if isinstance(e, ast.Name):
            if e.id in env:
                return {env[e.id]}
            return {(_UNREAD, 'other')}
        if isinstance(e, ast.Constant):
            return {(type(e.value).__name__, 'other')}
        if isinstance(e, ast.NamedExpr):
            return self.values(e.value, env)
        if isinstance(e, ast.IfExp):
            tv = possible(e.test, self.atom(env))
            out = set()
            if True in tv:
                out |= self.values(e.body, env)
            if False in tv:
                out |= self.values(e.orelse, env)
            return out
        if isinstance(e, ast.Subscript) and isinstance(e.slice, ast.Slice) and e.slice.lower is None and e.slice.upper is None and e.slice.step is None:
            return self.values(e.value, env)            # x[:] - same type, same content
        if isinstance(e, ast.Call) and not e.keywords and len(e.args) == 1 and isinstance(e.func, ast.Name) and not isinstance(e.args[0], ast.Starred):
            b = self._builtin(e.func)
            if b in _BYTESLIKE:
                out = set()
                for (t, c) in self.values(e.args[0], env):
                    out.add((b, c if t in _BYTESLIKE else 'other') if t != _UNREAD else (b, _UNREAD))
                return out
            if b == 'str':
                return {(('str', c) if t == 'str' else ('str', 'other') if t != _UNREAD else ('str', _UNREAD)) for (t, c) in self.values(e.args[0], env)}
        if isinstance(e, ast.Call) and not e.args and not e.keywords and isinstance(e.func, ast.Attribute) and e.func.attr == 'tobytes':
            out = set()
            for (t, c) in self.values(e.func.value, env):
                out.add(('bytes', c) if t == 'memoryview' else (_UNREAD, 'other'))
            return out
        if isinstance(e, ast.Call):
            r = self.through_helper(e, env)
            if r is not None:
                return r
        return {(_UNREAD, 'other')}

    def at(self, sink_ids: Set[int], t0: Optional[str], env0=None) -> Dict[int, List[dict]]:
        """environments in which each sink node is reached when the payload argument has type `t0` (or from the explicit
        entry environment env0)"""
        cfg = self.cfg
        if env0 is None:
            env0 = ((self.pay, (t0, 'payload')),)
        seen = {(cfg.entry, env0)}
        work = [(cfg.entry, env0)]
        out: Dict[int, List[dict]] = {}
        while work:
            nid, envt = work.pop()
            n = cfg.node(nid)
            env = dict(envt)
            if nid in sink_ids:
                out.setdefault(nid, []).append(env)
            env_exc = envt
            if n.kind == 'stmt' and isinstance(n.ast, (ast.Assign, ast.AnnAssign, ast.AugAssign)) and getattr(n.ast, 'value', None) is not None:
                tgs = n.ast.targets if isinstance(n.ast, ast.Assign) else [n.ast.target]
                for t in tgs:
                    if isinstance(t, ast.Name):
                        if isinstance(n.ast, ast.AugAssign):
                            env[t.id] = (_UNREAD, 'other')
                            continue
                        vs = self.values(n.ast.value, dict(envt))
                        if len(vs) == 1:
                            env[t.id] = next(iter(vs))
                        else:
                            env[t.id] = None        # forked below
                            forks = sorted(vs)
                    elif isinstance(t, (ast.Tuple, ast.List)):
                        for x in ast.walk(t):
                            if isinstance(x, ast.Name):
                                env[x.id] = (_UNREAD, 'other')
            elif n.kind in ('iter', 'with') or (n.kind == 'stmt' and isinstance(n.ast, ast.Delete)):
                for e in n.own():
                    for x in ast.walk(e):
                        if isinstance(x, ast.Name) and isinstance(x.ctx, (ast.Store, ast.Del)):
                            env[x.id] = (_UNREAD, 'other')
            for x in (n.walk() if n.ast is not None else []):
                if isinstance(x, ast.NamedExpr):
                    vs = self.values(x.value, dict(envt))
                    env[x.target.id] = next(iter(vs)) if len(vs) == 1 else (_UNREAD, 'other')
            envs = [env]
            pending = [k for k, v in env.items() if v is None]
            if pending:
                envs = []
                for v in forks:
                    e2 = dict(env)
                    for k in pending:
                        e2[k] = v
                    envs.append(e2)
            tv = None
            if n.kind == 'test':
                tv = possible(n.ast, self.atom(dict(envt)))
            elif n.kind == 'stmt' and isinstance(n.ast, ast.Assert):
                if True not in possible(n.ast.test, self.atom(dict(envt))):
                    envs = []
            for (y, l) in cfg.succ[nid]:
                if l == 'exc':
                    if cfg.node(y).kind != 'handler':
                        continue
                    nxt = [env_exc]
                else:
                    if tv is not None and l in ('T', 'F') and (l == 'T') not in tv:
                        continue
                    nxt = [tuple(sorted(e2.items())) for e2 in envs]
                for e2 in nxt:
                    if (y, e2) not in seen:
                        seen.add((y, e2))
                        work.append((y, e2))
        return out


def local_names_of(f: Func) -> Set[str]:
    out = set(f.params())
    for x in walk_self(f.node):
        if isinstance(x, ast.Name) and isinstance(x.ctx, ast.Store):
            out.add(x.id)
    return out


def _send_event_sites(model: WSModel, f: Func, cfg):
    """[(emit node, call, event dict literal, node ids that evaluate the literal)] for the websocket.send events `f` emits"""
    out = []
    for n in cfg.live_nodes():
        for c in n.calls():
            if (model._self_method(f, c) is not None or model.is_raw_send_call(c)) and c.args and model.event_type(f, c.args[0], {}) == 'websocket.send':
                ev0 = _one_def(f, c.args[0])
                evs = [ev0]
                if isinstance(ev0, ast.Name) and ev0.id not in f.params():
                    # one literal per branch, one trailing emission: every literal bound to the local is a site of its own
                    ds = local_defs(f, ev0.id)
                    if len(ds) > 1 and all(isinstance(d, ast.Dict) for d in ds):
                        evs = ds
                for ev in evs:
                    if not isinstance(ev, ast.Dict) or any(k is None for k in ev.keys):
                        raise UnknownIdiom('%s: the websocket.send event is built by %s' % (f.qual, short(ev)))
                    at = [m.id for m in cfg.live_nodes() if any(x is ev for x in m.walk())]
                    if not at:
                        raise UnknownIdiom('%s: event literal %s not found in the CFG' % (f.qual, short(ev)))
                    out.append((n, c, ev, at))
    if not out:
        raise AnchorError('%s: emission of the websocket.send event not found' % f.qual)
    return out


def _event_mutations(f: Func, ev: ast.Dict):
    """(key expr, value) of every ``<local>[k] = v`` on the local bound to the literal `ev` (a local that is only ever bound
    to dict literals); raises on update()/setdefault()/... on it"""
    name = None
    for n in walk_self(f.node):
        if isinstance(n, (ast.Assign, ast.AnnAssign)) and n.value is ev:
            tg = n.targets[0] if isinstance(n, ast.Assign) else n.target
            if isinstance(tg, ast.Name) and all(isinstance(d, ast.Dict) for d in local_defs(f, tg.id)):
                name = tg.id        # one literal per branch: a later store lands in whichever was bound
            else:
                raise UnknownIdiom('%s: event literal bound by %s' % (f.qual, short(n)))
    out = []
    if name is None:
        return out
    for n in walk_self(f.node):
        if isinstance(n, (ast.Assign, ast.AugAssign, ast.AnnAssign)):
            for t in (n.targets if isinstance(n, ast.Assign) else [n.target]):
                for x in ast.walk(t):
                    if isinstance(x, ast.Subscript) and isinstance(x.value, ast.Name) and x.value.id == name and isinstance(x.ctx, ast.Store):
                        out.append((x.slice, getattr(n, 'value', None)))
        elif isinstance(n, ast.Call) and isinstance(n.func, ast.Attribute) and isinstance(n.func.value, ast.Name) and n.func.value.id == name \
                and n.func.attr in ('update', 'setdefault', '__setitem__', 'pop', 'popitem', 'clear'):
            raise UnknownIdiom('%s: the event is changed through %s' % (f.qual, short(n)))
    return out


def r10_event_payloads(run):
    """"Text/binary/media payloads arrive unchanged" and "the events form a legal ASGI session" - what is put INTO the
    events:

    * ``send_data``: for every type the argument may have when the event is built (bytes, bytearray, memoryview, minus
      what the type check rejects), the value under 'bytes' is of type ``bytes`` and has the payload's content - an
      immutable snapshot: ``bytes(x)`` unconditionally, or on every path on which the argument is not already exactly
      ``bytes``.  Abstract evaluation per argument type; ``isinstance``/``type() is`` tests on it are evaluated.
      W: ``buf = bytearray(8); readinto(buf); await ws.send_data(buf)`` in a loop against a server that queues the
      events: the event carries the caller's bytearray (not the ``bytes`` the ASGI spec requires), every queued frame
      shows the last chunk.
    * ``send_text``: the value under 'text' is the (type-checked) ``str`` argument itself.
    * ``send_media``: the value under 'text' is the TEXT media handler's ``serialize`` applied to the argument, under
      'bytes' the BINARY handler's; the text event is built exactly when ``payload_type`` is TEXT.  (What a custom
      binary handler returns is user code; the documented ``serialize`` contract is trusted.)
    * every websocket.accept/send/close event literal of the framework (and the ``event[k] = v`` stores on it) uses
      only the keys the ASGI spec defines for that event; a websocket.send event carries exactly one payload key.

    Anchors: the methods, the first parameter as payload, the ``payload_type`` keyword, ``WebSocketPayloadType.TEXT/BINARY``,
    the ``serialize`` attribute of the handlers, the event keys."""
    p = run.project
    model = _model(run)
    for f in _public_ops(model):
        for cell in model.all_cells():
            model.analyse(f, cell)
    # --- send_data / send_text: abstract evaluation per argument type
    for name, key, domain, want in (('send_data', 'bytes', _BYTESLIKE, 'bytes'), ('send_text', 'text', ('str',), 'str')):
        f = p.func('%s.%s' % (WS, name))
        params = [a for a in f.params() if a != 'self']
        if not params:
            raise UnknownIdiom('%s has no payload parameter' % f.qual)
        pe = _PayloadEval(p, f, params[0])
        cfg = pe.cfg
        run.use_cfg(cfg)
        for (n, c, ev, at) in _send_event_sites(model, f, cfg):
            if _event_mutations(f, ev):
                raise UnknownIdiom('%s: the websocket.send event is filled in after it was built' % f.qual)
            keys = {k.value: v for k, v in zip(ev.keys, ev.values) if isinstance(k, ast.Constant)}
            if len(keys) != len(ev.keys):
                raise UnknownIdiom('%s: computed key in %s' % (f.qual, short(ev)))
            if key not in keys:
                continue        # R5 reports the missing payload key
            val = keys[key]
            bad, unread, reached = [], [], 0
            for t0 in domain:
                for nid, envs in pe.at(set(at), t0).items():
                    for env in envs:
                        reached += 1
                        for (t, cont) in sorted(pe.values(val, env)):
                            if t == _UNREAD or cont == _UNREAD:
                                unread.append(t0)
                            elif t != want or cont != 'payload':
                                bad.append('%s argument -> %r carries %s' % (t0, key, t if t != want else 'a %s that is not the payload' % t))
            if reached == 0:
                raise UnknownIdiom('%s: the event literal is not reached for any payload type' % f.qual)
            if unread and not bad:
                raise UnknownIdiom('%s: the value under %r, %s, is not understood (payload of type %s)' % (f.qual, key, short(val), sorted(set(unread))[0]))
            run.check(not bad, ('%s: the event carries an immutable snapshot of the payload - a value of type bytes for every admitted argument type '
                                '(bytes(x) unless the argument is already exactly bytes)' if want == 'bytes' else
                                '%s: the event carries the str argument itself') % name,
                      f, '%r: %s' % (key, short(val)), where=f.loc(val), witness=sorted(set(bad)),
                      runtime_witness='a responder refills one bytearray per chunk and passes it to send_data(): the event holds the caller\'s mutable '
                                      'buffer (not the bytes the ASGI spec requires); a server that queues events sends N copies of the last chunk'
                                      if want == 'bytes' else 'the text frame does not carry the string given to send_text()')
    # --- send_media: documented serializer, matching payload type
    f = p.func(WS + '.send_media')
    cfg = cfg_of(f, p)
    run.use_cfg(cfg)
    params = [a for a in f.params() if a != 'self']
    if len(params) < 2 or 'payload_type' not in params:
        raise AnchorError('%s: media argument / payload_type keyword not found' % f.qual)
    media = params[0]
    serializers: Dict[str, str] = {}
    for (attr, val, _node) in _c18._stores(model.init):
        v = _one_def(model.init, val)
        if isinstance(v, ast.Attribute) and v.attr == 'serialize':
            src = _one_def(model.init, v.value)
            if isinstance(src, ast.Subscript):
                q = p.resolve_expr(model.init.module, src.slice, model.init)
                if q in (PAYLOAD_ENUM + '.TEXT', PAYLOAD_ENUM + '.BINARY'):
                    serializers[attr] = q.rsplit('.', 1)[1]
    if set(serializers.values()) != {'TEXT', 'BINARY'}:
        raise AnchorError('%s.__init__: the serialize methods of the TEXT and BINARY media handlers are not bound to fields (%s)' % (WS, serializers))

    def pt_atom(member):
        def atom(e):
            if isinstance(e, ast.Compare) and len(e.ops) == 1 and any(isinstance(x, ast.Name) and x.id == 'payload_type' for x in (e.left, e.comparators[0])):
                l, r, op = e.left, e.comparators[0], e.ops[0]
                if not (isinstance(l, ast.Name) and l.id == 'payload_type'):
                    l, r = r, l
                if isinstance(op, (ast.Is, ast.Eq, ast.IsNot, ast.NotEq)):
                    q = p.resolve_expr(f.module, r, f)
                    if q is None or not q.startswith(PAYLOAD_ENUM + '.'):
                        raise UnknownIdiom('%s: payload_type compared with %s' % (f.qual, short(r)))
                    eq = q == PAYLOAD_ENUM + '.' + member
                    return {eq} if isinstance(op, (ast.Is, ast.Eq)) else {not eq}
                if isinstance(op, (ast.In, ast.NotIn)) and isinstance(r, (ast.Tuple, ast.List, ast.Set)):
                    qs = [p.resolve_expr(f.module, x, f) for x in r.elts]
                    if any(q is None or not q.startswith(PAYLOAD_ENUM + '.') for q in qs):
                        raise UnknownIdiom('%s: %s' % (f.qual, short(e)))
                    isin = PAYLOAD_ENUM + '.' + member in qs
                    return {isin} if isinstance(op, ast.In) else {not isin}
                raise UnknownIdiom('%s: %s' % (f.qual, short(e)))
            if isinstance(e, ast.Name) and e.id == 'payload_type':
                return {True}       # Enum members are truthy
            return None
        return atom

    sites = _send_event_sites(model, f, cfg)
    site_key: List[tuple] = []      # (payload key, nodes evaluating the literal, emit node, nodes binding ANOTHER literal)
    for (n, c, ev, at) in sites:
        if _event_mutations(f, ev):
            raise UnknownIdiom('%s: the websocket.send event is filled in after it was built' % f.qual)
        keys = {k.value: v for k, v in zip(ev.keys, ev.values) if isinstance(k, ast.Constant)}
        pk = sorted(k for k in keys if k in ('text', 'bytes'))
        if len(pk) != 1:
            run.fail('send_media: the event carries exactly one payload key', f, ev, runtime_witness='a frame with both/no payloads is handed to the server')
            continue
        key = pk[0]
        site_key.append((key, set(at), n.id, set(a for (_n2, _c2, ev2, at2) in sites if ev2 is not ev for a in at2 if a != n.id)))
        val = strip_await(_one_def(f, keys[key]))
        kind = None
        if isinstance(val, ast.Call) and isinstance(val.func, ast.Name) and val.func.id not in f.params():
            # `serialize = self._mh_text_serialize` ... `serialize(media)`: a local bound once is what it aliases
            fn = _one_def(f, val.func)
            if isinstance(fn, ast.Attribute):
                val = ast.copy_location(ast.Call(func=fn, args=val.args, keywords=val.keywords), val)
        if isinstance(val, ast.Call) and isinstance(val.func, ast.Attribute) and isinstance(val.func.value, ast.Name) and val.func.value.id == 'self':
            kind = serializers.get(val.func.attr)
            if kind is None:
                m = model._self_method(f, val)
                if m is not None or val.func.attr not in {a for (a, _v, _n) in _c18._stores(model.init)}:
                    raise UnknownIdiom('%s: the %r payload is produced by %s' % (f.qual, key, short(val)))
            through = len(val.args) == 1 and not val.keywords and isinstance(val.args[0], ast.Name) and val.args[0].id == media
        elif any(isinstance(x, ast.Name) and x.id == media for x in walk_self(val)) and not any(isinstance(x, ast.Call) for x in walk_self(val)):
            through = False         # the object itself (or a plain expression of it), not serialized
        else:
            raise UnknownIdiom('%s: the %r payload is %s' % (f.qual, key, short(val)))
        want_kind = 'TEXT' if key == 'text' else 'BINARY'
        run.check(through and kind == want_kind,
                  'send_media: the %r payload is the %s media handler\'s serialize() applied to the media argument' % (key, want_kind),
                  f, '%r: %s' % (key, short(val)), where=f.loc(val),
                  runtime_witness='send_media(obj) puts %s into a %s frame' % ('an unserialized object' if not through else 'the output of the other handler', key))
    for member, key in (('TEXT', 'text'), ('BINARY', 'bytes')):
        filt = feasible(cfg, pt_atom(member))
        reach = flow.reachable(cfg, [cfg.entry], edge_filter=filt)
        # the literal is evaluated for this payload type AND it is the one in hand at the emission (def-use: no other literal
        # is bound in between)
        got = sorted({k for (k, at, emit, others) in site_key
                      if any(a in reach and (a == emit or emit in flow.reachable(cfg, [a], avoid_nodes=others, edge_filter=filt)) for a in at)})
        run.check(got == [key], 'send_media: payload_type=%s builds a %r event and nothing else' % (member, key), f, 'payload_type %s -> %s' % (member, key),
                  witness=['events reachable: %s' % (got or 'none')],
                  runtime_witness='send_media(obj, WebSocketPayloadType.%s) sends a frame of the other kind' % member)
    # --- documented keys of every server->client event literal
    n_lits = 0
    for g in p.all_functions():
        if not _in_scope(g.module.name):
            continue
        for d in walk_self(g.node):
            if not isinstance(d, ast.Dict):
                continue
            t = None
            for k, v in zip(d.keys, d.values):
                if isinstance(k, ast.Constant) and k.value == 'type':
                    t = p.fold(g.module, v, g.cls, g)
            if t not in OUT_EVENTS:
                continue
            n_lits += 1
            run.use(g)
            if any(k is None for k in d.keys):
                raise UnknownIdiom('%s: ** in the %s event' % (g.qual, t))
            ks = []
            for k in list(d.keys) + [k for (k, _v) in _event_mutations(g, d)]:
                kv = p.fold(g.module, k, g.cls, g)
                if not isinstance(kv, str):
                    raise UnknownIdiom('%s: computed key %s in the %s event' % (g.qual, short(k), t))
                ks.append(kv)
            extra = sorted(set(ks) - DOCUMENTED_KEYS[t])
            run.check(not extra, 'the %s event built here uses only the keys the ASGI spec defines for it (%s)' % (t, ', '.join(sorted(DOCUMENTED_KEYS[t]))),
                      g, '%s keys %s' % (t, sorted(set(ks))), where=g.loc(d), witness=['undocumented: %s' % extra],
                      runtime_witness='a strict ASGI server rejects the %s event' % t)
    if n_lits < 5:
        raise AnchorError('fewer than 5 server->client WebSocket event literals found')


def check(run):
    run.assume('a WebSocket object is used by one task at a time (the state is not changed by other tasks while an operation is suspended), '
               'except for the client_disconnected flag, which may become True at any suspension point')
    run.assume('conditions that do not mention the connection state or the disconnect flag are treated as non-deterministic')
    run.extra['c17_not_decided'] = [
        'legality of the whole event stream for every responder x client script (R1-R3 are its per-operation necessary conditions)',
        'a *custom* error handler (user code) that does not close the socket: _handle_websocket has no fallback close after '
        '_handle_exception() returned True, so no websocket.close is sent and the pump task keeps running (R3 covers the default handlers only)',
    ]
    run.rule('R1', r1_operations, 'per-operation legality of emissions/receives, wrong-state errors, post-states', floor=80)
    run.rule('R2', r2_who_may_emit, 'the raw send and the event literals belong to the state machine', floor=10)
    run.rule('R3', r3_always_closed, 'close after the responder, exceptions reach the ws-aware handlers, handlers close, code mapping', floor=22)
    run.rule('R4', r4_close_codes, 'close-code partition and reason gate', floor=20)
    run.rule('R5', r5_payload_types, 'payload type checks', floor=11)
    run.rule('R6', _c18.disconnect_flag_prompt, 'the receive pump raises the client_disconnected flag before it suspends again after pulling the '
                                                'disconnect (nothing is sent after the connection is lost; pump context shared with C18 R3)', floor=1)
    run.rule('R7', _c18.r6_end_of_stream, 'payloads arrive in order and none is dropped at the end of a session: receive() reports "client gone" only '
                                          'when no message is buffered (= C18 R6, shared)', floor=2)
    run.rule('R8', _c18.r7_receive_ignores_flag, 'payloads arrive unchanged in order: the receive path (receive_*, the shared state guard and what they '
                                                 'use) does not consult the sender-side disconnect flag, so messages buffered before the client left are '
                                                 'still handed out (= C18 R7, shared)', floor=4)
    run.rule('R9', r9_disconnected_code, 'the documented disconnected error always carries an integer close code: a construction site in ws.py whose '
                                         'argument may be None relies on the constructor mapping None to the default code', floor=4)
    run.rule('R10', r10_event_payloads, 'what is put into the events: send_data hands over an immutable bytes snapshot for every admitted argument type, '
                                        'send_text the str itself, send_media the matching handler\'s serialize(media); documented keys only', floor=10)
