"""Abstract model of ``falcon.asgi.ws.WebSocket`` shared by C17 (and C18 R4).

The connection state is tracked as a *cell* ``(state, disc)``:

* ``state``  a member of ``_WebSocketState``: value of the attribute that
  ``WebSocket.__init__`` initialises with a ``_WebSocketState`` member.  The
  members are READ from the Enum class.  HANDSHAKE/ACCEPTED/CLOSED are anchors;
  every further member is classified by what the code does with it
  (``WSModel.states()``): one that no reachable code writes is never a state of
  a connection (comparisons with it are still evaluated); one that ``accept()``
  can return in would be a second "open" state, which is not modelled (unknown
  idiom); every other written member - recorded by ``close()``, by the
  disconnect paths of ``_send``/``_receive`` - is a *terminal* member, i.e. one
  more way of being closed, and all obligations that hold for CLOSED are
  evaluated for it too;
* ``disc``   in {False, True}: value of ``<buffered receiver>.client_disconnected``.

A context-sensitive, path-sensitive (on exactly these two variables)
reachability analysis enumerates, for an entry method and an entry cell,

* every emission on the raw ASGI ``send`` (with the folded event type and the
  cell in which it happens),
* every call of the raw ASGI ``receive``,
* every explicit ``raise`` that can be reached and the cells at normal exit.

Tests that do not mention the tracked variables are non-deterministic;
``disc`` may flip to True at every suspension point.  Anything the model does
not understand raises UnknownIdiom (exit 2), never a violation.
"""

from __future__ import annotations

import ast
from typing import Callable, Dict, FrozenSet, List, Optional, Set, Tuple

from ..cfg import cfg_of
from ..model import UNKNOWN, AnchorError, Func, Project, UnknownIdiom, func_owner_class, short
from .common import ancestors, enclosing_map, strip_await, walk_self

WS = 'falcon.asgi.ws.WebSocket'
WS_STATE_ENUM = 'falcon.asgi.ws._WebSocketState'
BUFRX = 'falcon.asgi.ws._BufferedReceiver'
STATES = ('HANDSHAKE', 'ACCEPTED', 'CLOSED')
OUT_EVENTS = ('websocket.accept', 'websocket.send', 'websocket.close')

BOTH = frozenset([True, False])


# ---------------------------------------------------------------------------
# three-valued evaluation of branch conditions
# ---------------------------------------------------------------------------

def possible(expr, atom: Callable[[ast.AST], Optional[Set[bool]]]) -> Set[bool]:
    """Truth values `expr` may take; `atom(e)` returns the exact set for the
    expressions it understands and None for everything else."""
    expr = strip_await(expr)
    r = atom(expr)
    if r is not None:
        return set(r)
    if isinstance(expr, ast.Constant):
        return {bool(expr.value)}
    if isinstance(expr, ast.UnaryOp) and isinstance(expr.op, ast.Not):
        return {not v for v in possible(expr.operand, atom)}
    if isinstance(expr, ast.BoolOp):
        is_and = isinstance(expr.op, ast.And)
        out: Set[bool] = set()
        cont = True  # evaluation can reach the next operand
        for v in expr.values:
            pv = possible(v, atom)
            stop_val = not is_and  # `and` stops on False, `or` stops on True
            if stop_val in pv:
                out.add(stop_val)
            if (not stop_val) not in pv:
                cont = False
                break
        if cont:
            out.add(is_and)
        return out
    return set(BOTH)


def single_return_expr(func: Func):
    """Expression of a function whose body is (docstring +) one return."""
    body = [s for s in func.node.body if not (isinstance(s, ast.Expr) and isinstance(s.value, ast.Constant))]
    if len(body) == 1 and isinstance(body[0], ast.Return) and body[0].value is not None:
        return body[0].value
    return None


def local_defs(func: Func, name: str) -> List[ast.AST]:
    """Values assigned to the plain local `name` in func (Assign/AnnAssign)."""
    out = []
    for n in walk_self(func.node):
        if isinstance(n, ast.Assign):
            for t in n.targets:
                if isinstance(t, ast.Name) and t.id == name:
                    out.append(n.value)
                elif isinstance(t, (ast.Tuple, ast.List)) and any(isinstance(e, ast.Name) and e.id == name for e in ast.walk(t)):
                    out.append(None)
        elif isinstance(n, ast.AnnAssign) and isinstance(n.target, ast.Name) and n.target.id == name and n.value is not None:
            out.append(n.value)
        elif isinstance(n, (ast.AugAssign,)) and isinstance(n.target, ast.Name) and n.target.id == name:
            out.append(None)
        elif isinstance(n, (ast.For, ast.AsyncFor)) and any(isinstance(e, ast.Name) and e.id == name for e in ast.walk(n.target)):
            out.append(None)
        elif isinstance(n, ast.NamedExpr) and n.target.id == name:
            out.append(n.value)
    return out


def fold_local(project: Project, func: Func, expr):
    """project.fold, additionally looking through single-assignment locals."""
    v = project.fold(func.module, expr, func.cls, func)
    if v is not UNKNOWN:
        return v
    if isinstance(expr, ast.Name) and expr.id not in func.params():
        defs = local_defs(func, expr.id)
        if len(defs) == 1 and defs[0] is not None:
            return project.fold(func.module, defs[0], func.cls, func)
    return UNKNOWN


# ---------------------------------------------------------------------------
# reading abilities shared by the C17/C18 rules: module-level literals, inert parameters, values of a local at a node
# ---------------------------------------------------------------------------

def _module_bindings(p: Project, mod, name: str) -> int:
    """How many times the module binds `name` anywhere (top level, nested blocks, `global` writers in functions)."""
    cache = p.__dict__.setdefault('_c17_modbind', {})
    key = (mod.name, name)
    if key not in cache:
        n = 0
        globals_in = False
        for x in ast.walk(mod.tree):
            if isinstance(x, ast.Global) and name in x.names:
                globals_in = True
        for s in ast.walk(mod.tree) if globals_in else _top_level_stmts(mod.tree):
            if isinstance(s, ast.Name) and s.id == name and isinstance(s.ctx, (ast.Store, ast.Del)):
                n += 1
            elif isinstance(s, (ast.FunctionDef, ast.AsyncFunctionDef, ast.ClassDef)) and s.name == name and s in mod.tree.body:
                n += 1
            elif isinstance(s, (ast.Import, ast.ImportFrom)) and any((a.asname or a.name).split('.')[0] == name for a in s.names):
                n += 1
        cache[key] = n
    return cache[key]


def _top_level_stmts(tree):
    """Every node of the module that executes at import time in module scope (does not enter def/class/lambda bodies)."""
    stack = list(tree.body)
    while stack:
        n = stack.pop()
        yield n
        for c in ast.iter_child_nodes(n):
            if isinstance(c, (ast.FunctionDef, ast.AsyncFunctionDef, ast.ClassDef, ast.Lambda)):
                yield c
                continue
            stack.append(c)


def module_literal(p: Project, func: Func, e):
    """``(module, value expression)`` when `e` names a module-level constant of the analysed package that is bound exactly once
    (`_BINARY_PAYLOAD_TYPES = (bytes, bytearray, memoryview)`, `_MARKER = 'code = 1000 (OK)'`, `_MIN_VERSION = (2, 3)`), looked
    through aliases of such names; None for anything else (locals, parameters, names bound twice, non-literal values).  A literal is
    a constant, a name of a builtin / class, or a tuple/list/set/frozenset display of literals."""
    seen = 0
    mod = func.module
    cur = e
    result = None
    fn: Optional[Func] = func
    while seen < 4 and isinstance(cur, (ast.Name, ast.Attribute)):
        if isinstance(cur, ast.Name) and fn is not None:
            g = fn
            local = False
            while g is not None:
                if cur.id in g.params() or local_defs(g, cur.id):
                    local = True
                g = g.parent
            if local:
                return result
        q = p.resolve_expr(mod, cur, fn)
        if not q:
            return result
        head, _, tail = q.rpartition('.')
        m2 = p.modules.get(head)
        if m2 is None or tail not in m2.consts or _module_bindings(p, m2, tail) != 1:
            return result
        val = m2.consts[tail]
        if not _is_literal(val):
            return result
        result = (m2, val)
        mod, cur, fn = m2, val, None
        seen += 1
    return result


def _is_literal(v) -> bool:
    if isinstance(v, ast.Constant):
        return True
    if isinstance(v, (ast.Name, ast.Attribute)):
        return True          # a builtin / class / other constant: resolved by the reader in the constant's module
    if isinstance(v, (ast.Tuple, ast.List, ast.Set)):
        return all(_is_literal(x) for x in v.elts)
    if isinstance(v, ast.Call) and isinstance(v.func, ast.Name) and v.func.id in ('frozenset', 'tuple') and len(v.args) == 1 and not v.keywords:
        return _is_literal(v.args[0])
    return False


def literal_of(p: Project, func: Func, e):
    """``(module, expression)``: `e` itself in the module of `func`, or the module-level literal it names."""
    r = module_literal(p, func, e) if isinstance(e, (ast.Name, ast.Attribute)) else None
    return r if r is not None else (func.module, e)


class CallSites:
    """Every use of a method/function name in the analysed package: the calls (caller, call) and whether the name is also used
    in a way that is not a plain call made inside a function (a bound-method reference handed around, a call in class/module
    scope): then `closed` is False and nothing can be said about which arguments it receives."""

    def __init__(self, p: Project, m: Func):
        self.m = m
        name = m.name
        refs = 0
        for mod in p.modules.values():
            for x in ast.walk(mod.tree):
                if (isinstance(x, ast.Attribute) and x.attr == name) or (isinstance(x, ast.Name) and x.id == name and isinstance(x.ctx, ast.Load)):
                    refs += 1
        self.calls: List[Tuple[Func, ast.Call]] = []
        for g in p.funcs.values():
            for x in walk_self(g.node):
                if isinstance(x, ast.Call) and ((isinstance(x.func, ast.Attribute) and x.func.attr == name)
                                                 or (isinstance(x.func, ast.Name) and x.func.id == name)):
                    self.calls.append((g, x))
        self.closed = refs == len(self.calls)

    def passed(self, param: str) -> Optional[List[Tuple[Func, Optional[ast.AST]]]]:
        """[(caller, expression bound to `param` | None when the call omits it)]; None when it cannot be read."""
        if not self.closed:
            return None
        a = self.m.node.args
        pos = [x.arg for x in a.posonlyargs + a.args]
        if self.m.cls is not None and pos and pos[0] in ('self', 'cls'):
            pos = pos[1:]
        out = []
        for (g, c) in self.calls:
            if any(isinstance(x, ast.Starred) for x in c.args) or any(k.arg is None for k in c.keywords):
                return None
            v = None
            if param in pos and len(c.args) > pos.index(param):
                v = c.args[pos.index(param)]
            for k in c.keywords:
                if k.arg == param:
                    v = k.value
            out.append((g, v))
        return out


def call_sites(p: Project, m: Func) -> CallSites:
    cache = p.__dict__.setdefault('_c17_callsites', {})
    if m.qual not in cache:
        cache[m.qual] = CallSites(p, m)
    return cache[m.qual]


def param_default(m: Func, name: str):
    a = m.node.args
    pos = a.posonlyargs + a.args
    for x, d in zip(pos[len(pos) - len(a.defaults):], a.defaults):
        if x.arg == name:
            return d
    for x, d in zip(a.kwonlyargs, a.kw_defaults):
        if x.arg == name:
            return d
    return None


def param_values(p: Project, m: Func, name: str) -> Optional[List[Tuple[Optional[Func], ast.AST]]]:
    """What the parameter `name` of the private helper `m` holds over all the calls the analysed package makes:
    ``[(scope, expression)]`` - the declared default (scope None) when some call omits it, the argument expressions otherwise.
    An extra parameter with a default that no caller passes therefore evaluates to its default only ("omitted").  None when the
    uses of `m` cannot be enumerated (public name, bound-method reference, star-arguments)."""
    if m.name.startswith('__') or not (m.name.startswith('_') or name.startswith('_')):
        return None         # a public parameter of a public function is an input of the API, not of the package's own calls
    ps = call_sites(p, m).passed(name)
    if ps is None:
        return None
    if not ps:
        # no call in the package at all (an entry point of the API): nobody supplies it
        d = param_default(m, name)
        return [(None, d)] if d is not None else None
    out: List[Tuple[Optional[Func], ast.AST]] = []
    for (g, v) in ps:
        if v is None:
            d = param_default(m, name)
            if d is None:
                return None
            if not any(sc is None for (sc, _e) in out):
                out.append((None, d))
        else:
            out.append((g, v))
    return out


def inert_atom(p: Project, func: Func):
    """atom(e) for tests over a parameter that has a constant default, is never rebound and that no call of the analysed package
    supplies (`def _require_accepted(self, _allow_closed: bool = False)`): the test evaluates as for the default ("omitted").
    None for everything else."""
    cache: Dict[str, Optional[ast.Constant]] = {}

    def const_of(name: str) -> Optional[ast.Constant]:
        if name not in cache:
            v = None
            if name in func.params() and name not in ('self', 'cls') and not local_defs(func, name):
                pv = param_values(p, func, name)
                if pv is not None and len(pv) == 1 and pv[0][0] is None and isinstance(pv[0][1], ast.Constant):
                    v = pv[0][1]
            cache[name] = v
        return cache[name]

    def atom(e):
        if isinstance(e, ast.Name) and isinstance(e.ctx, ast.Load):
            c = const_of(e.id)
            return {bool(c.value)} if c is not None else None
        if isinstance(e, ast.Compare) and len(e.ops) == 1 and isinstance(e.left, ast.Name) and isinstance(e.comparators[0], ast.Constant):
            c = const_of(e.left.id)
            if c is None:
                return None
            a, b, op = c.value, e.comparators[0].value, e.ops[0]
            if isinstance(op, ast.Is):
                return {a is b}
            if isinstance(op, ast.IsNot):
                return {a is not b}
            if isinstance(op, ast.Eq):
                return {a == b}
            if isinstance(op, ast.NotEq):
                return {a != b}
        return None

    return atom


def with_inert(p: Optional[Project], func: Optional[Func], atom):
    """`atom`, falling back to the evaluation of inert parameters (inert_atom) for what it does not decide."""
    if p is None or func is None:
        return atom
    ia = inert_atom(p, func)

    def both(e):
        r = atom(e)
        return r if r is not None else ia(e)

    return both


def _none_truth_atom(name: str, is_none: Optional[bool]):
    """Truth of the tests over the local `name` when it is known to be None (True) / known not to be None (False)."""
    def atom(e):
        if is_none is None:
            return None
        if isinstance(e, ast.Compare) and len(e.ops) == 1 and isinstance(e.left, ast.Name) and e.left.id == name \
                and isinstance(e.comparators[0], ast.Constant) and e.comparators[0].value is None:
            if isinstance(e.ops[0], (ast.Is, ast.Eq)):
                return {is_none}
            if isinstance(e.ops[0], (ast.IsNot, ast.NotEq)):
                return {not is_none}
        if isinstance(e, ast.Name) and e.id == name and is_none:
            return {False}
        return None
    return atom


def values_at(p: Project, m: Func, name: str, nid: int) -> Optional[List[Tuple[Optional[Func], ast.AST]]]:
    """The expressions the local/parameter `name` of `m` may stand for at CFG node `nid`: ``[(scope, expr)]`` with scope = the
    function whose names the expression uses (m itself, a caller for a passed argument, None for a declared default).
    Reaching definitions over the CFG; a parameter is what the package's calls pass (param_values), and a parameter value of
    None does not survive a `<name> is None` / `not <name>` branch that rebinds it (the path is pruned with the test evaluated
    for None).  None when a definition is not a plain assignment / a readable parameter."""
    from .. import flow
    from .c15_helpers import reaching
    rd = reaching(p, m)
    cfg = rd.cfg
    out: List[Tuple[Optional[Func], ast.AST]] = []
    for d in rd.at(nid, name):
        if d.kind == 'assign' and d.value is not None:
            out.append((m, d.value))
            continue
        if d.kind != 'param':
            return None
        pv = param_values(p, m, name)
        if pv is None:
            return None
        redefs = {x.node for x in rd.defs if x.name == name and x.node is not None}
        for (scope, v) in pv:
            is_none = (v.value is None) if isinstance(v, ast.Constant) else None      # an argument expression: not known
            atom = _none_truth_atom(name, is_none)

            def feasible(a, b, l, atom=atom):
                n = cfg.node(a)
                if n.kind == 'test' and l in ('T', 'F'):
                    return (l == 'T') in possible(n.ast, atom)
                return True
            if nid in flow.reachable(cfg, [cfg.entry], avoid_nodes=redefs - {nid}, edge_filter=feasible):
                out.append((scope, v))
    return out


RET_NONE = 'None'


def return_kinds(project: Project, func: Func, depth=0) -> Dict[str, List[ast.AST]]:
    """What a classification helper can hand back: ``{kind: [return statements / the def node for the implicit one]}``
    with kind == RET_NONE (``return None`` / bare ``return`` / falling off the end) or the qualified name of the
    exception class of which an instance is returned (a parameter handed back counts as ``builtins.BaseException``:
    whatever was caught).  Anything else is an unknown idiom."""
    p = project
    cfg = cfg_of(func, p)
    out: Dict[str, List[ast.AST]] = {}
    params = [a for a in func.params() if a not in ('self', 'cls')]

    def kinds_of(e, where, seen=()):
        if e is None or (isinstance(e, ast.Constant) and e.value is None):
            return [RET_NONE]
        if isinstance(e, ast.IfExp):
            return kinds_of(e.body, where, seen) + kinds_of(e.orelse, where, seen)
        if isinstance(e, ast.Call):
            q = p.resolve_expr(func.module, e.func, func)
            if q is not None and p.is_subclass(q, 'builtins.BaseException') is True:
                return [q]
            # `return self._disconnected(code)`: a synchronous factory of the class / module hands back what IT can return
            g = p.callee(func, e)
            if isinstance(g, Func) and g is not func and not g.is_async and depth < 2:
                sub = return_kinds(p, g, depth + 1)
                if 'builtins.BaseException' not in sub:      # (a factory that hands back its own argument is not read)
                    return sorted(sub)
            raise UnknownIdiom('%s: returns %s' % (func.qual, short(e)))
        if isinstance(e, ast.Name):
            if e.id in params:
                return ['builtins.BaseException']
            if e.id in seen:
                raise UnknownIdiom('%s: returns %s' % (func.qual, short(e)))
            ds = local_defs(func, e.id)
            if not ds or any(d is None for d in ds):
                raise UnknownIdiom('%s: returns the local %s whose values are not understood' % (func.qual, e.id))
            ks = []
            for d in ds:
                ks += kinds_of(d, where, seen + (e.id,))
            return ks
        raise UnknownIdiom('%s: returns %s' % (func.qual, short(e)))

    n_ret = 0
    for n in cfg.live_nodes():
        if n.kind == 'stmt' and isinstance(n.ast, ast.Return):
            n_ret += 1
            for k in kinds_of(n.ast.value, n.ast):
                out.setdefault(k, []).append(n.ast)
    for (i, _l) in cfg.pred[cfg.exit]:
        n = cfg.node(i)
        if i in cfg.reachable_ids and not (n.kind == 'stmt' and isinstance(n.ast, ast.Return)):
            out.setdefault(RET_NONE, []).append(func.node)
    if not out:
        raise UnknownIdiom('%s never returns' % func.qual)
    return out


class Result:
    __slots__ =('exits', 'xexits', 'emits', 'recvs', 'raises', 'state_writes')

    def __init__(self):
        self.exits: Set[tuple] = set()
        self.xexits: Set[tuple] = set()
        self.emits: Set[tuple] = set()    # (etype, cell, func qual, node id)
        self.recvs: Set[tuple] = set()    # (cell, func qual, node id)
        self.raises: Set[tuple] = set()   # (class qual|None, cell, func qual, node id)
        self.state_writes: Set[tuple] = set()


class WSModel:
    def __init__(self, project: Project):
        p = self.p = project
        self.cls = p.cls(WS)
        enum = p.cls(WS_STATE_ENUM)
        for s in STATES:
            if s not in enum.attrs:
                raise AnchorError('%s.%s not found' % (WS_STATE_ENUM, s))
        if not any(b in ('enum.Enum', 'enum.IntEnum') for b in enum.bases):
            raise UnknownIdiom('%s is not a plain Enum (bases %s)' % (WS_STATE_ENUM, enum.bases))
        # members are read from the class; two names for one value would be aliases of ONE member
        self.members: List[str] = [k for k in enum.attrs if not k.startswith('_')]
        vals = {}
        for k in self.members:
            v = enum.attrs[k]
            if isinstance(v, ast.Call) and p.resolve_expr(enum.module, v.func) == 'enum.auto' and not v.args and not v.keywords:
                continue
            c = p.fold(enum.module, v, enum)
            if c is UNKNOWN or isinstance(c, (list, dict)) or c in vals:
                raise UnknownIdiom('%s.%s = %s: value not understood (alias of another member?)' % (WS_STATE_ENUM, k, short(v)))
            vals[c] = k
        self._states: Optional[List[str]] = None
        self.unwritten_members: List[str] = []
        init = p.func(WS + '.__init__')
        self.init = init
        params = init.params()
        for need in ('send', 'receive'):
            if need not in params:
                raise AnchorError('%s.__init__ has no %r parameter' % (WS, need))
        self.state_attr = None
        self.buf_attr = None
        self.raw_send = None
        self.raw_recv = None
        recv_sources = []
        for n in walk_self(init.node):
            if not isinstance(n, (ast.Assign, ast.AnnAssign)):
                continue
            tgts = n.targets if isinstance(n, ast.Assign) else [n.target]
            val = n.value
            for t in tgts:
                if not (isinstance(t, ast.Attribute) and isinstance(t.value, ast.Name) and t.value.id == 'self'):
                    continue
                if self._member(init, val) is not None:
                    if self.state_attr not in (None, t.attr):
                        raise UnknownIdiom('two state attributes in %s.__init__' % WS)
                    self.state_attr = t.attr
                    self.init_state = self._member(init, val)
                elif isinstance(val, ast.Call) and p.resolve_callable(init, val.func) is p.classes.get(BUFRX):
                    self.buf_attr = t.attr
                elif isinstance(val, ast.Name) and val.id == 'send':
                    self.raw_send = t.attr
                elif isinstance(val, ast.Name) and val.id == 'receive':
                    self.raw_recv = t.attr
                    recv_sources.append(val)
                elif isinstance(val, ast.Attribute) and val.attr == 'receive':
                    recv_sources.append(val)
                    self._buffered_recv_target = t.attr
        if None in (self.state_attr, self.buf_attr, self.raw_send, self.raw_recv):
            raise AnchorError('%s.__init__: state=%s receiver=%s send=%s receive=%s attribute not identified' % (
                WS, self.state_attr, self.buf_attr, self.raw_send, self.raw_recv))
        if self.init_state != 'HANDSHAKE':
            raise UnknownIdiom('initial WebSocket state is %s' % self.init_state)
        bcls = p.cls(BUFRX)
        binit = p.func(BUFRX + '.__init__')
        if not any(isinstance(n, ast.Attribute) and n.attr == 'client_disconnected' and isinstance(n.ctx, ast.Store)
                   for n in walk_self(binit.node)):
            raise AnchorError('%s.client_disconnected not initialised in __init__' % BUFRX)
        self._memo: Dict[tuple, Result] = {}
        self._alias_memo: Dict[tuple, bool] = {}
        self._active: Set[tuple] = set()
        self.visited_funcs: Set[str] = set()
        self.builder_dicts: Set[int] = set()

    # ------------------------------------------------------------- matchers
    def _member(self, func: Func, expr) -> Optional[str]:
        if expr is None:
            return None
        q = self.p.resolve_expr(func.module, expr, func)
        if q and q.startswith(WS_STATE_ENUM + '.'):
            m = q[len(WS_STATE_ENUM) + 1:]
            if m in self.members:
                return m
        return None

    def is_state(self, e) -> bool:
        return isinstance(e, ast.Attribute) and e.attr == self.state_attr and isinstance(e.value, ast.Name) and e.value.id == 'self'

    def reads_state(self, func: Func, e) -> bool:
        """`e` evaluates to the CURRENT value of the state attribute: the attribute itself, or a local bound exactly once to it
        (``state = self._state``) that cannot be stale where it is used - no path from the binding to a use passes a state write,
        a suspension point or a call of a method of the class that may write the state.  A once-bound local that CAN be stale is
        an unknown idiom (the cell analysis tracks the attribute, not snapshots of it)."""
        if self.is_state(e):
            return True
        if not (isinstance(e, ast.Name) and isinstance(e.ctx, ast.Load)) or e.id in func.params():
            return False
        key = (func.qual, e.id)
        if key not in self._alias_memo:
            self._alias_memo[key] = self._fresh_state_alias(func, e.id)
        return self._alias_memo[key]

    def _may_write_state(self, m: Func, depth=0) -> bool:
        if self._writes_state(m.node):
            return True
        for c in walk_self(m.node):
            if isinstance(c, ast.Call):
                g = self._self_method(m, c)
                if g is not None and g is not m and (depth >= 3 or self._may_write_state(g, depth + 1)):
                    return True
        return False

    def _fresh_state_alias(self, func: Func, name: str) -> bool:
        ds = local_defs(func, name)
        if not (len(ds) == 1 and ds[0] is not None and self.is_state(ds[0])):
            if any(d is not None and self.is_state(d) for d in ds):
                raise UnknownIdiom('%s: the local %s is bound to the state attribute and to something else' % (func.qual, name))
            return False

        def dirty(n) -> bool:
            if n.susp:
                return True
            for x in n.own():
                if self._writes_state(x):
                    return True
            for c in n.calls():
                m = self._self_method(func, c)
                if m is not None and self._may_write_state(m):
                    return True
            return False

        return self._fresh_snapshot(func, name, ds[0], dirty, 'the state attribute', 'the state may have changed')

    def _fresh_snapshot(self, func: Func, name: str, bound, dirty, what: str, why: str) -> bool:
        """The once-bound local `name` (a snapshot of `what`) cannot be stale where it is used: no path from the binding to a
        use passes a `dirty` node.  A snapshot that CAN be stale is an unknown idiom (the cell analysis tracks the attribute)."""
        from .. import flow
        cfg = cfg_of(func, self.p)
        bind = [n.id for n in cfg.live_nodes() if n.kind == 'stmt' and isinstance(n.ast, (ast.Assign, ast.AnnAssign)) and n.ast.value is bound]
        if len(bind) < 1:
            raise UnknownIdiom('%s: binding of %s to %s is not a plain statement' % (func.qual, name, what))
        uses = [n.id for n in cfg.live_nodes() if n.id not in bind
                and any(isinstance(x, ast.Name) and x.id == name and isinstance(x.ctx, ast.Load) for x in n.walk())]
        starts = [y for b in bind for (y, l) in cfg.succ[b] if l != 'exc']
        live = flow.reachable(cfg, starts, avoid_nodes=set(bind))
        stale_src = [i for i in live if i not in bind and dirty(cfg.node(i))]
        after_dirty = flow.reachable(cfg, [y for i in stale_src for (y, _l) in cfg.succ[i]], avoid_nodes=set(bind)) if stale_src else set()
        for u in uses:
            if u in after_dirty or u in stale_src:
                raise UnknownIdiom('%s: the local %s (a snapshot of %s) is used in `%s` after %s'
                                   % (func.qual, name, what, short(cfg.node(u).ast if cfg.node(u).ast is not None else name, 60), why))
        return True

    def _disc_expr(self, func: Func, e) -> bool:
        """`e` reads the receiver's client_disconnected flag: `self.<receiver>.client_disconnected`, or through a local bound once
        to the receiver"""
        if self.is_disc(e):
            return True
        if isinstance(e, ast.Attribute) and e.attr == 'client_disconnected' and isinstance(e.value, ast.Name) and e.value.id != 'self' \
                and e.value.id not in func.params():
            ds = local_defs(func, e.value.id)
            return len(ds) == 1 and isinstance(ds[0], ast.Attribute) and ds[0].attr == self.buf_attr and isinstance(ds[0].value, ast.Name) \
                and ds[0].value.id == 'self'
        return False

    def reads_disc(self, func: Func, e) -> bool:
        """`e` evaluates to the CURRENT value of the flag: the flag itself, or a local bound exactly once to it
        (``disconnected = self._buffered_receiver.client_disconnected``) with no suspension point (where the pump may raise the
        flag) between the binding and the use."""
        if self._disc_expr(func, e):
            return True
        if not (isinstance(e, ast.Name) and isinstance(e.ctx, ast.Load)) or e.id in func.params():
            return False
        key = (func.qual, e.id, 'disc')
        if key not in self._alias_memo:
            ds = local_defs(func, e.id)
            if not (len(ds) == 1 and ds[0] is not None and self._disc_expr(func, ds[0])):
                if any(d is not None and self._disc_expr(func, d) for d in ds):
                    raise UnknownIdiom('%s: the local %s is bound to the disconnect flag and to something else' % (func.qual, e.id))
                self._alias_memo[key] = False
            else:
                self._alias_memo[key] = self._fresh_snapshot(func, e.id, ds[0], lambda n: n.susp, 'the client_disconnected flag',
                                                             'a suspension point (the pump may have raised it)')
        return self._alias_memo[key]

    def is_disc(self, e) -> bool:
        return (isinstance(e, ast.Attribute) and e.attr == 'client_disconnected' and isinstance(e.value, ast.Attribute)
                and e.value.attr == self.buf_attr and isinstance(e.value.value, ast.Name) and e.value.value.id == 'self')

    def _raw_alias_calls(self) -> Dict[int, str]:
        """id(call node) -> 'send' | 'recv' for the calls, in the methods of the class, of a local bound exactly once to the raw
        ASGI callable (`send = self._asgi_send` ... `await send(event)`): a local bound once is what it aliases."""
        m = getattr(self, '_raw_alias_memo', None)
        if m is None:
            m = {}
            for f in self.cls.methods.values():
                for c in walk_self(f.node):
                    if isinstance(c, ast.Call) and isinstance(c.func, ast.Name) and c.func.id not in f.params():
                        ds = local_defs(f, c.func.id)
                        if len(ds) == 1 and isinstance(ds[0], ast.Attribute) and isinstance(ds[0].value, ast.Name) and ds[0].value.id == 'self':
                            if ds[0].attr == self.raw_send:
                                m[id(c)] = 'send'
                            elif ds[0].attr == self.raw_recv:
                                m[id(c)] = 'recv'
            self._raw_alias_memo = m
        return m

    def is_raw_send_call(self, c) -> bool:
        return isinstance(c, ast.Call) and ((isinstance(c.func, ast.Attribute) and c.func.attr == self.raw_send
                                             and isinstance(c.func.value, ast.Name) and c.func.value.id == 'self')
                                            or self._raw_alias_calls().get(id(c)) == 'send')

    def is_raw_recv_call(self, c) -> bool:
        return isinstance(c, ast.Call) and ((isinstance(c.func, ast.Attribute) and c.func.attr == self.raw_recv
                                             and isinstance(c.func.value, ast.Name) and c.func.value.id == 'self')
                                            or self._raw_alias_calls().get(id(c)) == 'recv')

    def atom_for(self, func: Func, cell, depth=0):
        s, d = cell

        def atom(e):
            if isinstance(e, ast.Compare) and len(e.ops) == 1:
                l, r, op = e.left, e.comparators[0], e.ops[0]
                if self.reads_state(func, r) and not self.reads_state(func, l):
                    l, r = r, l
                if self.reads_state(func, l):
                    if isinstance(op, (ast.Eq, ast.Is, ast.NotEq, ast.IsNot)):
                        k = self._member(func, r)
                        if k is None:
                            raise UnknownIdiom('%s: state compared with %s' % (func.qual, short(r)))
                        eq = s == k
                        return {eq} if isinstance(op, (ast.Eq, ast.Is)) else {not eq}
                    if isinstance(op, (ast.In, ast.NotIn)) and isinstance(r, (ast.Tuple, ast.List, ast.Set)):
                        ks = [self._member(func, x) for x in r.elts]
                        if None in ks:
                            raise UnknownIdiom('%s: state membership test %s' % (func.qual, short(e)))
                        isin = s in ks
                        return {isin} if isinstance(op, ast.In) else {not isin}
                    raise UnknownIdiom('%s: state test %s' % (func.qual, short(e)))
                return None
            if self.reads_disc(func, e):
                # the flag, read in place, through a local bound once to the receiver, or through a fresh snapshot local
                return {d}
            if self.reads_state(func, e):
                raise UnknownIdiom('%s: bare use of the state in a condition: %s' % (func.qual, short(e)))
            if isinstance(e, ast.Attribute) and isinstance(e.value, ast.Name) and e.value.id == 'self' and depth < 4:
                m = self.p.lookup_method(self.cls.qual, e.attr)
                if m is not None and m.is_property():
                    body = single_return_expr(m)
                    if body is None:
                        return self._property_truth(m, cell, depth + 1)
                    return possible(body, self.atom_for(m, cell, depth + 1))
            return None

        return with_inert(self.p, func, atom)

    def _property_truth(self, m: Func, cell, depth: int) -> Optional[Set[bool]]:
        """Truth values a status property that is more than one return expression can have in `cell`
        (`disconnected = self._buffered_receiver.client_disconnected` ... `return self._state == CLOSED or disconnected`): the
        returns reachable when the branch tests are evaluated for the cell, each evaluated for the cell.  None (not decided) when
        the property suspends, writes the state or calls methods of the class."""
        cfg = cfg_of(m, self.p)
        if any(n.susp for n in cfg.live_nodes()) or self._writes_state(m.node) or any(
                self._self_method(m, c) is not None for n in cfg.live_nodes() for c in n.calls()):
            return None
        atom = self.atom_for(m, cell, depth)
        out: Set[bool] = set()
        seen = {cfg.entry}
        work = [cfg.entry]
        while work:
            nid = work.pop()
            n = cfg.node(nid)
            if n.kind == 'stmt' and isinstance(n.ast, ast.Return):
                out |= possible(n.ast.value, atom) if n.ast.value is not None else {False}
                continue
            tv = possible(n.ast, atom) if n.kind == 'test' else None
            for (y, l) in cfg.succ[nid]:
                if l == 'exc' or (tv is not None and l in ('T', 'F') and (l == 'T') not in tv):
                    continue
                if y == cfg.exit:
                    out.add(False)      # falls off the end: None
                elif y not in seen:
                    seen.add(y)
                    work.append(y)
        return out or None

    # ---------------------------------------------------------- event types
    def event_type(self, func: Func, expr, env) -> Optional[str]:
        """Folded 'type' of the event expression, None if unknown."""
        expr = strip_await(expr)
        if isinstance(expr, ast.Name):
            if expr.id in func.params():
                return env.get(expr.id)
            defs = local_defs(func, expr.id)
            if len(defs) > 1 and all(isinstance(d, ast.Dict) for d in defs):
                # one literal per branch: the same event type in all of them
                ts = {self.event_type(func, d, env) for d in defs}
                return ts.pop() if len(ts) == 1 else None
            if len(defs) != 1 or defs[0] is None:
                return None
            expr = defs[0]
        if isinstance(expr, ast.Dict):
            for k, v in zip(expr.keys, expr.values):
                if isinstance(k, ast.Constant) and k.value == 'type':
                    t = self.p.fold(func.module, v, func.cls, func)
                    if isinstance(t, str):
                        self.builder_dicts.add(id(expr))
                        return t
        return None

    # ------------------------------------------------------------ analysis
    def analyse(self, func: Func, cell, env: Optional[Dict[str, Optional[str]]] = None) -> Result:
        env = env or {}
        key = (func.qual, cell, tuple(sorted((k, v) for k, v in env.items() if v is not None)))
        if key in self._memo:
            return self._memo[key]
        if key in self._active:
            raise UnknownIdiom('recursion through %s in the WebSocket state machine' % func.qual)
        self._active.add(key)
        try:
            res = self._analyse(func, cell, env)
        finally:
            self._active.discard(key)
        self._memo[key] = res
        return res

    def _self_method(self, func: Func, call: ast.Call) -> Optional[Func]:
        f = call.func
        if isinstance(f, ast.Attribute) and isinstance(f.value, ast.Name) and f.value.id == 'self':
            m = self.p.lookup_method(self.cls.qual, f.attr)
            if m is not None and not m.is_property():
                return m
        return None

    def call_env(self, func: Func, c: ast.Call, m: Func, env) -> Dict[str, Optional[str]]:
        """event types of the arguments of the self-method call `c` (callee parameter -> folded type | None)"""
        mparams = [a for a in m.params() if a != 'self']
        cenv: Dict[str, Optional[str]] = {}
        for i, a in enumerate(c.args):
            if isinstance(a, ast.Starred) or i >= len(mparams):
                break
            cenv[mparams[i]] = self.event_type(func, a, env)
        for kw in c.keywords:
            if kw.arg is not None:
                cenv[kw.arg] = self.event_type(func, kw.value, env)
        return cenv

    def emit_nodes(self, func: Func, etype: str) -> List[int]:
        """CFG nodes of `func` through which an event of type `etype` can be put on the raw send
        (directly, or inside a method of the state machine called there)."""
        cfg = cfg_of(func, self.p)
        out = []
        for n in cfg.live_nodes():
            hit = False
            for c in n.calls():
                if self.is_raw_send_call(c):
                    hit = hit or (len(c.args) == 1 and self.event_type(func, c.args[0], {}) == etype)
                    continue
                m = self._self_method(func, c)
                if m is None:
                    continue
                cenv = self.call_env(func, c, m, {})
                hit = hit or any(em[0] == etype for cell in self.all_cells() for em in self.analyse(m, cell, cenv).emits)
            if hit:
                out.append(n.id)
        return out

    def _sets_state_to(self, func: Func, stmt, member) -> bool:
        want = (member,) if isinstance(member, str) else tuple(member)
        if isinstance(stmt, ast.Assign) and len(stmt.targets) == 1 and self.is_state(stmt.targets[0]):
            return self._member(func, stmt.value) in want
        if isinstance(stmt, ast.AnnAssign) and self.is_state(stmt.target):
            return self._member(func, stmt.value) in want
        return False

    def state_write_stmts(self, func: Func, member, depth=0) -> List[ast.AST]:
        """Simple statements of `func` after whose normal completion the state attribute may have been set
        to `member` (one member name, or a collection of them): the assignment itself, or a statement calling a
        method of the state machine that (transitively, two levels) contains such an assignment."""
        cfg = cfg_of(func, self.p)
        out = []
        seen = set()
        for n in cfg.live_nodes():
            if n.kind != 'stmt' or n.ast is None or id(n.ast) in seen:
                continue
            hit = self._sets_state_to(func, n.ast, member)
            if not hit and depth < 2:
                for c in n.calls():
                    m = self._self_method(func, c)
                    if m is not None and m is not func and self.state_write_stmts(m, member, depth + 1):
                        hit = True
            if hit:
                seen.add(id(n.ast))
                out.append(n.ast)
        return out

    def _reraised_classes(self, func: Func, stmt) -> List[str]:
        """classes a bare ``raise`` can re-raise: those of the innermost enclosing ``except`` clause when it names project/builtin
        classes narrower than Exception; otherwise '<re-raise>' (whatever was caught)"""
        parent = enclosing_map(func.node)
        for a in ancestors(stmt, parent):
            if isinstance(a, (ast.FunctionDef, ast.AsyncFunctionDef, ast.Lambda)):
                break
            if isinstance(a, ast.ExceptHandler):
                if a.type is None:
                    break
                qs = []
                for t in (a.type.elts if isinstance(a.type, ast.Tuple) else [a.type]):
                    q = self.p.resolve_expr(func.module, t, func)
                    if q is None or not (q in self.p.classes or q.startswith('builtins.')) or q in ('builtins.Exception', 'builtins.BaseException'):
                        return ['<re-raise>']
                    qs.append(q)
                return sorted(set(qs))
        return ['<re-raise>']

    def _writes_state(self, node_ast) -> List[ast.AST]:
        return [x for x in walk_self(node_ast) if isinstance(x, ast.Attribute) and x.attr == self.state_attr
                and isinstance(x.ctx, (ast.Store, ast.Del)) and isinstance(x.value, ast.Name) and x.value.id == 'self']

    def _analyse(self, func: Func, cell0, env) -> Result:
        p = self.p
        cfg = cfg_of(func, p)
        self.visited_funcs.add(func.qual)
        res = Result()
        seen = {(cfg.entry, cell0)}
        work = [(cfg.entry, cell0)]

        def widen(cells):
            return set(cells) | {(s, True) for (s, _d) in cells}

        while work:
            nid, cell = work.pop()
            if nid == cfg.exit:
                res.exits.add(cell)
                continue
            if nid == cfg.xexit:
                res.xexits.add(cell)
                continue
            n = cfg.node(nid)
            after = {cell}
            exc = {cell}
            calls = sorted(n.calls(), key=lambda c: (c.end_lineno, c.end_col_offset))
            for c in calls:
                if self.is_raw_send_call(c):
                    if len(c.args) != 1 or c.keywords:
                        raise UnknownIdiom('%s: raw send call shape %s' % (func.qual, short(c)))
                    et = self.event_type(func, c.args[0], env)
                    if et is None:
                        raise UnknownIdiom('%s: cannot determine the event type sent by %s' % (func.qual, short(c)))
                    for cl in after:
                        res.emits.add((et, cl, func.qual, nid))
                    continue
                if self.is_raw_recv_call(c):
                    for cl in after:
                        res.recvs.add((cl, func.qual, nid))
                    continue
                m = self._self_method(func, c)
                if m is None:
                    continue
                cenv = self.call_env(func, c, m, env)
                new_after = set()
                for cl in after:
                    r = self.analyse(m, cl, cenv)
                    res.emits |= r.emits
                    res.recvs |= r.recvs
                    res.raises |= r.raises
                    new_after |= r.exits
                    exc |= r.xexits | r.exits
                after = new_after
            if n.susp:
                after = widen(after)
                exc = widen(exc)
            if n.ast is not None or n.kind in ('iter', 'with'):
                for e in n.own():
                    ws_ = self._writes_state(e)
                    if not ws_:
                        continue
                    a = n.ast
                    k = None
                    if n.kind == 'stmt' and isinstance(a, ast.Assign) and len(a.targets) == 1 and self.is_state(a.targets[0]):
                        k = self._member(func, a.value)
                    elif n.kind == 'stmt' and isinstance(a, ast.AnnAssign) and self.is_state(a.target):
                        k = self._member(func, a.value)
                    if k is None:
                        raise UnknownIdiom('%s: state written by %s' % (func.qual, short(a if a is not None else e)))
                    after = {(k, d) for (_s, d) in after}
                    for cl in after:
                        res.state_writes.add((k, func.qual, nid))
            if n.kind == 'stmt' and isinstance(n.ast, ast.Raise):
                qs = []
                factory = self._self_method(func, n.ast.exc) if isinstance(n.ast.exc, ast.Call) else None
                via_local = False
                if factory is None and isinstance(n.ast.exc, ast.Name) and n.ast.exc.id not in func.params():
                    # translated = self._classify(ex) ... if translated: raise translated
                    ds = local_defs(func, n.ast.exc.id)
                    if len(ds) == 1 and isinstance(ds[0], ast.Call):
                        factory = self._self_method(func, ds[0])
                        via_local = factory is not None
                if factory is not None:
                    # raise self._make_error(...): the classes the same-class factory can hand back
                    kinds = return_kinds(p, factory)
                    if RET_NONE in kinds and not via_local:
                        raise UnknownIdiom('%s: raises the result of %s, which can be None' % (func.qual, factory.qual))
                    qs = sorted(k for k in kinds if k != RET_NONE)     # `raise None` is not a way to leave (TypeError; guarded by a truth test today)
                    if not qs:
                        raise UnknownIdiom('%s: raises the result of %s, which is always None' % (func.qual, factory.qual))
                elif n.ast.exc is not None:
                    e = n.ast.exc.func if isinstance(n.ast.exc, ast.Call) else n.ast.exc
                    q = p.resolve_expr(func.module, e, func)
                    if q is not None and not (q in p.classes or q.startswith('builtins.')):
                        q = None
                    if q is None:
                        q = '?' + short(n.ast.exc, 60)
                    qs = [q]
                else:
                    qs = self._reraised_classes(func, n.ast)
                for q in qs:
                    res.raises.add((q, cell, func.qual, nid))
            atom = None
            for (y, l) in cfg.succ[nid]:
                if l == 'exc':
                    outs = exc
                else:
                    outs = after
                    cond = None
                    if n.kind == 'test' and l in ('T', 'F'):
                        cond, want = n.ast, l == 'T'
                    elif n.kind == 'stmt' and isinstance(n.ast, ast.Assert):
                        cond, want = n.ast.test, True
                    if cond is not None:
                        if atom is None:
                            atom = self.atom_for(func, cell)
                        if want not in possible(cond, atom):
                            continue
                for cl in outs:
                    k2 = (y, cl)
                    if k2 not in seen:
                        seen.add(k2)
                        work.append(k2)
        return res

    # ------------------------------------------------------------ the states
    def public_ops(self) -> List[Func]:
        return [f for name, f in sorted(self.cls.methods.items()) if not name.startswith('_') and not f.is_property()]

    def states(self) -> List[str]:
        """The members a connection can be in: the three anchors plus every further member that some public
        operation, entered in a state already known to be possible, can write (least fixpoint)."""
        if self._states is not None:
            return self._states
        ops = self.public_ops()
        # the members are classified by what the class does with them: nobody else may record a connection state
        for g in self.p.all_functions():
            own = g.cls or (g.parent.cls if g.parent is not None else None)
            if own is not None and (own.qual == WS or self.p.is_subclass(own.qual, WS) is True):
                continue
            for n in walk_self(g.node):
                if isinstance(n, (ast.Assign, ast.AnnAssign)) and n.value is not None:
                    for t in (n.targets if isinstance(n, ast.Assign) else [n.target]):
                        if isinstance(t, ast.Attribute) and t.attr == self.state_attr and self._member(g, n.value) is not None:
                            raise UnknownIdiom('%s records a WebSocket state from outside the class: %s' % (g.qual, short(n)))
        acc = self.cls.methods.get('accept')
        if acc is None:
            raise AnchorError('%s.accept not found' % WS)
        known = list(STATES)
        open_like: Set[str] = set()
        while True:
            written: Set[str] = set()
            for f in ops:
                for s in known:
                    for d in (False, True):
                        r = self.analyse(f, (s, d))
                        written |= {k for (k, _fq, _nid) in r.state_writes}
                        if f is acc:
                            open_like |= {s2 for (s2, _d2) in r.exits if s2 != s}
            new = [k for k in self.members if k in written and k not in known]
            if not new:
                break
            known += new
        extra_open = sorted(k for k in known if k not in STATES and k in open_like)
        if extra_open:
            raise UnknownIdiom('%s: accept() can return in the additional state(s) %s; a second accepted-like state is not modelled'
                               % (WS_STATE_ENUM, extra_open))
        self.unwritten_members = [k for k in self.members if k not in known]
        self._states = known
        return known

    def terminal_states(self) -> List[str]:
        """CLOSED and every additional member the code records (none of them is the initial or the accepted state)"""
        return [s for s in self.states() if s not in ('HANDSHAKE', 'ACCEPTED')]

    def extra_terminal_states(self) -> List[str]:
        return [s for s in self.terminal_states() if s != 'CLOSED']

    def all_cells(self):
        return [(s, d) for s in self.states() for d in (False, True)]

    def call_closure(self, func: Func, bound=6) -> List[Func]:
        """`func` and the methods/properties of the class it uses through ``self``, transitively"""
        seen: Dict[str, Func] = {}
        work = [(func, 0)]
        while work:
            f, dep = work.pop()
            if f.qual in seen or dep > bound:
                continue
            seen[f.qual] = f
            for x in walk_self(f.node):
                if isinstance(x, ast.Attribute) and isinstance(x.value, ast.Name) and x.value.id == 'self' and isinstance(x.ctx, ast.Load):
                    m = self.p.lookup_method(self.cls.qual, x.attr)
                    if m is not None:
                        work.append((m, dep + 1))
        return [seen[q] for q in sorted(seen)]

    def guards_distinguishing(self, func: Func, a: str, b: str, disc: bool) -> List[Tuple[Func, ast.AST]]:
        """Branch conditions in `func` and what it calls that evaluate differently for state `a` and state `b`."""
        out = []
        for g in self.call_closure(func):
            if g.is_property():
                continue        # a property is judged where it is tested
            cfg = cfg_of(g, self.p)
            for n in cfg.live_nodes():
                cond = n.ast if n.kind == 'test' else (n.ast.test if n.kind == 'stmt' and isinstance(n.ast, ast.Assert) else None)
                if cond is None:
                    continue
                if possible(cond, self.atom_for(g, (a, disc))) != possible(cond, self.atom_for(g, (b, disc))):
                    out.append((g, cond))
        return out
